"""Per-run bookkeeping: obligations, bounded cases, violations, known findings, evidence file.

Exit codes of a check (DESIGN section 1): 0 held / undecided-with-stand-in-holding, 1 violation not listed in
known_findings.json, 3 the checker itself failed (never printed as a violation).
"""
import hashlib
import json
import os
import sys
import time

ROOT = os.path.dirname(os.path.dirname(os.path.abspath(__file__)))
EVIDENCE_DIR = os.path.join(ROOT, "evidence")
REPLAY_DIR = os.path.join(ROOT, "replays")
KNOWN = os.path.join(ROOT, "known_findings.json")

GLOBAL_ASSUMPTIONS = {
    "A1": "A1 machine floating point treated as mathematical reals in every discharged obligation",
    "A2": "A2 dependency contracts (numpy/pandas/sklearn/scipy/torch calls) are assumed, conformance-tested on concrete inputs only",
    "A3": "A3 CPython semantics of the supported subset as implemented by the pyvc symbolic executor (cross-checked by canary mutants and native replays)",
    "A4": "A4 soundness of z3 / cvc5 / Lean kernel",
    "A5": "A5 termination is not proved",
    "A6": "A6 no int64 overflow in numpy counts, no unicode truncation in numpy fixed-width strings",
    "A7": "A7 user-supplied callables (metrics, estimators, callbacks) are deterministic and side-effect free on fairlearn objects",
}


def _jsonable(x, depth=0):
    try:
        json.dumps(x)
        return x
    except Exception:
        pass
    if depth > 6:
        return repr(x)[:200]
    if isinstance(x, dict):
        return {str(k): _jsonable(v, depth + 1) for k, v in x.items()}
    if isinstance(x, (list, tuple, set, frozenset)):
        return [_jsonable(v, depth + 1) for v in x]
    try:
        import numpy as np
        if isinstance(x, np.ndarray):
            return _jsonable(x.tolist(), depth + 1)
        if isinstance(x, np.generic):
            return _jsonable(x.item(), depth + 1)
    except Exception:
        pass
    return repr(x)[:300]


def fingerprint(x):
    return hashlib.blake2b(repr(x).encode(), digest_size=8).hexdigest()


class Report:
    def __init__(self, pid, tier="quick", seed=0, level="other"):
        self.pid, self.tier, self.seed, self.level = pid, tier, int(seed), level
        self.t0 = time.time()
        self.functions = []          # functions under contract
        self.obligations = []        # dicts: name, fn, status, backend, secs, label
        self.canaries = []           # dicts: fn, mutant, caught (bool), by
        self.standins = {}           # name -> dict(evaluations, nontrivial hashes, rule, exhaustive, samples, bound)
        self.violations = []         # dicts: key, what, replay, known
        self.undecided = []
        self.assumptions = []
        self.trusted = []
        self.notes = []
        self.explanation = ""
        self.solver_s = {}
        self.errors = []

    # ------------------------------------------------------------------ deductive part
    def add_function(self, path, qualname, lineno=None, sha=None, dropped=(), role="under contract"):
        self.functions.append({"file": path, "function": qualname, "line": lineno, "sha256": sha,
                               "dropped_statements": list(dropped), "role": role})

    def add_obligation(self, name, fn, status, backend="z3", secs=0.0, label="P", detail=None):
        assert status in ("discharged", "failed", "undecided")
        self.obligations.append({"name": name, "fn": fn, "status": status, "backend": backend,
                                 "secs": round(secs, 4), "label": label, **({"detail": detail} if detail else {})})
        self.solver_s[backend] = self.solver_s.get(backend, 0.0) + secs
        if status == "undecided":
            self.undecided.append(name)

    def add_canary(self, fn, mutant, caught, by=None):
        self.canaries.append({"fn": fn, "mutant": mutant, "caught": bool(caught), "by": by})

    # ------------------------------------------------------------------ bounded stand-ins
    def standin(self, name, rule, bound, exhaustive=False):
        s = self.standins.setdefault(name, {"evaluations": 0, "nontrivial": set(), "rule": rule, "bound": bound,
                                            "exhaustive": exhaustive, "samples": []})
        return s

    def case(self, standin, nontrivial, fp=None, sample=None):
        s = self.standins[standin]
        s["evaluations"] += 1
        if nontrivial:
            s["nontrivial"].add(fp if fp is not None else s["evaluations"])
        if sample is not None and len(s["samples"]) < 3:
            s["samples"].append(_jsonable(sample))

    def merge_cases(self, standin, evaluations, nontrivial_fps, samples=()):
        s = self.standins[standin]
        s["evaluations"] += evaluations
        s["nontrivial"].update(nontrivial_fps)
        for x in samples:
            if len(s["samples"]) < 3:
                s["samples"].append(_jsonable(x))

    # ------------------------------------------------------------------ verdicts
    def violation(self, key, what, replay=None, obligation=None, no_input=False):
        """key identifies the specific failing input class / call site (matched against known_findings.json)."""
        for v in self.violations:
            if v["key"] == key:
                v["count"] = v.get("count", 1) + 1
                return
        self.violations.append({"key": key, "what": what, "replay": _jsonable(replay or {}), "obligation": obligation,
                                "no_input": bool(no_input)})

    def assume(self, *texts):
        for t in texts:
            t = GLOBAL_ASSUMPTIONS.get(t, t)
            if t not in self.assumptions:
                self.assumptions.append(t)

    def trust(self, *texts):
        for t in texts:
            if t not in self.trusted:
                self.trusted.append(t)

    def note(self, text):
        self.notes.append(text)

    def error(self, text):
        self.errors.append(text)

    # ------------------------------------------------------------------ finish
    def _known(self):
        try:
            data = json.load(open(KNOWN))
        except FileNotFoundError:
            return {}
        return {f["key"]: f for f in data.get("findings", []) if f.get("status") == "known" and f.get("property") == self.pid}

    def finish(self):
        known = self._known()
        os.makedirs(EVIDENCE_DIR, exist_ok=True)
        os.makedirs(REPLAY_DIR, exist_ok=True)
        new_violations = 0
        lines = []
        seen_known = set()
        for v in self.violations:
            if v["key"] in known:
                seen_known.add(v["key"])
                lines.append(f"KNOWN-FINDING: property={self.pid} {known[v['key']]['what']} [{v['key']}]")
                v["known"] = True
                continue
            new_violations += 1
            path = os.path.join(REPLAY_DIR, f"{self.pid}_{fingerprint(v['key'])}.json")
            json.dump({"property": self.pid, "key": v["key"], "what": v["what"], "failed_obligation": v["obligation"],
                       "replay": v["replay"], "tier": self.tier, "seed": self.seed,
                       "how_to_replay": f"./check {self.pid} --replay {path}"}, open(path, "w"), indent=1)
            tail = " no-failing-input-found" if v["no_input"] else ""
            lines.append(f"VIOLATION property={self.pid} replay={path}{tail}")
            lines.append(f"  what: {v['what']}")
        for k, f in known.items():          # a known finding that was not re-observed is only noted (never an alarm)
            if k not in seen_known:
                self.notes.append(f"known finding not re-observed in this run: {k}")
        for name in self.undecided:
            lines.append(f"UNDECIDED obligation={name}")
        n_ob = len(self.obligations)
        n_dis = sum(1 for o in self.obligations if o["status"] == "discharged")
        by_label = {}
        for o in self.obligations:
            d = by_label.setdefault(o["label"], {"obligations": 0, "discharged": 0})
            d["obligations"] += 1
            d["discharged"] += o["status"] == "discharged"
        evaluations = sum(s["evaluations"] for s in self.standins.values())
        distinct = sum(len(s["nontrivial"]) for s in self.standins.values())
        samples = []
        for o in self.obligations[:3]:
            samples.append({"obligation": o["name"], "function": o["fn"], "status": o["status"], "backend": o["backend"]})
        for n, s in self.standins.items():
            for x in s["samples"][:2]:
                samples.append({"bounded_case_of": n, "case": x})
        # mechanical scan (every report): assumption statements of the sidecar contracts that were loaded by this check - each is a precondition of the
        # function under contract or an assumed dependency contract (listed under trusted_base / assumptions), never a way to make an obligation pass
        scan = {}
        for name, mod in list(sys.modules.items()):
            if name.startswith("vf.contracts.") and getattr(mod, "__file__", None):
                try:
                    src = open(mod.__file__).read()
                except OSError:
                    continue
                scan[name] = {"st.assume": src.count("st.assume("), "Lemma_without_proof": src.count("Lemma(") - src.count("proof=")}
        level = self.level
        if level == "proof" and (n_ob == 0 or n_dis < n_ob):
            level = "other"     # a proof-level claim needs every obligation discharged in this run
        coverage = {
            "explanation": self.explanation or "see MANIFEST level_claimed.text",
            "obligations": n_ob, "discharged": n_dis,
            "obligations_by_label": by_label,
            "label_legend": "P = proved for all inputs from the real source (modulo listed assumed contracts); S = all values, bounded "
                            "shape; X = bounded run-time contract check (never counted as proved)",
            "checker_cmd": f"./check {self.pid} --tier {self.tier}",
            "trusted_base": self.trusted,
            "assumption_scan": scan,
            "backends_solver_seconds": {k: round(v, 3) for k, v in self.solver_s.items()},
            "functions_under_contract": self.functions,
            "obligation_list": [{k: o[k] for k in ("name", "fn", "status", "backend", "label", "secs")} for o in self.obligations][:400],
            "undecided": self.undecided,
            "canary_mutants": self.canaries,
            "evaluations": evaluations, "distinct_nontrivial": distinct,
            "rule": " || ".join(f"[{n}] {s['rule']} (bound: {s['bound']})" for n, s in self.standins.items()) or "no bounded stand-in in this check",
            "bounded_standins": {n: {"evaluations": s["evaluations"], "distinct_nontrivial": len(s["nontrivial"]), "bound": s["bound"],
                                     "exhaustive": s["exhaustive"], "labelled": "bounded - never counted as proved"}
                                 for n, s in self.standins.items()},
            "exhaustive": bool(self.standins) and all(s["exhaustive"] for s in self.standins.values()),
            "samples": samples or [{"note": "no cases"}],
            "notes": self.notes,
            "known_findings_reported": sorted(seen_known),
        }
        ev = {"property_id": self.pid, "tier": self.tier, "seed": self.seed, "level": level, "coverage": coverage,
              "assumptions": self.assumptions, "wall_s": round(time.time() - self.t0, 2), "violations": new_violations}
        if os.environ.get("VERIF_REPO") or getattr(self, "only", None):          # a partial (--only) run or a run against a scratch copy of the repository (seeded changes) never touches the evidence of the registered check
            os.makedirs(os.path.join(ROOT, "scratch"), exist_ok=True)
            json.dump(ev, open(os.path.join(ROOT, "scratch", f"evidence_{self.pid}.json"), "w"), indent=1)
        elif getattr(self, "replay_key", None) is None:          # a replay run does not overwrite the evidence of the check
            json.dump(ev, open(os.path.join(EVIDENCE_DIR, f"{self.pid}.json"), "w"), indent=1)
        for ln in lines:
            print(ln)
        ok_can = sum(c["caught"] for c in self.canaries)
        print(f"[{self.pid}] tier={self.tier} obligations={n_ob} discharged={n_dis} undecided={len(self.undecided)} "
              f"canaries={ok_can}/{len(self.canaries)} bounded_cases={evaluations} distinct_nontrivial={distinct} "
              f"violations={new_violations} known={len(seen_known)} wall={ev['wall_s']}s")
        if self.errors:
            for e in self.errors:
                print("CHECKER-ERROR", e, file=sys.stderr)
            return 3 if new_violations == 0 else 1
        if n_ob == 0 and evaluations == 0:
            print("CHECKER-ERROR zero obligations and zero cases", file=sys.stderr)
            return 3
        return 1 if new_violations else 0
