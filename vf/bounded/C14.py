"""C14 bounded stand-in (labelled bounded, never counted as proved).

X: every (y_true, y_pred) of length 1..n over {0,1}, {-1,1}, {'a','b'} x weights x pos_label: values, range, complements, role swap,
   scalar-ness, against first-principles Fractions (vf.speclib)."""
import itertools

import numpy as np

from .. import speclib as S
from ..report import fingerprint
from .harness import run_cases

ENCODINGS = [((0, 1), None), ((0, 1), 1), ((0, 1), 0), ((-1, 1), None), ((-1, 1), -1), (("a", "b"), "b"), (("a", "b"), "a")]


def _cases(nmax, wvals, seed, extra):
    out = []
    for n in range(1, nmax + 1):
        for bits in itertools.product((0, 1), repeat=2 * n):
            yt, yp = bits[:n], bits[n:]
            ws = [None] + list(itertools.product(wvals, repeat=n)) if n <= 3 else [None, tuple(wvals[(i * 7 + sum(bits)) % len(wvals)] for i in range(n))]
            for w in ws:
                for ei in range(len(ENCODINGS)):
                    out.append((yt, yp, w, ei))
    rng = np.random.default_rng(seed)
    for _ in range(extra):
        n = int(rng.integers(nmax + 1, nmax + 6))
        yt = tuple(int(x) for x in rng.integers(0, 2, n))
        yp = tuple(int(x) for x in rng.integers(0, 2, n))
        w = None if rng.random() < 0.3 else tuple(float(x) for x in rng.choice([0.5, 1, 2, 3, 7.25], n))
        out.append((yt, yp, w, int(rng.integers(0, len(ENCODINGS)))))
    return out


def _check(case):
    import fairlearn.metrics as fm
    yt_b, yp_b, w, ei = case
    (v0, v1), pos_label = ENCODINGS[ei]
    enc = lambda bits: [v1 if b else v0 for b in bits]
    yt, yp = enc(yt_b), enc(yp_b)
    pos = pos_label if pos_label is not None else 1
    n = len(yt)
    nontrivial = n >= 2 or w is not None
    fp = fingerprint(case)
    wl = None if w is None else list(w)
    kw = {} if pos_label is None else {"pos_label": pos_label}

    def viol(which, what, got, exp):
        return (nontrivial, fp, (f"C14:{which}", f"{what}: got {got!r}, first-principles value {exp!r} on y_true={yt} y_pred={yp} w={wl} pos_label={pos_label!r}",
                                 {"y_true": yt, "y_pred": yp, "sample_weight": wl, "pos_label": repr(pos_label), "got": repr(got), "expected": repr(exp)}))
    spec = S.confusion_rates(yt, yp, wl, pos)
    got = {}
    for short, f in (("tpr", fm.true_positive_rate), ("fnr", fm.false_negative_rate), ("fpr", fm.false_positive_rate), ("tnr", fm.true_negative_rate)):
        try:
            r = f(yt, yp, sample_weight=wl, **kw)
        except Exception as ex:
            return viol(f"{f.__name__}:raises", f"{f.__name__} raised {type(ex).__name__}", repr(ex)[:100], float(spec[short]))
        got[short] = r
        if np.ndim(r) != 0:
            return viol(f"{f.__name__}:not-scalar", f"{f.__name__} is not a scalar", r, float(spec[short]))
        if not S.close(r, spec[short]):
            return viol(f"{f.__name__}:value", f.__name__, float(r), float(spec[short]))
        if not (-1e-12 <= float(r) <= 1 + 1e-12):
            return viol(f"{f.__name__}:range", f"{f.__name__} outside [0,1]", float(r), "[0,1]")
    s1 = float(got["tpr"]) + float(got["fnr"])
    if not S.close(s1, 1.0 if spec["has_pos"] else 0.0):
        return viol("tpr+fnr", "TPR+FNR", s1, 1.0 if spec["has_pos"] else 0.0)
    s2 = float(got["tnr"]) + float(got["fpr"])
    if not S.close(s2, 1.0 if spec["has_neg"] else 0.0):
        return viol("tnr+fpr", "TNR+FPR", s2, 1.0 if spec["has_neg"] else 0.0)
    # role swap: switching pos_label to the other class exchanges TPR<->TNR and FPR<->FNR
    if pos_label is not None and len(set(yt) | set(yp)) == 2:
        other = v0 if pos_label == v1 else v1
        try:
            sw = {"tpr": fm.true_negative_rate(yt, yp, sample_weight=wl, pos_label=other),
                  "fpr": fm.false_negative_rate(yt, yp, sample_weight=wl, pos_label=other)}
        except Exception as ex:
            return viol("role-swap:raises", f"rates with pos_label={other!r} raised", repr(ex)[:100], "")
        for k, v in sw.items():
            if not S.close(v, got[k]):
                return viol("role-swap", f"role swap of {k}", float(v), float(got[k]))
    for nm, f, exp in (("selection_rate", lambda: fm.selection_rate(yt, yp, sample_weight=wl, pos_label=pos), S.selection_rate(yp, wl, pos)),
                       ("count", lambda: fm.count(yt, yp), n)):
        try:
            r = f()
        except Exception as ex:
            return viol(f"{nm}:raises", f"{nm} raised {type(ex).__name__}", repr(ex)[:100], float(exp))
        if np.ndim(r) != 0:
            return viol(f"{nm}:not-scalar", f"{nm} is not a scalar (shape {np.shape(r)})", np.asarray(r).tolist(), float(exp))
        if not S.close(r, exp):
            return viol(f"{nm}:value", nm, float(r), float(exp))
    if not isinstance(v0, str):
        try:
            r = fm.mean_prediction(yt, yp, sample_weight=wl)
        except Exception as ex:
            return viol("mean_prediction:raises", f"mean_prediction raised {type(ex).__name__}", repr(ex)[:100], "")
        exp = S.mean_prediction(yp, wl)
        if np.ndim(r) != 0:
            return viol("mean_prediction:not-scalar", f"mean_prediction is not a scalar (shape {np.shape(r)})", np.asarray(r).tolist(), float(exp))
        if not S.close(r, exp):
            return viol("mean_prediction:value", "mean_prediction", float(r), float(exp))
    return (nontrivial, fp, None)


DTYPES = ("bool", "int8", "uint8", "int16", "float32", "int64", "float64")


def _check_dtype(case):
    """the container dtype of the inputs must not matter: selection_rate / mean_prediction / the four rates on numpy arrays of narrow dtypes (many rows)
    against plain-Python arithmetic on the same values"""
    import fairlearn.metrics as fm
    n, dt, npos, weighted, seed = case
    rng = np.random.default_rng(seed)
    yp = np.array([1] * npos + [0] * (n - npos))
    rng.shuffle(yp)
    yt = rng.integers(0, 2, n)
    yt[:2] = (0, 1)
    w = [int(x) for x in rng.integers(1, 4, n)] if weighted else None
    fp = fingerprint(case)
    ws = w or [1] * n
    tot = sum(ws)
    arr = lambda v: np.asarray(v).astype(dt)
    exp = {"selection_rate": sum(k for k, p in zip(ws, yp) if p == 1) / tot, "mean_prediction": sum(k * int(p) for k, p in zip(ws, yp)) / tot}
    pos = sum(k for k, t in zip(ws, yt) if t == 1)
    neg = tot - pos
    exp["true_positive_rate"] = sum(k for k, t, p in zip(ws, yt, yp) if t == 1 and p == 1) / pos
    exp["false_positive_rate"] = sum(k for k, t, p in zip(ws, yt, yp) if t == 0 and p == 1) / neg
    for name, want in exp.items():
        f = getattr(fm, name)
        variants = [("predictions", yt, arr(yp), w), ("labels and predictions", arr(yt), arr(yp), w)]
        if w and dt != "bool":
            variants.append(("predictions and weights", yt, arr(yp), arr(w)))          # weights 1..3 are exact in every listed dtype; their total is not (uint8/int8: n >= 40)
        for which, a_t, a_p, a_w in variants:
            try:
                got = float(f(a_t, a_p, sample_weight=a_w) if w else f(a_t, a_p))
            except Exception as ex:
                return (True, fp, (f"C14:{name}:raises:dtype", f"{name} raised {type(ex).__name__}: {ex} for {dt} {which}"[:300], {"case": [str(c) for c in case]}))
            if not S.close(got, want):
                return (True, fp, (f"C14:{name}:value:input-dtype", f"{name} on {n} rows with {which} stored as {dt} ({npos} positive predictions, weights {'given' if w else 'omitted'}): "
                                   f"got {got!r}, plain arithmetic gives {want!r}", {"function": name, "dtype": dt, "n": n, "y_true": yt.tolist(), "y_pred": yp.tolist(),
                                                                                     "sample_weight": w, "got": got, "expected": want}))
    return (True, fp, None)


def run_bounded(rep):
    rep.assume("A1")
    nmax, extra = (3, 300) if rep.tier == "quick" else (5, 5000)
    cases = _cases(nmax, (1, 2, 3), rep.seed, extra)
    run_cases(rep, "base_metrics_rtc",
              rule="all (y_true,y_pred) in {0,1}^n x {0,1}^n, n<=%d, under 7 encodings/pos_label settings, weights None or all of {1,2,3}^n (n<=3), plus "
                   "%d seeded longer vectors; non-trivial = n>=2 or weighted; distinct by full case" % (nmax, extra),
              bound=f"n <= {nmax} exhaustive, seeded up to n = {nmax + 5}", cases=cases, check_case=_check, exhaustive=False)
    sizes = (4, 40, 300) if rep.tier == "quick" else (4, 40, 300, 3000)
    dcases = [(n, dt, max(1, int(n * fr)), wt, rep.seed + i) for i, (n, dt, fr, wt) in enumerate(itertools.product(sizes, DTYPES, (0.25, 0.75, 1.0), (False, True)))]
    run_cases(rep, "input_dtypes_rtc",
              rule="n in %s rows x dtype of the arrays in %s x 25/75/100%% positive predictions x weights omitted / small integers (as a list and stored in that dtype): selection_rate, mean_prediction, TPR, FPR "
                   "against plain-Python arithmetic on the same values; distinct by full case" % (list(sizes), list(DTYPES)), bound=f"n <= {sizes[-1]}", cases=dcases,
              check_case=_check_dtype, exhaustive=False)
