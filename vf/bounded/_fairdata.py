"""Shared by the C03 / C11 stand-ins: small fairness datasets (labels, predictions, group ids, weights) and the containers they are passed in."""
import itertools

import numpy as np

FORMS = ("list-str", "arr-int", "series", "df2")
LABELS = ("a", "b", "c", "d")
LABEL_PERMS = list(itertools.permutations(range(4)))


def partitions(n):
    """restricted growth strings = all partitions of n rows into groups (group ids in order of first appearance)"""
    def rec(prefix, k):
        if len(prefix) == n:
            yield tuple(prefix)
            return
        for x in range(k + 1):
            yield from rec(prefix + [x], max(k, x + 1))
    return list(rec([], 0))


def pick_weights(n, j):
    """the j-th pick out of {1,2,3}^n (deterministic, walks through all vectors as j varies)"""
    allw = list(itertools.product((1, 2, 3), repeat=n))
    return allw[(j * 7 + 1) % len(allw)]


def scores(yt, yp):
    """dyadic scores replacing the 0/1 predictions for score-based metrics (ties occur)"""
    k = sum(yt) + 2 * sum(yp)
    return tuple(((0.25, 0.125, 0.375)[(i + k) % 3] if yp[i] == 0 else (0.75, 0.875, 0.625, 0.375)[(i + k) % 4]) for i in range(len(yp)))


def containers(form, yt, yp, sc, g, w, perm):
    """-> y_true, y_pred, scores, sensitive_features, sample_weight in the containers of `form`, and a JSON-able rendering of the groups.
    Group id x gets label LABELS[perm[x]] (so the first-seen group is not always the smallest label); 'df2' encodes it in two columns."""
    import pandas as pd
    lab = [LABELS[perm[x]] for x in g]
    if form == "list-str":
        return list(yt), list(yp), list(sc), lab, (None if w is None else list(w)), lab
    if form == "arr-int":
        ints = [(7, 3, 11, 5)[perm[x]] for x in g]
        return np.array(yt), np.array(yp), np.array(sc), np.array(ints), (None if w is None else np.array(w, dtype=float)), ints
    if form == "series":
        return (pd.Series(list(yt), name="y"), pd.Series(list(yp), name="p"), pd.Series(list(sc), name="s"), pd.Series(lab, name="sf"),
                (None if w is None else pd.Series([float(x) for x in w], name="w")), lab)
    two = [(LABELS[perm[x] // 2], "xy"[perm[x] % 2]) for x in g]
    return (list(yt), np.array(yp), list(sc), pd.DataFrame({"s1": [t[0] for t in two], "s2": [t[1] for t in two]}),
            (None if w is None else list(w)), [list(t) for t in two])


def seeded_dataset(rng, kind):
    """n in 4..6, <= 4 groups. kind 0 random, 1 a single-member group, 2 a group without positives or without negatives,
    3 every group has both classes. Returns yt, yp, g (tuples; g in order of first appearance)."""
    n = int(rng.integers(4, 7))
    k = int(rng.integers(2, 5)) if kind != 3 else int(rng.integers(1, n // 2 + 1))
    if kind == 3:        # each group gets a (1,0) pair first
        g = [x for x in range(k) for _ in (0, 1)] + [int(x) for x in rng.integers(0, k, n - 2 * k)]
        yt = [b for _ in range(k) for b in (1, 0)] + [int(x) for x in rng.integers(0, 2, n - 2 * k)]
    else:
        g = list(range(k)) + [int(x) for x in rng.integers(0, k, n - k)]        # every group non-empty
        yt = [int(x) for x in rng.integers(0, 2, n)]
    yp = [int(x) for x in rng.integers(0, 2, n)]
    if kind == 1:        # rows of group 0 other than the first move to group 1
        g = [g[i] if (g[i] != 0 or i == 0) else 1 for i in range(n)]
    if kind == 2:
        v = int(rng.integers(0, 2))
        yt = [v if g[i] == 0 else yt[i] for i in range(n)]
    order = rng.permutation(n)
    yt, yp, g = tuple(yt[i] for i in order), tuple(yp[i] for i in order), [g[i] for i in order]
    seen = {}
    return yt, yp, tuple(seen.setdefault(x, len(seen)) for x in g)
