"""Shared pieces of the C06 / C07 bounded stand-ins: scope enumeration, materialisation of a structure as concrete
load_data arguments (seeded container / naming / row-order variants) and the first-principles oracle (row loops, Fractions).

Nothing in here calls into fairlearn except `make_moment` (constructor only) and `load`."""
import itertools
from fractions import Fraction

import numpy as np

from ..speclib import F

MOMENTS = ("DemographicParity", "TruePositiveRateParity", "FalsePositiveRateParity", "EqualizedOdds", "ErrorRateParity")
# constructor kwargs; eps/ratio by the documented rule: difference_bound -> (d, 1); ratio_bound -> (slack, r); nothing -> (0.01, 1)
BOUNDS = ({"difference_bound": 0.05}, {"ratio_bound": 1.0, "ratio_bound_slack": 0.02}, {"ratio_bound": 0.8},
          {"ratio_bound": 0.5, "ratio_bound_slack": 0.1}, {})
COSTS = (None, {"fp": 1.0, "fn": 1.0}, {"fp": 2.0, "fn": 1.0}, {"fp": 0.0, "fn": 1.0}, {"fp": 1.0, "fn": 0.0}, {"fp": 0.5, "fn": 3.0})
LOSSES = (("SquareLoss", 0, 1), ("AbsoluteLoss", 0, 1), ("SquareLoss", -1, 2), ("ZeroOneLoss",), ("AbsoluteLoss", 0.25, 0.75))
GROUP_NAMES = (("a", "b", "c", "d"), ("c", "a", "d", "b"), (0, 1, 2, 3), (2, 0, 3, 1), ("g10", "g2", "G", ""))
CONTROL_NAMES = (("x", "y", "z"), ("z", "x", "y"), (0, 1, 2), (7, -1, 3))


def eps_ratio(kw):
    if "ratio_bound" in kw:
        return kw.get("ratio_bound_slack", 0.0), kw["ratio_bound"]
    return kw.get("difference_bound", 0.01), 1.0


# ------------------------------------------------------------------ scope
def structures(n, n_groups=3, n_strata=0):
    """Every multiset of n rows (group, label, stratum) with >= 2 groups, up to renaming of groups and strata.
    n_strata = 0: no control feature (stratum None); else strata drawn from 1..n_strata values."""
    C = max(1, n_strata)
    cells = [(g, y, c) for g in range(n_groups) for y in (0, 1) for c in range(C)]
    gp = list(itertools.permutations(range(n_groups)))
    cp = list(itertools.permutations(range(C)))
    seen = set()
    for ms in itertools.combinations_with_replacement(cells, n):
        gs, cs = {r[0] for r in ms}, {r[2] for r in ms}
        if len(gs) < 2 or gs != set(range(len(gs))) or cs != set(range(len(cs))):
            continue
        seen.add(min(tuple(sorted((p[g], y, q[c]) for g, y, c in ms)) for p in gp for q in cp))
    out = sorted(seen)
    if not n_strata:
        out = [tuple((g, y, None) for g, y, _ in s) for s in out]
    return out


def random_structure(rng, nmin, nmax, n_groups, n_strata):
    n = int(rng.integers(nmin, nmax + 1))
    k = int(rng.integers(2, n_groups + 1))
    c = int(rng.integers(1, n_strata + 1)) if n_strata else 0
    rows = [(int(rng.integers(0, k)), int(rng.integers(0, 2)), int(rng.integers(0, c)) if c else None) for _ in range(n)]
    if len({r[0] for r in rows}) < 2:
        rows[0] = ((rows[1][0] + 1) % k,) + rows[0][1:]
    return tuple(rows)


def materialize(struct, vseed, y_values=None):
    """Concrete load_data arguments for a structure. Returns dict with the plain lists g, y, c (oracle side) and the containers
    X, y_in, sf_in, cf_in (fairlearn side) chosen by the seeded variant; `desc` is JSON-able."""
    import pandas as pd
    rng = np.random.default_rng(vseed)
    n = len(struct)
    order = [int(i) for i in rng.permutation(n)] if rng.random() < 0.7 else list(range(n))
    rows = [struct[i] for i in order]
    gn = GROUP_NAMES[int(rng.integers(0, len(GROUP_NAMES)))]
    cn = CONTROL_NAMES[int(rng.integers(0, len(CONTROL_NAMES)))]
    g = [gn[r[0]] for r in rows]
    y = [r[1] for r in rows] if y_values is None else [y_values[i] for i in order]
    c = None if rows[0][2] is None else [cn[r[2]] for r in rows]
    idx = [int(i) for i in rng.permutation(n) * 3 + 5]
    vy, vs, vc, vx = (int(v) for v in rng.integers(0, 4, 4))
    y_in = [y, np.array(y), pd.Series(y, index=idx, name="target"), pd.DataFrame({"lbl": y}, index=idx)][vy]
    two_cols = vs == 3 and rng.random() < 0.5
    if two_cols:                                   # two sensitive columns: documented merge "v1,v2"
        sf_in = pd.DataFrame({"s1": [str(v) for v in g], "s2": ["k"] * n})
        g = [f"{v},k" for v in g]
    else:
        sf_in = [g, np.array(g), pd.Series(g, index=idx[::-1], name="sex"), pd.DataFrame({"sf": g}, index=idx)][vs]
    cf_in = None if c is None else [c, np.array(c), pd.Series(c, index=idx, name="ctl"), pd.DataFrame({"cf": c})][vc]
    Xv = np.column_stack([np.arange(n, dtype=float), np.ones(n)])
    X = pd.DataFrame(Xv, columns=["f0", "f1"], index=idx) if vx >= 2 else Xv
    desc = {"y": y, "sensitive_features": g, "control_features": c, "two_sensitive_columns": bool(two_cols),
            "containers": {"y": type(y_in).__name__, "sf": type(sf_in).__name__, "cf": type(cf_in).__name__, "X": type(X).__name__}}
    return {"n": n, "g": g, "y": y, "c": c, "X": X, "y_in": y_in, "sf_in": sf_in, "cf_in": cf_in, "desc": desc}


def make_moment(name, kw):
    import fairlearn.reductions as R
    return getattr(R, name)(**kw)


def load(m, d):
    kw = {"sensitive_features": d["sf_in"]}
    if d["cf_in"] is not None:
        kw["control_features"] = d["cf_in"]
    m.load_data(d["X"], d["y_in"], **kw)
    return kw


def make_loss(spec):
    import fairlearn.reductions as R
    return getattr(R, spec[0])(*spec[1:])


# ------------------------------------------------------------------ oracle: parity moments
def event_of(kind, y, c):
    """Documented event of one row (None = the row belongs to no event)."""
    if kind in ("DemographicParity", "ErrorRateParity"):
        base = "all"
    elif kind == "TruePositiveRateParity":
        base = "label=1" if y == 1 else None
    elif kind == "FalsePositiveRateParity":
        base = "label=0" if y == 0 else None
    else:
        base = f"label={y}"
    if base is None or c is None:
        return base
    return f"control={c},{base}"


class ParitySpec:
    """gamma(+,e,g) = r*mean_{e,g}(u) - mean_e(u), gamma(-,e,g) = r*mean_e(u) - mean_{e,g}(u) by direct row loops."""

    def __init__(self, kind, g, y, c, ratio):
        self.kind, self.g, self.y, self.c, self.r, self.n = kind, g, y, c, F(ratio), len(y)
        self.ev = [event_of(kind, y[i], None if c is None else c[i]) for i in range(self.n)]
        self.rows_e, self.rows_eg = {}, {}
        for i, e in enumerate(self.ev):
            if e is not None:
                self.rows_e.setdefault(e, []).append(i)
                self.rows_eg.setdefault((e, g[i]), []).append(i)
        self.index = [(s, e, gg) for s in "+-" for (e, gg) in self.rows_eg]
        self._A = None

    def utility(self, i, h):
        h = F(h)
        return h if self.kind != "ErrorRateParity" else (1 - h if self.y[i] == 1 else h)     # |h - y| for h in [0,1]

    def gamma(self, h):
        u = [self.utility(i, h[i]) for i in range(self.n)]
        out = {}
        for (e, gg), rows in self.rows_eg.items():
            re = self.rows_e[e]
            me = sum(u[i] for i in re) / len(re)
            meg = sum(u[i] for i in rows) / len(rows)
            out[("+", e, gg)] = self.r * meg - me
            out[("-", e, gg)] = self.r * me - meg
        return out

    def signed_weights(self, lam):
        """The unique w with lam.gamma(h) - lam.gamma(h') = -(1/n) sum_i w_i (h_i - h'_i): w_i = -n * sum_k lam_k * d gamma_k / d h_i."""
        if self._A is None:
            g0 = self.gamma([0] * self.n)
            self._A = []
            for i in range(self.n):
                gi = self.gamma([1 if j == i else 0 for j in range(self.n)])
                self._A.append({k: gi[k] - g0[k] for k in g0})
        return [-self.n * sum(F(lam[k]) * a[k] for k in a if lam.get(k)) for a in self._A]


# ------------------------------------------------------------------ oracle: objective and loss moments
def error_rate(y, h, costs):
    fp, fn = (1, 1) if costs is None else (costs["fp"], costs["fn"])
    tot = Fraction(0)
    for yi, hi in zip(y, h):
        d = F(yi) - F(hi)
        tot += F(fn) * d if d > 0 else F(fp) * (-d)
    return tot / len(y)


def error_rate_weights(y, costs):
    fp, fn = (1, 1) if costs is None else (costs["fp"], costs["fn"])
    return [-F(fp) + (F(fp) + F(fn)) * yi for yi in y]


def loss_value(spec, yi, hi):
    lo, hi_ = (0, 1) if spec[0] == "ZeroOneLoss" else spec[1:]
    clip = lambda v: min(max(F(v), F(lo)), F(hi_))
    d = clip(yi) - clip(hi)
    return d * d if spec[0] == "SquareLoss" else abs(d)


def group_rows(g):
    out = {}
    for i, v in enumerate(g):
        out.setdefault(v, []).append(i)
    return out


def soft_predictions(rng, n, k):
    out = []
    for j in range(k):
        h = rng.random(n)
        if j % 2:
            h = np.round(h * 4) / 4          # ties and exact 0/1 among soft values
        out.append([float(v) for v in h])
    return out


def dups(keys):
    keys = list(keys)
    return len(set(keys)) != len(keys)
