"""C05 bounded stand-in (labelled bounded, never counted as proved).

X: the real ThresholdOptimizer.fit behind a pass-through scorer on the C04 scope (vf/bounded/_threshopt.py; sizes kept small so that the
   reference linear programs stay small), objective value of the fitted randomised rule against an independent optimum.

Reference optimum (no fairlearn code): the rule family of the statement is, per group, all mixtures of the distinct threshold rules
`score > t` (t above the top score, between neighbouring distinct scores, below the bottom score) and, with flip=True, `score < t`.
For every grid value x in {0, 1/grid_size, ..., 1}:
  * single-metric constraints: per group the LP  max sum_k w_k obj_k  s.t. sum_k w_k xmetric_k = x, w in the simplex; the group optima are
    combined with the group frequencies n_g/n;
  * equalized odds: the joint LP over all groups' mixtures and a common TPR t with FPR_g = x, TPR_g = t, maximising the overall accuracy
    (n_pos t + n_neg (1-x))/n or balanced accuracy (t + 1 - x)/2;
  and the reference is the maximum over the grid. The LPs are solved twice: by enumerating their basic solutions (one rule, or two rules
  bracketing x; for equalized odds t = min over groups of the per-group maximum, feasible because every ROC region contains the diagonal) and by
  scipy.optimize.linprog (every grid value for grid_size <= 10; the arg-max, the fitted x and 6 seeded grid values for grid_size = 1000).
  The two solutions must agree within 1e-6, otherwise the stand-in reports a checker error (never a violation).
Achieved value: from p_i = _pmf_predict(training rows)[:, 1], exact Fractions: frequency-weighted mean over groups of the objective of the
group's expected confusion matrix (single-metric constraints) or the objective of the overall expected confusion matrix (equalized odds).
Checks: |achieved - reference| <= 1e-7 (below: `suboptimal`; above: `exceeds-family-optimum`, i.e. the fitted rule left the family),
the constrained metric of every group equals one common grid value k/grid_size within 1e-9 (`off-grid`), achieved >= objective of the
better constant classifier - 1e-9 (`worse-than-constant`); p_i NaN or outside [0,1] -> `pmf-not-a-probability`.
Non-trivial case = the reference optimum strictly beats both constant classifiers.

NOT checked: optimality among rules outside the stated family (e.g. thresholds that differ inside a group); inputs larger than the bound.

Sensitivity self-test (scratch worktree of /repo HEAD, one edit at a time, quick-tier case list and this check_case; all edits screened with
an early-stopping driver over the same cases, `group_weight_uniform` and `side_left` additionally through
`VERIF_REPO=... ./check C05 --tier quick --only X` -> VIOLATION, exit 1):
  edit                                                                                          -> first key
  idxmax -> idxmin over the overall trade-off curve                                             -> <constraint>:suboptimal
  group weight len(group)/n -> 1.0                                                              -> <constraint>:suboptimal (needs unequal groups)
  group weight len(group)/n -> share of the positives                                           -> <constraint>:suboptimal
  np.amin -> np.amax over the ROC hulls                                                         -> equalized_odds:off-grid (TPR differs)
  sort the trade-off points by (x asc, y desc)                                                  -> <constraint>:suboptimal
  hull pop loop `while len(selected) >= 2` -> `>= 3` (keeps a dominated vertex)                 -> <constraint>:suboptimal
  hull pop test `<= rhs` -> `<= rhs + 0.05` (drops a shallow vertex)                            -> selection_rate_parity:suboptimal (after 3609 cases)
  hull pop test `<= rhs` -> `<= rhs + 0.02`                                                     -> MISSED in the quick scope: with groups of <= 6 rows
      every cross product of hull points is a multiple of >= 1/36 > 0.02, so no vertex is dropped inside the bound (needs larger groups).
  equalized odds: n_positive -> n - n_positive (needs unbalanced labels)                        -> equalized_odds:suboptimal
  equalized odds: false_positives/true_negatives of the objective exchanged                     -> equalized_odds:suboptimal
  equalized odds: argmax over the first half of the grid only                                   -> equalized_odds:suboptimal
  flip ignored (simple constraints / equalized odds)                                            -> <constraint>:suboptimal (needs flip=True)
  grid linspace(0,1,grid_size+1) -> linspace(0,1,max(grid_size,2))                              -> <constraint>:suboptimal, :off-grid
  balanced accuracy computed with /n instead of /positives, /negatives                          -> <constraint>:suboptimal
  searchsorted side="right" -> "left" (lower end of a vertical first hull edge at x=0)          -> <constraint>:suboptimal
  outer loop of _calculate_tradeoff_points stops one cut early                                  -> <constraint>:raises, :suboptimal
"""
from fractions import Fraction

import numpy as np

from ..report import fingerprint
from . import _threshopt as T
from .harness import run_cases

TOL = 1e-7


def _cases(tier, seed):
    rng = np.random.default_rng(seed + 5)
    out = []

    def add(datasets, levels, k):
        for rows in datasets:
            for ci in rng.choice(len(T.CONFIGS), size=k, replace=False):
                enc = T.random_enc(rng)
                rr = rows if levels == "raw" else T.with_scores(rows, levels, int(rng.integers(0, 3)))
                out.append((rr, int(ci), enc))
    if tier == "quick":
        add(T.datasets_exhaustive([(2, 2)], 3), 3, 64)
        add(T.datasets_exhaustive([(2, 3)], 4), 4, 2)
        add(T.datasets_exhaustive([(2, 4), (3, 3), (2, 2, 2)], 3), 3, 2)
        for rows, _ in T.datasets_seeded(rng, 700, max_groups=5, max_rows=12):
            add([rows], "raw", 2)
    else:
        add(T.datasets_exhaustive([(2, 2)], 3), 3, 384)
        add(T.datasets_exhaustive([(2, 3), (2, 4), (3, 3), (2, 2, 2)], 4), 4, 4)
        add(T.datasets_exhaustive([(2, 5), (3, 4), (2, 2, 3)], 3), 3, 4)
        for rows, _ in T.datasets_seeded(rng, 12000, max_groups=5, max_rows=14):
            add([rows], "raw", 2)
    out += T.integer_score_cases(rng, 100 if tier == "quick" else 1000, 2, len(T.CONFIGS))
    out += T.ulp_score_cases(rng, 60 if tier == "quick" else 1000, 2, len(T.CONFIGS))
    return out


def _linprog_simple(gpts, weights, x):
    """joint LP over the groups (block diagonal): max sum_g weight_g * sum_k w_gk y_gk  s.t. per group sum w = 1, sum w x = x"""
    from scipy.optimize import linprog
    nv = sum(len(p) for p in gpts)
    c = np.zeros(nv)
    A = np.zeros((2 * len(gpts), nv))
    b = np.zeros(2 * len(gpts))
    o = 0
    for gi, pts in enumerate(gpts):
        for k, (px, py) in enumerate(pts):
            c[o + k] = -weights[gi] * py
            A[2 * gi, o + k] = 1.0
            A[2 * gi + 1, o + k] = px
        b[2 * gi], b[2 * gi + 1] = 1.0, x
        o += len(pts)
    res = linprog(c, A_eq=A, b_eq=b, bounds=(0, 1), method="highs")
    return -res.fun if res.status == 0 else None


def _linprog_eo(gpts, coef_t, const, x):
    """joint LP with the common TPR t as last variable: max coef_t * t + const  s.t. per group sum w = 1, FPR = x, TPR - t = 0"""
    from scipy.optimize import linprog
    nv = sum(len(p) for p in gpts) + 1
    c = np.zeros(nv)
    c[-1] = -coef_t
    A = np.zeros((3 * len(gpts), nv))
    b = np.zeros(3 * len(gpts))
    o = 0
    for gi, pts in enumerate(gpts):
        for k, (px, py) in enumerate(pts):
            A[3 * gi, o + k] = 1.0
            A[3 * gi + 1, o + k] = px
            A[3 * gi + 2, o + k] = py
        A[3 * gi + 2, -1] = -1.0
        b[3 * gi], b[3 * gi + 1] = 1.0, x
        o += len(pts)
    res = linprog(c, A_eq=A, b_eq=b, bounds=(0, 1), method="highs")
    return -res.fun + const if res.status == 0 else None


def _check(case):
    rows, ci, enc = case
    constraint, objective, flip, gs = cfg = T.CONFIGS[ci]
    X, y, sf, gl, yl, sl = T.materialise(rows, enc)
    fp = fingerprint(case)
    n = len(yl)
    replay = {"groups": gl, "labels": yl, "scores": sl, "constraints": constraint, "objective": objective, "flip": flip, "grid_size": gs,
              "predict_method": enc[0], "container": enc[2], "prefit": enc[3] % 2 == 0, "extra_X_column": enc[4], "score_dtype": enc[5] if len(enc) > 5 else "float64"}
    desc = f"constraints={constraint} objective={objective} flip={flip} grid_size={gs} groups={gl} labels={yl} scores={sl}"
    try:
        to = T.make_optimizer(cfg, enc).fit(X, y, sensitive_features=sf)
        ps, _ = T.pmf_of(to, X, sf)
    except Exception as ex:
        return (True, fp, (f"C05:{constraint}:raises", f"fit/_pmf_predict raised {type(ex).__name__}: {str(ex)[:120]} on {desc}", replay))
    i = T.bad_probability(ps)
    if i is not None:
        return (True, fp, (f"C05:{constraint}:pmf-not-a-probability", f"_pmf_predict gives P(1)={ps[i]!r} for training row {i} (group {gl[i]!r}, score {sl[i]}); {desc}",
                           {**replay, "row": i, "pmf_training_rows": [repr(p) for p in ps]}))
    groups = T.by_group(gl)
    gkeys = list(groups)
    sub = lambda v, g: [v[i] for i in groups[g]]
    grid = np.arange(gs + 1) / gs
    eo = constraint == "equalized_odds"

    # ---- achieved objective, constants, position of the fitted rule on the x axis (all exact)
    if eo:
        value = lambda probs: T.metric(objective, T.confusion(yl, probs))
        xnames = ["false_positive_rate", "true_positive_rate"]
    else:
        value = lambda probs: sum(Fraction(len(groups[g]), n) * T.metric(objective, T.confusion(sub(yl, g), sub(probs, g))) for g in gkeys)
        xnames = [T.SIMPLE[constraint]]
    got = value(ps)
    const = max(value([0] * n), value([1] * n))
    xs = [T.metric(xnames[0], T.confusion(sub(yl, g), sub(ps, g))) for g in gkeys]
    k_fit = int(round(float(xs[0]) * gs))
    if any(abs(v - Fraction(k_fit, gs)) > Fraction(1e-9) for v in xs):
        return (True, fp, (f"C05:{constraint}:off-grid",
                           f"{xnames[0]} of the fitted rule per group = {[float(v) for v in xs]} is not one common value k/{gs}; {desc}",
                           {**replay, "per_group": [float(v) for v in xs], "pmf_training_rows": ps}))
    if eo:
        ts = [T.metric("true_positive_rate", T.confusion(sub(yl, g), sub(ps, g))) for g in gkeys]
        if max(ts) - min(ts) > Fraction(1e-9):
            return (True, fp, (f"C05:{constraint}:off-grid", f"true_positive_rate of the fitted rule differs between groups: {[float(v) for v in ts]}; {desc}",
                               {**replay, "per_group": [float(v) for v in ts], "pmf_training_rows": ps}))

    # ---- reference optimum: enumeration of basic solutions for every grid value
    if eo:
        n_pos = sum(yl)
        coef_t, const_of = (n_pos / n, lambda x: (n - n_pos) * (1 - x) / n) if objective == "accuracy_score" else (0.5, lambda x: (1 - x) / 2)
        gpts = [T.rule_points(sub(yl, g), sub(sl, g), flip, "false_positive_rate", "true_positive_rate") for g in gkeys]
        tmin = np.min([T.envelope(p, grid) for p in gpts], axis=0)
        tlow = np.max([T.envelope(p, grid, lower=True) for p in gpts], axis=0)
        if np.any(tlow > tmin + 1e-12):
            raise RuntimeError("oracle: equalized-odds reference infeasible at a grid value")
        ref_curve = coef_t * tmin + const_of(grid)
        lp = lambda k: _linprog_eo(gpts, coef_t, const_of(grid[k]), grid[k])
    else:
        weights = [len(groups[g]) / n for g in gkeys]
        gpts = [T.rule_points(sub(yl, g), sub(sl, g), flip, xnames[0], objective) for g in gkeys]
        ref_curve = sum(w * T.envelope(p, grid) for w, p in zip(weights, gpts))
        lp = lambda k: _linprog_simple(gpts, weights, grid[k])
    k_ref = int(np.argmax(ref_curve))
    ref = float(ref_curve[k_ref])
    if gs <= 10:
        ks = list(range(gs + 1))
    else:
        r = np.random.default_rng(int(fp, 16))
        ks = sorted({k_ref, min(max(k_fit, 0), gs), 0, gs} | {int(v) for v in r.integers(0, gs + 1, 6)})
    lps = {k: lp(k) for k in ks}
    for k, v in lps.items():
        if v is None or abs(v - ref_curve[k]) > 1e-6:
            raise RuntimeError(f"oracle: linprog {v!r} and basic-solution enumeration {ref_curve[k]!r} disagree at x={grid[k]} on {desc}")
    refs = [("basic-solution enumeration", ref)] + ([("scipy linprog", max(lps.values()))] if gs <= 10 else [])
    nontrivial = ref > float(const) + 1e-9
    g = float(got)
    for how, rv in refs:
        if g < rv - TOL or g > rv + TOL:
            kind = "suboptimal" if g < rv else "exceeds-family-optimum"
            return (nontrivial, fp, (f"C05:{constraint}:{kind}",
                                     f"objective {objective} of the fitted rule = {g!r}, optimum of the parity-satisfying threshold-rule family on the grid "
                                     f"= {rv!r} at x={grid[k_ref]} ({how}); fitted x={float(xs[0])}; {desc}",
                                     {**replay, "got": g, "expected": rv, "x_reference": float(grid[k_ref]), "x_fitted": float(xs[0]), "pmf_training_rows": ps}))
    if got < const - Fraction(1e-9):
        return (nontrivial, fp, (f"C05:{constraint}:worse-than-constant",
                                 f"objective {objective} of the fitted rule = {g!r} < best constant classifier {float(const)!r}; {desc}",
                                 {**replay, "got": g, "expected_at_least": float(const)}))
    return (nontrivial, fp, None)


def run_bounded(rep):
    rep.assume("A1", "A2", "A7")
    cases = _cases(rep.tier, rep.seed)
    bound = ("n <= 6, <= 3 groups, <= 4 levels exhaustive in the data; seeded data up to 5 groups x 12 rows" if rep.tier == "quick" else
             "2x2 rows x 3 levels x all 384 configurations; n <= 6 (4 levels), n <= 7 (3 levels), <= 3 groups exhaustive in the data; seeded "
             "data up to 5 groups x 14 rows")
    run_cases(rep, "threshold_optimizer_optimum_vs_lp",
              rule="C04 data scope (all multisets of (group,label,score-level) rows with both labels per group, one per group relabelling, plus "
                   "seeded larger data sets) x seeded configurations (7 constraint names x admissible objectives x flip x grid_size in "
                   "{1,2,3,7,10,1000}) x seeded encoding; real fit; objective of the fitted rule (Fractions over _pmf_predict on the training rows) "
                   "against the LP optimum over mixtures of all threshold rules per group for every grid value (basic-solution enumeration and "
                   "scipy linprog), against the constant classifiers, and common grid value of the constrained metric; non-trivial = optimum "
                   "strictly better than both constants; distinct by full case",
              bound=bound, cases=cases, check_case=_check, exhaustive=False)
