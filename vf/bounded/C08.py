"""C08 bounded stand-in (labelled bounded, never counted as proved).

X: the REAL ExponentiatedGradient.fit driven by an exact cost-sensitive learner over the enumerable class H_k (all 2^k functions of one
   feature with k values, `_exactlearner.Exact`) on small binary datasets; every guarantee of the statement is re-evaluated from first
   principles (`_exactlearner.parity_gamma`, `error_rate`: plain loops over the rows, no fairlearn call) from the *predictions* of the
   stored predictors and from `_pmf_predict`:
     prob     weights_ is indexed by exactly the predictors, non-negative, sums to 1;
     gap      g = best_gap_ >= true duality gap of Q against the multiplier recorded for iteration best_iter_ (mean of lambda_vecs_EG_[:, 0..best_iter_]
              or lambda_vecs_LP_[best_iter_]; whichever gives the smaller gap, in canonical form min(l+,l-) removed for difference bounds):
              max( L(Q,l) - min_{h in H_k} L(h,l),  err(Q) + B*max(0,max_j(gamma_j(Q)-b_j)) - L(Q,l) ), min over H_k by enumeration;
     error    err(Q) <= min{err(Q') : Q' distribution over H_k, gamma(Q') <= b} + 2g      (LP over the enumerated class, scipy highs)
     viol     gamma_j(Q) - b_j <= (1+2g)/B  for every j;     both also for the randomised classifier exposed by _pmf_predict;
     early    fewer than max_iter iterations recorded (columns of lambda_vecs_EG_)  =>  best_gap_ < nu (the requested nu; when nu=None the
              value fairlearn stored) ;  also best_iter_ within the iterations run.
   error/viol/gap are only demanded when the constrained problem is feasible (LP status optimal); tolerance 1e-7 absolute.
Scope: configurations = 5 parity moments x 5 bound settings (default .01, difference_bound .1/.02, ratio_bound .8 + slack .05, ratio_bound .6 slack 0)
   x eps {.02,.1,.3} x max_iter {2,6,20,50} x run_linprog_step x eta0 {.5,2} (all 1200 combinations, each on 2 (max_iter<=6) / 1 datasets in the quick tier, 16 / 8 in the thorough
   tier, drawn from a seeded pool, 80% preferring datasets on which the constraint binds), nu in {None, .2, .02, 1e-4} (+ 24 cases with nu = 0); datasets: k in 2..3 (quick) / 2..5 (thorough) feature values, 2..3 groups, n in 4..15, mostly with
   feature correlated to the group (so that the constraint binds), group x label cells may be empty, single-member groups, duplicated rows;
   containers ndarray / DataFrame+Series / DataFrame+lists, group labels ints or strings in non-sorted order.
NOT checked: heuristic learners, control features, sample weights (fit has none), the value of the automatic nu, predict() sampling (C10),
   the gap as an equality, which of the EG / LP iterate was returned.

Findings on the unchanged tree (reported, not hidden; EDGE holds a seed-independent reproducer):
   C08:fit:raises:zero-signed-weights-nan   ExponentiatedGradient(Exact(2), DemographicParity(), eps=.02).fit on x=y=sf=[0,1]*4 (also n=2, one row per group)
       raises ValueError "Input sample_weight contains NaN": a multiplier tried by eval_gap (LP dual vertex = indifference point of the learner) makes every
       signed weight exactly 0, _Lagrangian._call_oracle normalises redW by redW.sum() = 0 and hands NaN weights to DummyClassifier.

Sensitivity self-test (scratch worktree /tmp/agent_C08/r, `VERIF_REPO=... ./check C08 --tier quick --only X`; (s) = same cases, every 8th, single process):
   _GapResult.gap ignores L_high - L                                   -> C08:gap:underestimates
   eval_gap never lowers L_low (best response unused)                  -> C08:gap:underestimates
   L_high adds max_constraint instead of B*max_constraint              -> C08:gap:underestimates
   weights_ = Qs[-1] (last instead of best iterate; needs LP off)      -> C08:gap:underestimates
   early stop at gap < 2*nu                                            -> C08:early-stop:gap-not-below-nu
   Q_EG = Qsum/(t+2) (not normalised)                                  -> C08:weights:not-probability
   no zero padding of weights_ (predictor outside the support)         -> C08:fit:raises (reading the fitted model / _pmf_predict raises)
   _eval pairs errors with Q by position (needs a skipped predictor)   -> C08:gap:underestimates
   eval_gap tries mul 2,5,10 only (L_low from the response to 2*lambda)-> C08:gap:underestimates
   oracle weighs the objective by 0.5 (s)                              -> C08:gap:underestimates
   gap of the LP iterate stored with Q of the EG iterate (s)           -> C08:gap:underestimates
   L without the bound term (s)                                        -> C08:gap:underestimates
   best_gap_ = min(gaps_EG) regardless of the returned iterate (s)     -> C08:early-stop:gap-not-below-nu
   B = 1/eps - 1 (s)                                                   -> C08:gap:underestimates
   not property-breaking, correctly silent (s): best_h returns idxmax of the stored values (the fresh best response is still returned unless all tie);
   best_iter_ = last iteration (gap, Q and multiplier stay consistent).
"""
import itertools

import numpy as np

from ..report import fingerprint
from . import _exactlearner as E
from .harness import run_cases

TOL = 1e-7
EPS, MAX_ITER, ETA0, NUS = (0.02, 0.1, 0.3), (2, 6, 20, 50), (0.5, 2.0), (None, None, None, 0.2, 0.02, 1e-4)


# seed-independent edge cases: feature = label = group (all signed weights vanish at an LP multiplier), one row per group, a group without positives
EDGE = [(2, (0, 1) * 4, (0, 1) * 4, (0, 1) * 4, 0, 0, 0.02, 50, True, 2.0, None, 1, False),
        (2, (0, 1), (0, 1), (0, 1), 0, 0, 0.1, 20, True, 2.0, None, 0, False),
        (2, (0, 1, 0, 1, 1), (0, 0, 1, 0, 1), (1, 1, 0, 0, 0), 2, 1, 0.1, 20, True, 2.0, None, 2, True),
        (3, (0, 1, 2, 0, 1, 2), (0, 1, 1, 1, 0, 1), (0, 0, 1, 1, 2, 2), 1, 2, 0.02, 50, False, 0.5, 1e-4, 1, True)]


def _dataset(rng, kmax):
    """Seeded dataset; feature correlated with the group and the label with the feature, so that parity constraints usually bind."""
    k, G, n = int(rng.integers(2, kmax + 1)), int(rng.integers(2, 4)), int(rng.integers(4, 16))
    style = int(rng.integers(0, 4))
    if style == 0:
        return (k,) + E.random_dataset(rng, k, G, n if n >= 2 * G + 2 else 2 * G + 2, need="cells")
    for _ in range(1000):
        sf = rng.integers(0, G, n)
        if style == 3 and n > G:                      # one single-member group
            sf = rng.integers(0, G - 1, n); sf[int(rng.integers(0, n))] = G - 1
        x = np.where(rng.random(n) < 0.75, sf % k, rng.integers(0, k, n))
        noise = rng.choice([0.0, 0.2, 0.6], G)         # label noise depends on the group, so that error/TPR/FPR parity bind as well
        y = np.where(rng.random(n) < noise[sf], rng.integers(0, 2, n), x % 2)
        if style == 2 and n >= 6:                     # duplicated rows -> ties in the learner
            h = n // 2
            x[h:2 * h], y[h:2 * h], sf[h:2 * h] = x[:h], y[:h], sf[:h]
        if len(set(sf.tolist())) == G and len(set(y.tolist())) == 2:
            return k, tuple(int(v) for v in x), tuple(int(v) for v in y), tuple(int(v) for v in sf)
    return (k,) + E.random_dataset(rng, k, G, max(n, 2 * G + 2), need="cells")


def _binds(ds, mi, bi, cache):
    """Does an error minimiser over H_k violate a constraint of (moment, bound) on dataset ds?  (first principles, used to pick cases)"""
    if (ds, mi, bi) not in cache:
        k, x, y, sf = ds
        ratio, b = E.bound_of(E.BOUNDS[bi])
        preds = [[t[v] for v in x] for t in E.all_tables(k)]
        best = min(preds, key=lambda p: E.error_rate(y, p))
        cache[(ds, mi, bi)] = max(E.parity_gamma(E.MOMENTS[mi], ratio, y, sf, best).values()) > b
    return cache[(ds, mi, bi)]


def _cases(seed, kmax, per_cfg, pool_size):
    rng = np.random.default_rng(seed)
    pool = [_dataset(rng, kmax) for _ in range(pool_size)]
    out, cache = [], {}
    cfgs = list(itertools.product(range(len(E.MOMENTS)), range(len(E.BOUNDS)), EPS, MAX_ITER, (True, False), ETA0))
    for mi, bi, eps, max_iter, lp, eta0 in cfgs:
        for r in range(per_cfg if max_iter <= 6 else max(1, per_cfg // 2)):      # long runs cost 3x: half as many
            tries = 1 if rng.random() < 0.2 else 8       # 80%: prefer a dataset on which the constraint binds
            for _ in range(tries):
                ds = pool[int(rng.integers(0, pool_size))]
                if _binds(ds, mi, bi, cache):
                    break
            out.append(ds + (mi, bi, eps, max_iter, lp, eta0, NUS[int(rng.integers(0, len(NUS)))], int(rng.integers(0, 3)), bool(rng.integers(0, 2))))
    # heavy configurations (max_iter 50/20) are spread over the worker chunks
    order = np.random.default_rng(seed + 1).permutation(len(out))
    # a requested nu of exactly 0 (use the whole budget): 24 of the cases without the LP step, re-run with nu = 0.0 and max_iter 20
    zero_nu = [c[:7] + (20,) + c[8:10] + (0.0,) + c[11:] for c in out if not c[8]][:24] + [c[:7] + (20,) + c[8:10] + (0.0,) + c[11:] for c in out if c[8]][:24]
    return EDGE + zero_nu + [out[i] for i in order]


def _lp_opt(errs, gams, b):
    """min err(Q') over distributions on the enumerated class with gamma(Q') <= b; None when infeasible."""
    from scipy.optimize import linprog
    keys = sorted(gams[0], key=str)
    A = [[g[j] for g in gams] for j in keys]
    res = linprog(errs, A_ub=A, b_ub=[b] * len(keys), A_eq=[[1.0] * len(errs)], b_eq=[1.0], bounds=(0, 1), method="highs")
    return float(res.fun) if res.status == 0 else None


def _check(case):
    import logging
    import warnings
    warnings.filterwarnings("ignore")
    logging.disable(logging.CRITICAL)
    from fairlearn.reductions import ExponentiatedGradient
    k, x, y, sf, mi, bi, eps, max_iter, lp, eta0, nu, fmt, strings = case
    moment, kw = E.MOMENTS[mi], E.BOUNDS[bi]
    ratio, b = E.bound_of(kw)
    B = 1.0 / eps
    X, Y, S, groups = E.make_inputs(x, y, sf, fmt, strings)
    gmap = {str(g): g for g in groups}
    fp = fingerprint(case)
    replay = {"k": k, "x": list(x), "y": list(y), "sensitive_features": list(groups), "moment": moment, "moment_kwargs": kw, "eps": eps, "max_iter": max_iter,
              "run_linprog_step": lp, "eta0": eta0, "nu": nu, "container_format": fmt, "learner": "vf.bounded._exactlearner.Exact(k)"}
    desc = f"{moment}({kw}) eps={eps} max_iter={max_iter} lp={lp} eta0={eta0} nu={nu} k={k} x={list(x)} y={list(y)} sf={list(groups)} fmt={fmt}"

    def viol(which, what, nontrivial=True, **extra):
        return (nontrivial, fp, (f"C08:{which}", f"{what} on {desc}", {**replay, **extra}))
    try:
        eg = ExponentiatedGradient(E.Exact(k), E.moment_cls(moment)(**kw), eps=eps, max_iter=max_iter, nu=nu, eta0=eta0, run_linprog_step=lp)
        eg.fit(X, Y, sensitive_features=S)
        raw_w, raw_preds = eg.weights_, {t: np.asarray(p.predict(X)) for t, p in eg.predictors_.items()}
        pmf = np.asarray(eg._pmf_predict(X))
        g, best_iter, n_iter = float(eg.best_gap_), int(eg.best_iter_), int(eg.lambda_vecs_EG_.shape[1])
        nu_used = float(eg.nu)
        raw_lams = [("EG", eg.lambda_vecs_EG_.iloc[:, :best_iter + 1].mean(axis=1))]
        if best_iter in list(eg.lambda_vecs_LP_.columns):
            raw_lams.append(("LP", eg.lambda_vecs_LP_[best_iter]))
    except Exception as ex:
        if "sample_weight contains NaN" in str(ex):     # all signed weights exactly 0 at a multiplier tried by eval_gap -> redW = 0/0
            return viol("fit:raises:zero-signed-weights-nan", f"fit raised {type(ex).__name__}: {str(ex)[:80]} (0/0 in the weight normalisation of _Lagrangian._call_oracle)")
        return viol("fit:raises", f"fit/observation raised {type(ex).__name__}: {str(ex)[:120]}")

    w = {int(t): float(v) for t, v in raw_w.items()}
    preds = {int(t): [float(v) for v in p.ravel()] for t, p in raw_preds.items()}
    lam_cands = [(nm, E.series_to_dict(sr, gmap)) for nm, sr in raw_lams]

    # ---- probability vector over predictors_
    if sorted(w) != sorted(preds):
        return viol("weights:index", f"weights_ index {sorted(w)} is not the index of predictors_ {sorted(preds)}")
    if any(v < -1e-12 for v in w.values()) or abs(sum(w.values()) - 1) > 1e-9 or not np.isfinite(g):
        return viol("weights:not-probability", f"weights_ {w} is not a probability vector (sum {sum(w.values())!r}, best_gap_ {g!r})")
    if not 0 <= best_iter < n_iter <= max_iter:
        return viol("best_iter:range", f"best_iter_={best_iter} outside the {n_iter} iterations run (max_iter={max_iter})")

    # ---- first-principles values of the stored predictors, of Q and of the whole class
    n = len(y)
    errQ = sum(w[t] * E.error_rate(y, preds[t]) for t in w)
    gam_t = {t: E.parity_gamma(moment, ratio, y, groups, preds[t]) for t in w}
    keys = sorted(next(iter(gam_t.values())), key=str)
    gamQ = {j: sum(w[t] * gam_t[t][j] for t in w) for j in keys}
    tables = E.all_tables(k)
    Hpred = [[t[v] for v in x] for t in tables]
    errs = [E.error_rate(y, p) for p in Hpred]
    gams = [E.parity_gamma(moment, ratio, y, groups, p) for p in Hpred]
    opt = _lp_opt(errs, gams, b)
    support = sum(1 for v in w.values() if v > 1e-9)
    binding = max(gams[int(np.argmin(errs))].values()) > b        # an unconstrained optimum violates the constraints
    nontrivial = support > 1 or g > 1e-9 or binding

    # ---- early stop
    if n_iter < max_iter:
        if nu is not None and nu == 0 and not g < 0:
            # a requested threshold of exactly 0 can never be undercut by a (non-negative) gap: fitting must use the whole budget
            return viol("early-stop:gap-not-below-nu", f"stopped after {n_iter} < max_iter iterations although nu=0 was requested (best_gap_={g!r} is not below 0)", best_gap=g)
        if nu is not None and not g < nu + 1e-12:
            return viol("early-stop:gap-not-below-nu", f"stopped after {n_iter} < max_iter iterations but best_gap_={g!r} >= requested nu={nu!r}", best_gap=g)
        if not g < nu_used + 1e-12:
            return viol("early-stop:gap-not-below-nu", f"stopped after {n_iter} < max_iter iterations but best_gap_={g!r} >= nu={nu_used!r}", best_gap=g)
    if opt is None:
        return (False, fp, None)          # constrained problem infeasible: nothing else is claimed

    # ---- g certifies the duality gap of (Q, recorded multiplier)
    if set(lam_cands[0][1]) != set(keys):
        return viol("lambda:index", f"multiplier index {sorted(lam_cands[0][1], key=str)} differs from the constraints {keys}")
    true_gaps = {}
    for nm, lam in lam_cands:
        if ratio == 1.0:              # canonical form: min(l+, l-) removed (shifts L by a constant >= 0, stays in the L1 ball)
            lam = {(s, e, gr): max(0.0, v - lam[("-" if s == "+" else "+", e, gr)]) for (s, e, gr), v in lam.items()}
        if any(v < -1e-9 for v in lam.values()) or sum(lam.values()) > B * (1 + 1e-9) + 1e-9:
            return viol("lambda:outside-ball", f"{nm} multiplier {lam} of iteration {best_iter} is outside {{l>=0, |l|_1<=B={B}}}")
        L = lambda err, gam: err + sum(lam[j] * (gam[j] - b) for j in keys)
        LQ = L(errQ, gamQ)
        L_low = min(L(errs[i], gams[i]) for i in range(len(tables)))
        L_high = errQ + B * max(0.0, max(gamQ[j] - b for j in keys))
        true_gaps[nm] = max(LQ - L_low, L_high - LQ)
    if g < min(true_gaps.values()) - TOL:
        return viol("gap:underestimates", f"best_gap_={g!r} is below the true duality gap {true_gaps} of (Q, multiplier of iteration {best_iter})", best_gap=g, true_gaps=true_gaps)

    # ---- the two consequences, for Q = (weights_, predictors_) and for the classifier exposed by _pmf_predict
    vQ = max(gamQ[j] - b for j in keys)
    if errQ > opt + 2 * g + TOL:
        return viol("error:exceeds-opt+2gap", f"err(Q)={errQ!r} > constrained optimum {opt!r} + 2*best_gap_ ({g!r})", best_gap=g, errQ=errQ, opt=opt)
    if vQ > (1 + 2 * g) / B + TOL:
        return viol("violation:exceeds-(1+2gap)/B", f"max_j gamma_j(Q)-b_j = {vQ!r} > (1+2*{g!r})/B = {(1 + 2 * g) / B!r}", best_gap=g, violation=vQ)
    if pmf.shape != (n, 2) or not np.allclose(pmf.sum(axis=1), 1.0, atol=1e-9):
        return viol("pmf:shape", f"_pmf_predict returned shape {pmf.shape} / rows not summing to 1")
    p1 = [float(v) for v in pmf[:, 1]]
    errP, gamP = E.error_rate(y, p1), E.parity_gamma(moment, ratio, y, groups, p1)
    vP = max(gamP[j] - b for j in keys)
    if errP > opt + 2 * g + TOL or vP > (1 + 2 * g) / B + TOL:
        return viol("pmf:guarantee", f"classifier of _pmf_predict: err={errP!r} (opt {opt!r}), worst violation {vP!r}, best_gap_={g!r}, (1+2g)/B={(1 + 2 * g) / B!r}", best_gap=g)
    return (nontrivial, fp, None)


def run_bounded(rep):
    rep.assume("A1")
    kmax, per_cfg, pool = (3, 2, 40) if rep.tier == "quick" else (5, 16, 400)
    cases = _cases(rep.seed, kmax, per_cfg, pool)
    run_cases(rep, "expgrad_exact_learner_rtc",
              rule="all 1200 combinations of 5 parity moments x 5 bound settings x eps{.02,.1,.3} x max_iter{2,6,20,50} x run_linprog_step x eta0{.5,2}, each on %d (max_iter<=6) / %d "
                   "dataset(s) from a seeded pool of %d (k<=%d feature values, 2-3 groups, n 4..15, feature correlated with group, empty group x label cells, "
                   "single-member groups, duplicated rows), nu in {None,.2,.02,1e-4}, 3 container formats, int/string group labels; exact learner over all 2^k "
                   "functions; oracle: enumeration + LP over the class; non-trivial = support of Q > 1 or best_gap_ > 0 or the unconstrained optimum violates a "
                   "constraint (and the constrained problem is feasible); distinct by full case" % (per_cfg, max(1, per_cfg // 2), pool, kmax),
              bound=f"n <= 15, k <= {kmax}, groups <= 3, max_iter <= 50", cases=cases, check_case=_check, exhaustive=False)
