"""C20 bounded stand-in (labelled bounded, never counted as proved): inconsistent or unsupported inputs are rejected.

Defect injection.  A case = (entry point, defect, defective argument, container of that argument, parameter, seed).  A valid seeded
dataset (n = 6..12, plain lists) is put into containers (the defective argument into the enumerated container, all others into random
ones with random index labels); the CONTROL call (no defect) must return normally - otherwise the case proves nothing and is reported as
`...:valid-input-raises` - then exactly one defect is injected and the same call must raise an exception (any type).  A normal
return is the violation.  Oracle = the property statement itself (no expected value is computed).

  entry points   MetricFrame; 6 named fairness metrics; load_data of DemographicParity, TruePositiveRateParity, FalsePositiveRateParity,
                 EqualizedOdds, ErrorRateParity, ErrorRate, BoundedGroupLoss; ExponentiatedGradient.fit; GridSearch.fit;
                 ThresholdOptimizer.fit; CorrelationRemover.fit/transform; constructors of the moments and of GridSearch
  length         every argument position (y_true, y_pred, sample_weight, X, y, sensitive_features, control_features) x every accepted
                 container (list, ndarray, ndarray (n,1), Series, named Series, 1-column DataFrame; 2-column features: DataFrame, object
                 ndarray, list of lists, dict of lists/arrays incl. a dict with ONE short column) x length off by +1, -1, +3, -3
  label          one value of y replaced by 2, -1, 0.5, 1.5, 1e-9, 7, nan or 3.0 at a random position x every container of y, for the six
                 classification moments, ExponentiatedGradient, GridSearch, ThresholdOptimizer
  missing-sf     sensitive_features=None / omitted (moments, EG, GridSearch, ThresholdOptimizer); CorrelationRemover with a sensitive id
                 that is not a column
  degenerate     ThresholdOptimizer: all labels of one group set to 0 (or 1), or a single-member group, x every constraint x container of y
  unsupported    the full table 8 constraints (7 documented + an unknown name) x 7 objectives (5 documented + f1_score + unknown):
                 supported pairs are the control (must fit), every other pair must raise; estimator=None; control_features= for
                 ThresholdOptimizer; ExponentiatedGradient with an objective of the other moment type
  params         ratio_bound in {0, -0.1, -1, 1.0000001, 2, 1e9, nan}, both bounds given (5 parity moments); ErrorRate costs with wrong /
                 missing / extra keys, negative, zero sum, nan, non-dict; GridSearch constraint_weight in {-0.1, -1e-9, 1.0000001, 2, nan},
                 unknown selection_rule, constraints not a Moment; the documented valid values are the control
  names          MetricFrame: duplicate feature names (two equal DataFrame columns, sensitive vs control Series / dict / DataFrame with the
                 same name, a Series named like a generated default name) and non-string names (int / float / tuple / None-free int
                 DataFrame columns, Series names, dict keys)
  not-fitted     predict / _pmf_predict / predict_proba / transform before fit must raise sklearn NotFittedError: ExponentiatedGradient,
                 GridSearch, ThresholdOptimizer, InterpolatedThresholder, CorrelationRemover, AdversarialFairnessClassifier/Regressor
Only ranges the code documents are demanded (a negative difference_bound is accepted and not named by the statement).
Non-trivial = the control call succeeded and a defect was injected; distinct by case.  NOT checked: sample_params structure errors,
bootstrap arguments, _DerivedMetric arguments, predict-time inconsistencies after a valid fit, adversarial fit inputs.

Sensitivity self-test (scratch copy of /repo, one edit at a time, `VERIF_REPO=<copy> ./check C20 --tier quick --only X`, all reverted; all caught):
  edit                                                                                   caught by (C20:...)
  1  _input_validation: X/y row-count comparison removed                                  moment:<7 moments>:length:y (EG/GridSearch/TO still fail later in the learner)
  2  the same comparison skipped only when X is a DataFrame                               moment:*:length:y (cases with X a DataFrame)
  3  binary-label test weakened to 0 <= min, max <= 1 (0.5 and 1e-9 pass)                 moment:<6>:label, EG:label, GridSearch:label, TO:label
  4  check_consistent_length(X, sensitive_features) removed                               moment:*:length:sf, EG:length:sf, GridSearch:length:sf
  5  check_consistent_length(X, control_features) removed                                 moment:*:length:cf, EG:length:cf, GridSearch:length:cf
  6  _tradeoff_curve_utilities: degenerate-label guard `or` -> `and`                       TO:degenerate
  7  MetricFrame duplicate-name check disabled                                            MetricFrame:names:dup-* (all 6 kinds)
  8  GroupFeature accepts any Series name                                                 MetricFrame:names:nonstring-series-name, :nonstring-control-series-name
  9  MetricFrame sample parameter resized to the frame length (np.resize)                 MetricFrame:length:w, metric:<6 metrics>:length:w
 10  MetricFrame dict features padded / cut to the frame length                           MetricFrame:length:sf, metric:*:length:sf (dict containers incl. one short column)
 11  UtilityParity: ratio_bound = 0 accepted (0 <= ...)                                   parity-bounds:accepted
 12  UtilityParity: both bounds given -> silently used                                    parity-bounds:accepted
 13  ErrorRate: zero-sum costs accepted                                                   error-rate-costs:accepted
 14  ErrorRate: extra keys accepted (keys() >= {...})                                     error-rate-costs:accepted
 15  GridSearch: negative constraint_weight accepted                                      grid-search-params:accepted
 16  ThresholdOptimizer: control_features silently dropped                                to-control-features:accepted
 17  ThresholdOptimizer: selection_rate added to the equalized-odds objectives            to-pair:accepted
 18  GridSearch.predict without check_is_fitted (AttributeError instead)                  GridSearch.predict:not-fitted
"""
import numpy as np
import pandas as pd

from ..report import fingerprint
from . import _containers as K
from . import C12 as D            # dataset / container builders are shared with C12
from .harness import run_cases

METRICS = ["demographic_parity_difference", "demographic_parity_ratio", "equalized_odds_difference", "equalized_odds_ratio",
           "equal_opportunity_difference", "true_positive_rate_difference"]
MOMENTS = D.MOMENTS
CLASSIF = MOMENTS[:6]
BAD_LABELS = [2, -1, 0.5, 1.5, 1e-9, 7, float("nan"), 3.0]
TO_CONS = ["demographic_parity", "selection_rate_parity", "false_positive_rate_parity", "false_negative_rate_parity", "true_positive_rate_parity",
           "true_negative_rate_parity", "equalized_odds", "statistical_parity"]
TO_OBJ = ["accuracy_score", "balanced_accuracy_score", "selection_rate", "true_positive_rate", "true_negative_rate", "f1_score", "unknown_objective"]


def _supported(cons, obj):
    """the documented table (docstring of ThresholdOptimizer): simple constraints x 5 objectives; equalized_odds x 2"""
    if cons == "equalized_odds":
        return obj in TO_OBJ[:2]
    return cons in TO_CONS[:6] and obj in TO_OBJ[:5]


# ------------------------------------------------------------------ calls
def _call(entry, o, cfg):
    import fairlearn.metrics as fm
    import fairlearn.reductions as red
    from fairlearn.postprocessing import ThresholdOptimizer
    kw = {}
    if "sf" in o:
        kw["sensitive_features"] = o["sf"]
    if o.get("cf") is not None:
        kw["control_features"] = o["cf"]
    if entry == "MetricFrame":
        from sklearn.metrics import accuracy_score
        return fm.MetricFrame(metrics={"sr": fm.selection_rate, "acc": accuracy_score}, y_true=o["y"], y_pred=o["yp"],
                              sample_params={"sr": {"sample_weight": o["w"]}}, **kw)
    if entry.startswith("metric:"):
        return getattr(fm, entry[7:])(o["y"], o["yp"], sample_weight=o["w"], **kw)
    if entry.startswith("moment:"):
        m = D._moment(red, entry[7:], cfg.get("ch", 0))
        m.load_data(o["X"], o["y"], **kw)
        return m
    if entry == "EG":
        return red.ExponentiatedGradient(K.Stump(), D._moment(red, cfg["moment"], cfg.get("ch", 0)), max_iter=3).fit(o["X"], o["y"], **kw)
    if entry == "GridSearch":
        return red.GridSearch(K.Stump(), D._moment(red, cfg["moment"], cfg.get("ch", 0)), grid_size=3).fit(o["X"], o["y"], **kw)
    if entry == "TO":
        t = ThresholdOptimizer(estimator=cfg.get("estimator", K.ColScore()), constraints=cfg.get("cons", "demographic_parity"),
                               objective=cfg.get("obj", "accuracy_score"), predict_method="predict", grid_size=20)
        return t.fit(o["X"], o["y"], **kw)
    raise ValueError(entry)


def _entry_args(entry, d):
    mf = entry == "MetricFrame" or entry.startswith("metric:")
    extra = ("yp", "w") if mf else ("X",)
    args = D._args(d, mf, extra)
    if entry in ("TO", "moment:BoundedGroupLoss") or entry.startswith("metric:"):
        args = [a for a in args if a != "cf1"]
    return args


def _resize(v, delta, rng):
    n = len(v)
    return v[: n + delta] if delta < 0 else v + [v[int(rng.integers(n))] for _ in range(delta)]


def _viol(fp, key, what, case, desc, d):
    data = {k: d[k] for k in ("y", "yp", "sf", "cf", "w", "X") if k in d}
    return (True, fp, ("C20:" + key, f"{what}; containers {desc}; y={d['y']} sf={d['sf']} (case {case})", {"case": list(case), "containers": desc, "data": data}))


def _check_data(case):
    """case = ("data", entry, defect, arg, kind, param, seed)"""
    _, entry, defect, arg, kind, param, seed = case
    rng = np.random.default_rng(seed)
    fp = fingerprint(case)
    k_sf = 2 if (arg or "").startswith("sf2") else (1 if (arg or "").startswith("sf1") else None)
    d = D._dataset(rng, both_labels=(entry == "TO"), k_sf=k_sf, cf=True if arg == "cf1" else (False if entry == "TO" else None))
    cfg = {"ch": int(rng.integers(6)), "moment": K.pick(rng, MOMENTS[:5])}
    if entry == "TO":
        cfg["cons"] = K.pick(rng, TO_CONS[:7])
        cfg["obj"] = K.pick(rng, TO_OBJ[:2])
    if defect == "degenerate":
        cfg["cons"] = param[0]
    args = _entry_args(entry, d)
    kinds = D._kinds(rng, args, single=False)
    one_col = False
    if arg is not None:
        if kind == "dict_one_short":
            kind, one_col = "dict_list", True
        kinds[arg] = kind
    s = int(rng.integers(1 << 30))
    o, desc, _ = D._build(d, kinds, np.random.default_rng(s), True)
    try:
        _call(entry, o, cfg)
    except Exception as ex:
        return _viol(fp, f"{entry}:valid-input-raises", f"{entry} raised {ex!r} on valid data (control call)"[:300], case, desc, d)
    # ---- inject exactly one defect
    d2 = dict(d, sf=[list(c) for c in d["sf"]], cf=None if d["cf"] is None else [list(c) for c in d["cf"]])
    key = {"sf1": "sf", "sf2mf": "sf", "sf2est": "sf", "cf1": "cf"}.get(arg, arg)
    if defect == "length":
        if key in ("sf", "cf"):
            d2[key] = [_resize(c, param, rng) if not (one_col and j) else c for j, c in enumerate(d2[key])]
        else:
            d2[key] = _resize(list(d[key]), param, rng)
        what = f"{key} has length {d['n'] + param} instead of {d['n']}" + (" (one dict column only)" if one_col else "")
    elif defect == "label":
        pos = int(rng.integers(d["n"]))
        d2["y"] = list(d["y"])
        d2["y"][pos] = param
        what = f"label {param!r} at position {pos}"
    elif defect == "degenerate":
        grp = list(zip(*d["sf"]))
        g = grp[int(rng.integers(d["n"]))]
        d2["y"] = list(d["y"])
        if param[1] == "single-member":
            keep = [i for i in range(d["n"]) if grp[i] != g]
            keep.insert(int(rng.integers(len(keep) + 1)), grp.index(g))
            for k2 in ("y", "yp", "w", "X", "h"):
                d2[k2] = [d[k2][i] for i in keep]
            d2["sf"] = [[c[i] for i in keep] for c in d["sf"]]
            d2["n"] = len(keep)
            what = f"group {g!r} has a single member"
        else:
            d2["y"] = [param[1] if grp[i] == g else d["y"][i] for i in range(d["n"])]
            what = f"group {g!r} has only label {param[1]}"
    elif defect == "missing-sf":
        what = "sensitive_features " + param
    o2, desc2, _ = D._build(d2, kinds, np.random.default_rng(s), True)
    if defect == "missing-sf":
        if param == "None":
            o2["sf"] = None
        else:
            del o2["sf"]
    try:
        _call(entry, o2, cfg)
    except Exception:
        return (True, fp, None)
    return _viol(fp, f"{entry}:{defect}" + (f":{key}" if defect == "length" else ""), f"{entry} returned normally although {what}", case, desc2, d2)


# ------------------------------------------------------------------ configuration defects
def _check_config(case):
    """case = ("config", what, param, seed)"""
    import fairlearn.reductions as red
    from fairlearn.postprocessing import ThresholdOptimizer
    from fairlearn.preprocessing import CorrelationRemover
    _, what, param, seed = case
    rng = np.random.default_rng(seed)
    fp = fingerprint(case)
    d = D._dataset(rng, both_labels=True, cf=False, k_sf=1)
    o, desc, _ = D._build(d, D._kinds(rng, ["X", "y", "sf1"], single=False), rng, False)
    must_raise, label = True, f"{what} {param!r}"

    def run():
        nonlocal must_raise
        if what == "to-pair":
            must_raise = not _supported(*param)
            ThresholdOptimizer(estimator=K.ColScore(), constraints=param[0], objective=param[1], predict_method="predict", grid_size=20).fit(
                o["X"], o["y"], sensitive_features=o["sf"])
        elif what == "to-control-features":
            must_raise = param is not None
            cf, _ = K.table([[("u", "v")[i % 2] for i in range(d["n"])]], param or "list", rng, names=["cA"])
            for prefit in (False, True):          # the rejection must not depend on whether the base estimator is fitted by ThresholdOptimizer or handed in fitted
                est = K.ColScore().fit(None) if prefit else K.ColScore()
                if prefit and not must_raise:
                    continue
                try:
                    ThresholdOptimizer(estimator=est, prefit=prefit, predict_method="predict", grid_size=20).fit(o["X"], o["y"], sensitive_features=o["sf"],
                                                                                                                control_features=cf if param else None)
                except Exception:
                    if prefit:
                        raise
                    continue          # rejected with prefit=False: now the prefit=True configuration must be rejected as well
                if must_raise:
                    return          # accepted although control features were given
        elif what == "to-estimator-none":
            ThresholdOptimizer(estimator=None, predict_method="predict").fit(o["X"], o["y"], sensitive_features=o["sf"])
        elif what == "eg-objective-type":
            must_raise = param == "loss"
            obj = red.MeanLoss(red.ZeroOneLoss()) if param == "loss" else red.ErrorRate()
            red.ExponentiatedGradient(K.Stump(), red.DemographicParity(), objective=obj, max_iter=2).fit(o["X"], o["y"], sensitive_features=o["sf"])
        elif what == "parity-bounds":
            mname, kw, ok = param
            must_raise = not ok
            getattr(red, mname)(**kw)
        elif what == "error-rate-costs":
            kw, ok = param
            must_raise = not ok
            red.ErrorRate(**kw)
        elif what == "grid-search-params":
            kw, ok = param
            must_raise = not ok
            red.GridSearch(K.Stump(), **dict({"constraints": red.DemographicParity()}, **kw))
        elif what == "correlation-remover-id":
            ids, frame, ok = param
            must_raise = not ok
            X = pd.DataFrame(d["X"], columns=["x0", "x1"], index=K.odd_index(d["n"], rng)[0]) if frame else np.array(d["X"])
            CorrelationRemover(sensitive_feature_ids=ids).fit(X)
        else:
            raise ValueError(what)
    try:
        run()
    except (ValueError, TypeError, RuntimeError, KeyError, IndexError, AssertionError, AttributeError) as ex:
        if must_raise:
            return (True, fp, None)
        return _viol(fp, f"{what}:valid-input-raises", f"{label} is documented as valid but raised {ex!r}"[:300], case, desc, d)
    if must_raise:
        return _viol(fp, f"{what}:accepted", f"{label} was accepted (normal return) although the documentation excludes it", case, desc, d)
    return (False, fp, None)


def _names_case(which, rng, n, sfv, cfv):
    """(sensitive_features, control_features, description) with a naming defect"""
    idx = lambda: K.odd_index(n, rng)[0]
    bad = K.pick(rng, [0, 1, 7, 1.5, ("a", "b"), True])
    if which == "dup-frame-columns":
        f = pd.DataFrame({"g": sfv, "h": cfv}, index=idx())
        f.columns = ["g", "g"]
        return f, None, "sensitive DataFrame with two columns named 'g'"
    if which == "dup-series-series":
        return pd.Series(sfv, name="g", index=idx()), pd.Series(cfv, name="g", index=idx()), "sensitive and control Series both named 'g'"
    if which == "dup-dict-dict":
        return {"g": np.array(sfv)}, {"g": list(cfv)}, "sensitive and control dicts both with key 'g'"
    if which == "dup-frame-series":
        return pd.DataFrame({"g": sfv, "h": cfv}), pd.Series(cfv, name="h", index=idx()), "control Series named like a sensitive DataFrame column"
    if which == "dup-default-name":
        return pd.Series(sfv, name="control_feature_0"), list(cfv), "sensitive Series named 'control_feature_0' next to an unnamed control list"
    if which == "dup-default-name-2":
        return {"sensitive_feature_1": sfv, "g": cfv}, pd.Series(cfv, name="g"), "dict key equal to the control Series name"
    if which == "nonstring-frame-columns":
        return pd.DataFrame(np.array([sfv, cfv], dtype=object).T, index=idx()), None, "sensitive DataFrame with integer column names 0, 1"
    if which == "nonstring-frame-column":
        return pd.DataFrame({bad: sfv}, index=idx()), None, f"sensitive single-column DataFrame whose column is named {bad!r}"
    if which == "nonstring-series-name":
        return pd.Series(sfv, name=bad, index=idx()), None, f"sensitive Series named {bad!r}"
    if which == "nonstring-dict-key":
        return {"g": sfv, bad: cfv}, None, f"sensitive dict with key {bad!r}"
    if which == "nonstring-control-series-name":
        return list(sfv), pd.Series(cfv, name=bad, index=idx()), f"control Series named {bad!r}"
    if which == "nonstring-control-frame-column":
        return np.array(sfv), pd.DataFrame({bad: cfv}), f"control DataFrame whose column is named {bad!r}"
    raise ValueError(which)


NAME_DEFECTS = ["dup-frame-columns", "dup-series-series", "dup-dict-dict", "dup-frame-series", "dup-default-name", "dup-default-name-2",
                "nonstring-frame-columns", "nonstring-frame-column", "nonstring-series-name", "nonstring-dict-key",
                "nonstring-control-series-name", "nonstring-control-frame-column"]


def _check_names(case):
    import fairlearn.metrics as fm
    _, which, seed = case
    rng = np.random.default_rng(seed)
    fp = fingerprint(case)
    d = D._dataset(rng, k_sf=1, cf=True)
    sfv, cfv = d["sf"][0], d["cf"][0]
    single = bool(rng.random() < 0.5)
    metrics = fm.selection_rate if single else {"sr": fm.selection_rate, "cnt": fm.count}
    try:   # control: the same containers with proper distinct string names
        fm.MetricFrame(metrics=metrics, y_true=d["y"], y_pred=d["yp"], sensitive_features=pd.DataFrame({"g": sfv, "h": cfv}),
                       control_features=pd.Series(cfv, name="k"))
    except Exception as ex:
        return _viol(fp, "MetricFrame:valid-input-raises", f"MetricFrame raised {ex!r} with distinct string names"[:300], case, {}, d)
    sf, cf, text = _names_case(which, rng, d["n"], sfv, cfv)
    try:
        fm.MetricFrame(metrics=metrics, y_true=d["y"], y_pred=d["yp"], sensitive_features=sf, control_features=cf)
    except Exception:
        return (True, fp, None)
    return _viol(fp, f"MetricFrame:names:{which}", f"MetricFrame accepted {text}", case, {"sf": text}, d)


def _check_notfitted(case):
    import fairlearn.reductions as red
    from fairlearn.postprocessing import ThresholdOptimizer
    from fairlearn.postprocessing._interpolated_thresholder import InterpolatedThresholder
    from fairlearn.preprocessing import CorrelationRemover
    from sklearn.exceptions import NotFittedError
    _, which, meth, seed = case
    rng = np.random.default_rng(seed)
    fp = fingerprint(case)
    n = int(rng.integers(1, 8))
    X, xd = K.matrix(rng.random((n, 2)).tolist(), K.pick(rng, ["ndarray", "frame"]), rng)
    sf, sd = K.vec([("a", "b")[i % 2] for i in range(n)], K.pick(rng, K.VEC_KINDS), rng, "s")
    if which.startswith("Adversarial"):
        import fairlearn.adversarial as adv
        e = getattr(adv, which)(backend="torch")
    else:
        e = {"ExponentiatedGradient": lambda: red.ExponentiatedGradient(K.Stump(), red.DemographicParity()),
             "GridSearch": lambda: red.GridSearch(K.Stump(), red.EqualizedOdds()),
             "ThresholdOptimizer": lambda: ThresholdOptimizer(estimator=K.ColScore().fit(None), prefit=bool(seed % 2), predict_method="predict"),
             "InterpolatedThresholder": lambda: InterpolatedThresholder(K.ColScore().fit(None), {}, prefit=True, predict_method="predict"),
             "CorrelationRemover": lambda: CorrelationRemover(sensitive_feature_ids=[0] if isinstance(X, np.ndarray) else ["x0"])}[which]()
    needs_sf = which in ("ThresholdOptimizer", "InterpolatedThresholder")
    try:
        getattr(e, meth)(X, sensitive_features=sf) if needs_sf else getattr(e, meth)(X)
    except NotFittedError:
        return (True, fp, None)
    except Exception as ex:
        got = f"raised {type(ex).__name__}: {ex}"[:200]
    else:
        got = "returned normally"
    return (True, fp, (f"C20:{which}.{meth}:not-fitted", f"{which}.{meth} before fit {got} instead of NotFittedError (X {xd}, n={n})",
                       {"case": list(case), "X": xd, "sf": sd}))


CHECKS = {"data": _check_data, "config": _check_config, "names": _check_names, "notfitted": _check_notfitted}


def _check(case):
    import logging
    import warnings
    logging.disable(logging.WARNING)
    warnings.filterwarnings("ignore")
    return CHECKS[case[0]](case)


def replay(data):
    case = data.get("replay", {}).get("case")
    if not case or case[0] not in CHECKS:
        return None
    case = tuple(tuple(x) if isinstance(x, list) else x for x in case)
    r = _check(case)
    print("replayed case", case, "->", "no violation" if r[2] is None else f"VIOLATION {r[2][0]}: {r[2][1]}")
    return 1 if r[2] is not None else 0


# ------------------------------------------------------------------ enumeration
def _arg_kinds(entry):
    mf = entry == "MetricFrame" or entry.startswith("metric:")
    v0 = K.VEC_KINDS + ("frame0",)       # 1-column DataFrame with the default integer column label (a non-string NAME for MetricFrame features)
    out = [("y", k) for k in v0]
    if mf:
        out += [(a, k) for a in ("yp", "w") for k in v0]
        out += [("sf2mf", k) for k in K.TABLE_KINDS_MF + ("dict_one_short",)]
    else:
        out += [("X", "ndarray"), ("X", "frame")] + [("sf2est", k) for k in K.TABLE_KINDS_EST]
    out += [("sf1", k) for k in (K.VEC_KINDS if mf else v0)]
    if entry not in ("TO", "moment:BoundedGroupLoss") and not entry.startswith("metric:"):
        out += [("cf1", k) for k in (K.VEC_KINDS if mf else v0)]
    return out


def _data_cases(seed, reps):
    out = []
    entries = ["MetricFrame"] + ["metric:" + m for m in METRICS] + ["moment:" + m for m in MOMENTS] + ["EG", "GridSearch", "TO"]
    for entry in entries:
        deltas = (1, -1, 3, -3)
        for r in range(reps):
            for (arg, kind) in _arg_kinds(entry):
                ds = deltas if entry in ("MetricFrame", "TO", "moment:DemographicParity", "moment:EqualizedOdds") else (deltas[(len(out) + r) % 2], deltas[2 + (len(out) + r) % 2])
                for delta in ds:
                    out.append(("data", entry, "length", arg, kind, delta, 0))
            if entry in ["moment:" + m for m in CLASSIF] + ["EG", "GridSearch", "TO"]:
                for kind in K.VEC_KINDS + ("frame0",):
                    for b in (BAD_LABELS if entry in ("TO", "moment:DemographicParity", "EG") else BAD_LABELS[(len(out) + r) % 4::4]):
                        out.append(("data", entry, "label", "y", kind, b, 0))
            for p in ("None", "omitted"):
                out.append(("data", entry, "missing-sf", None, None, p, 0))
        if entry == "TO":
            for r in range(reps):
                for cons in TO_CONS[:7]:
                    for kind in K.VEC_KINDS:
                        for mode in (0, 1, "single-member"):
                            out.append(("data", "TO", "degenerate", "y", kind, (cons, mode), 0))
    return [c[:-1] + (seed * 1000003 + i,) for i, c in enumerate(out)]


def _config_cases(seed, reps):
    out = [("to-pair", (c, o)) for c in TO_CONS for o in TO_OBJ] * 2
    out += [("to-control-features", k) for k in (None,) + K.VEC_KINDS] + [("to-estimator-none", None)] * 2
    out += [("eg-objective-type", p) for p in ("loss", "classification")]
    for m in MOMENTS[:5]:
        out += [("parity-bounds", (m, {"ratio_bound": v}, False)) for v in (0, 0.0, -0.1, -1, 1.0000001, 2, 1e9, float("nan"))]
        out += [("parity-bounds", (m, {"ratio_bound": v, "ratio_bound_slack": 0.1}, True)) for v in (1, 1.0, 0.5, 1e-9)]
        out += [("parity-bounds", (m, {"difference_bound": a, "ratio_bound": b}, False)) for a, b in ((0.01, 0.9), (0.0, 1.0), (0.5, 0.5), (1, 1))]
        out += [("parity-bounds", (m, {"difference_bound": 0.0}, True)), ("parity-bounds", (m, {}, True))]
    bad_costs = [{"fp": 1.0}, {"fn": 1.0}, {}, {"fp": 1.0, "fn": 1.0, "tp": 0.0}, {"FP": 1.0, "FN": 1.0}, {"fp": -0.1, "fn": 1.0}, {"fp": 1.0, "fn": -1e-9},
                 {"fp": 0.0, "fn": 0.0}, {"fp": 0, "fn": 0}, {"fp": float("nan"), "fn": 1.0}, [1.0, 1.0], (("fp", 1.0), ("fn", 1.0)), "fp", 1.0]
    out += [("error-rate-costs", ({"costs": c}, False)) for c in bad_costs]
    out += [("error-rate-costs", ({"costs": c}, True)) for c in ({"fp": 1.0, "fn": 1.0}, {"fp": 0.0, "fn": 2.0}, {"fn": 0.25, "fp": 0}, None)]
    out += [("grid-search-params", ({"constraint_weight": v}, False)) for v in (-0.1, -1e-9, 1.0000001, 2, float("nan"), -1)]
    out += [("grid-search-params", ({"constraint_weight": v}, True)) for v in (0, 0.0, 1, 1.0, 0.5)]
    out += [("grid-search-params", ({"selection_rule": v}, False)) for v in ("unknown_rule", "", None, "TRADEOFF_OPTIMIZATION")]
    out += [("grid-search-params", ({"selection_rule": "tradeoff_optimization"}, True))]
    out += [("grid-search-params", ({"constraints": v}, False)) for v in ("demographic_parity", None, 0.5)]
    out += [("correlation-remover-id", (ids, fr, ok)) for ids, fr, ok in (([5], False, False), ([0, 2], False, False), (["x0"], False, False), (["zz"], True, False),
                                                                         ([0], True, False), (["x0", "x9"], True, False), ([0], False, True), (["x1"], True, True), ([], False, True))]
    return [("config", w, p, seed * 1000003 + 500000 + i + 7919 * r) for r in range(reps) for i, (w, p) in enumerate(out)]


def run_bounded(rep):
    rep.assume("A2", "A7")
    reps = 3 if rep.tier == "quick" else 15
    run_cases(rep, "data_defects",
              rule="entry point x {length off by +-1/+-3 per argument position and container; label outside {0,1} at a random position per container of y; "
                   "sensitive_features None/omitted; ThresholdOptimizer group lacking a label x constraint x container}; control call must succeed, defective "
                   "call must raise; seeded datasets n=6..12; distinct by case", bound="n <= 15, one defect per call",
              cases=_data_cases(rep.seed, reps), check_case=_check, exhaustive=False)
    run_cases(rep, "config_defects",
              rule="full ThresholdOptimizer constraints x objective table (8 x 7), control features / estimator None, EG objective type, ratio_bound / both bounds "
                   "for 5 parity moments, ErrorRate costs, GridSearch constraint_weight / selection_rule / constraints, CorrelationRemover ids; valid values "
                   "are the control (must be accepted), every other value must raise", bound="listed parameter values", cases=_config_cases(rep.seed, reps),
              check_case=_check, exhaustive=True)
    cases = [("names", w, rep.seed * 1000003 + 700000 + i * 13 + r) for r in range(3 * reps) for i, w in enumerate(NAME_DEFECTS)]
    run_cases(rep, "metricframe_names", rule="12 kinds of duplicate / non-string feature names for MetricFrame (sensitive vs control, Series / DataFrame / dict), "
                                             "control with distinct string names must be accepted", bound="2 features", cases=cases, check_case=_check)
    est = {"ExponentiatedGradient": ("predict", "_pmf_predict"), "GridSearch": ("predict", "predict_proba"), "ThresholdOptimizer": ("predict", "_pmf_predict"),
           "InterpolatedThresholder": ("predict", "_pmf_predict"), "CorrelationRemover": ("transform",), "AdversarialFairnessClassifier": ("predict",),
           "AdversarialFairnessRegressor": ("predict",)}
    cases = [("notfitted", w, m, rep.seed * 1000003 + 800000 + i) for i in range(4 * reps) for w, ms in est.items() for m in ms]
    run_cases(rep, "predict_before_fit", rule="every predict-like method of every estimator on a never-fitted instance must raise sklearn NotFittedError; X ndarray / "
                                              "DataFrame, n = 1..7", bound="7 estimators, 12 methods", cases=cases, check_case=_check, exhaustive=True)
