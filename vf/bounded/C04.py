"""C04 bounded stand-in (labelled bounded, never counted as proved).

X: the real ThresholdOptimizer.fit behind a pass-through scorer (column 0 of X is the score; predict_proba / decision_function / predict /
   auto, prefit or cloned+fitted), then the expected value of the constrained metric per sensitive-feature group on the training rows.

Scope (vf/bounded/_threshopt.py): every multiset of rows (group, label, score level) with both labels in each group, one representative per
relabelling of the groups -
   quick:    2 groups x 2 rows x 3 levels under ALL 384 configurations (7 constraint names x admissible objectives x flip x grid_size in
             {1,2,3,7,10,1000}); 2 groups n<=5 over 4 levels, 2 groups n=6 and 3 groups n=6 over 3 levels under K seeded configurations each;
   thorough: additionally n<=6 over 4 levels, n<=8 over 3 levels (2 and 3 groups), 4 groups x 2 rows x 3 levels;
   plus seeded larger data sets (2..5 groups, up to 14 rows, tie-free / 0-1 / 5-level / real-valued scores).
Score levels are mapped to three different value sets (incl. negative reals), group labels to ints / strings whose sort order differs
from first appearance, rows are permuted, containers numpy / list / pandas, optional ignored second X column.

Oracle (first principles, exact Fractions over the float probabilities): p_i = P(prediction = 1 | row i) is read from _pmf_predict on the
training data; selection rate = mean p_i, FPR = sum_{y=0} p_i / #neg, TPR = sum_{y=1} p_i / #pos, FNR = 1-TPR, TNR = 1-FPR per group; the
values must agree across groups within 1e-9 (FPR and TPR both for equalized_odds); a p_i that is NaN or outside [0,1] is reported as
`pmf-not-a-probability` (no expected value exists). In addition p_i must equal the probability obtained by
evaluating the stored interpolation_dict by hand (p_ignore*c + (1-p_ignore)*(p0*[s op0 t0] + p1*[s op1 t1])) - the two observation
points named by the property - within 1e-12.
Non-trivial case = the common value is strictly inside (0,1) or some training row has 0 < p_i < 1.

NOT checked: adjacent floats whose midpoint rounds onto a score (A1); sample weights (not supported by ThresholdOptimizer); non-default pandas
indices (C12); degenerate groups (C20); that the common value lies on the grid (C05).

Sensitivity self-test (scratch worktree /tmp/agent_C04/r of /repo HEAD, one edit at a time, quick-tier case list and this check_case;
all edits screened with an early-stopping driver over the same cases, `per_group_ibest` and `midpoint_is_next_score` additionally through
`VERIF_REPO=... ./check C04 --tier quick --only X` -> VIOLATION, exit 1):
  edit (file: _tradeoff_curve_utilities / _threshold_optimizer / _interpolated_thresholder / _threshold_operation)   -> first key
  hull test `<=` -> `<` (duplicate hull points, 0/0 weights; needs ties)                       -> equalized_odds:pmf-not-a-probability (NaN)
  searchsorted(...) - 1  ->  no `- 1`                                                           -> <constraint>:raises (IndexError)
  drop the "grid point equals a vertex" decrement line                                          -> <constraint>:raises (IndexError at x=1)
  p0 from the distance to the previous instead of the next vertex                               -> <constraint>:disparity:<metric>
  per-group argmax instead of the shared i_best                                                 -> <constraint>:disparity:<metric>
  p0/p1 swapped when the interpolation_dict is built                                            -> <constraint>:disparity:<metric>
  p_ignore denominator `y - x` -> `1 - x`                                                       -> equalized_odds:disparity:true_positive_rate
  np.amin -> np.amax over the ROC hulls                                                         -> equalized_odds:disparity:true_positive_rate
  `if y == x` (diagonal branch) -> `if y >= y_best`                                             -> equalized_odds:disparity:true_positive_rate
  prediction_constant = x_best -> y_best                                                        -> equalized_odds:disparity:false_positive_rate
  threshold midpoint -> next lower score (only wrong for flipped rules; needs flip=True)        -> <constraint>:disparity:<metric>
  sentinel -inf -> -1.0 (needs a score <= -1: the negative score maps)                          -> <constraint>:disparity:<metric>
  inner `while scores[i] == threshold` -> single step (needs tied scores)                       -> <constraint>:disparity:<metric>
  flipped confusion counts: true_negatives/false_negatives exchanged                            -> <constraint>:raises (ZeroDivisionError)
  _pmf_predict writes the group's values by position instead of by mask                         -> <constraint>:pmf-not-a-probability
  ThresholdOperation `<` -> `<= t + 1` (needs flip=True)                                        -> <constraint>:pmf-vs-interpolation_dict
  searchsorted side="right" -> "left"                                                           -> MISSED here by design: parity is kept (the
      rule moves to the lower end of a vertical first hull edge, same x) - it is an optimality defect and is caught by C05 (suboptimal).
"""
from fractions import Fraction

import numpy as np

from ..report import fingerprint
from . import _threshopt as T
from .harness import run_cases

TOL = 1e-9


def _cases(tier, seed):
    rng = np.random.default_rng(seed)
    out = []

    def add(datasets, levels, k):
        for rows in datasets:
            picks = range(len(T.CONFIGS)) if k is None else rng.choice(len(T.CONFIGS), size=k, replace=False)
            for ci in picks:
                enc = T.random_enc(rng)
                rr = rows if levels == "raw" else T.with_scores(rows, levels, int(rng.integers(0, 3)))
                out.append((rr, int(ci), enc))
    add(T.datasets_exhaustive([(2, 2)], 3), 3, None)
    if tier == "quick":
        add(T.datasets_exhaustive([(2, 3)], 4), 4, 2)
        add(T.datasets_exhaustive([(2, 4), (3, 3), (2, 2, 2)], 3), 3, 2)
        for rows, _ in T.datasets_seeded(rng, 1000):
            add([rows], "raw", 2)
    else:
        add(T.datasets_exhaustive([(2, 3), (2, 4), (3, 3), (2, 2, 2)], 4), 4, 6)
        add(T.datasets_exhaustive([(2, 5), (3, 4), (2, 6), (3, 5), (4, 4), (2, 2, 3), (2, 2, 4), (2, 3, 3)], 3), 3, 5)
        add(T.datasets_exhaustive([(2, 2, 2, 2)], 3), 3, 4)
        for rows, _ in T.datasets_seeded(rng, 20000):
            add([rows], "raw", 2)
    out += T.integer_score_cases(rng, 150 if tier == "quick" else 1500, 2, len(T.CONFIGS))
    out += T.ulp_score_cases(rng, 100 if tier == "quick" else 1000, 2, len(T.CONFIGS))
    return out


def by_hand(idict, g, s):
    """P(1 | group g, score s) from the stored interpolation_dict, evaluated with plain comparisons"""
    if g not in idict:
        return None
    d = idict[g]

    def op(o):
        t = float(o.threshold)
        return 1.0 if (s > t if o.operator == ">" else s < t) else 0.0
    p = float(d["p0"]) * op(d["operation0"]) + float(d["p1"]) * op(d["operation1"])
    if "p_ignore" in d:
        p = float(d["p_ignore"]) * float(d["prediction_constant"]) + (1 - float(d["p_ignore"])) * p
    return p


def _check(case):
    rows, ci, enc = case
    cfg = T.CONFIGS[ci]
    constraint = cfg[0]
    X, y, sf, gl, yl, sl = T.materialise(rows, enc)
    fp = fingerprint(case)
    replay = {"groups": gl, "labels": yl, "scores": sl, "constraints": constraint, "objective": cfg[1], "flip": cfg[2], "grid_size": cfg[3],
              "predict_method": enc[0], "container": enc[2], "prefit": enc[3] % 2 == 0, "extra_X_column": enc[4], "score_dtype": enc[5] if len(enc) > 5 else "float64"}
    desc = f"constraints={constraint} objective={cfg[1]} flip={cfg[2]} grid_size={cfg[3]} groups={gl} labels={yl} scores={sl}"
    try:
        to = T.make_optimizer(cfg, enc).fit(X, y, sensitive_features=sf)
        ps, raw = T.pmf_of(to, X, sf)
        idict = to.interpolated_thresholder_.interpolation_dict
    except Exception as ex:
        return (True, fp, (f"C04:{constraint}:raises", f"fit/_pmf_predict raised {type(ex).__name__}: {str(ex)[:120]} on {desc}", replay))
    i = T.bad_probability(ps)
    if i is not None:
        return (True, fp, (f"C04:{constraint}:pmf-not-a-probability", f"_pmf_predict gives P(1)={ps[i]!r} for training row {i} (group {gl[i]!r}, "
                           f"score {sl[i]}); {desc}; interpolation_dict={dict(idict)!r}"[:1500], {**replay, "row": i, "pmf_training_rows": [repr(p) for p in ps]}))
    for i, p in enumerate(ps):
        h = by_hand(idict, gl[i], sl[i])
        if h is None or abs(h - p) > 1e-12:
            return (True, fp, (f"C04:{constraint}:pmf-vs-interpolation_dict",
                               f"_pmf_predict gives P(1)={p!r} for training row {i} (group {gl[i]!r}, score {sl[i]}), the stored "
                               f"interpolation_dict gives {h!r}; {desc}", {**replay, "row": i, "got": p, "expected": h}))
    names = ["false_positive_rate", "true_positive_rate"] if constraint == "equalized_odds" else [T.SIMPLE[constraint]]
    groups = T.by_group(gl)
    nontrivial = any(0.0 < p < 1.0 for p in ps)
    for name in names:
        vals = {g: T.metric(name, T.confusion([yl[i] for i in idx], [ps[i] for i in idx])) for g, idx in groups.items()}
        lo, hi = min(vals.values()), max(vals.values())
        nontrivial = nontrivial or 0 < lo < 1
        if hi - lo > Fraction(TOL):
            show = {repr(g): float(v) for g, v in vals.items()}
            return (nontrivial, fp, (f"C04:{constraint}:disparity:{name}",
                                     f"expected {name} under the fitted rule differs between groups by {float(hi - lo):.3g}: {show}; {desc}; "
                                     f"interpolation_dict={dict(idict)!r}"[:1500],
                                     {**replay, "per_group": show, "pmf_training_rows": ps}))
    return (nontrivial, fp, None)


def run_bounded(rep):
    rep.assume("A1", "A7")
    cases = _cases(rep.tier, rep.seed)
    bound = ("2 groups x 2 rows x 3 levels x all 384 configurations exhaustive; " +
             ("n <= 6, <= 3 groups, <= 4 levels" if rep.tier == "quick" else "n <= 8, <= 4 groups, <= 4 levels") +
             " exhaustive in the data with seeded configurations; seeded data up to 5 groups x 14 rows")
    run_cases(rep, "threshold_optimizer_parity_rtc",
              rule="all multisets of (group,label,score-level) rows with both labels per group (one per group relabelling) x configurations "
                   "(7 constraint names x admissible objectives x flip x grid_size in {1,2,3,7,10,1000}; all 384 for the 2x2-row data sets, a seeded "
                   "subset otherwise) x seeded encoding (score values, predict_method, prefit, group labels, row order, container), plus seeded "
                   "larger data sets; real fit, then per-group expected constrained metric from _pmf_predict on the training rows with Fractions; "
                   "non-trivial = a randomised or interior solution; distinct by full case",
              bound=bound, cases=cases, check_case=_check, exhaustive=False)
