"""C10 bounded stand-in (labelled bounded, never counted as proved).

X(a) thresholder: real ThresholdOptimizer.fit behind a pass-through scorer on a seeded part of the C04 scope (vf/bounded/_threshopt.py: all
   multisets of (group,label,score-level) rows n<=6 plus seeded larger data, all 384 configurations reachable), observed both through
   ThresholdOptimizer and through its InterpolatedThresholder. Query set = every training group x (every training score, midpoints between
   neighbouring scores, one value below and one above all scores), each (group, score) twice, rows shuffled.
   * _pmf_predict: shape (m,2), entries in [0,1] (1e-9), rows sum to 1 (1e-12);
   * depends only on (score, group): equal (1e-12) for duplicates inside the batch, for the reversed batch and for single-row calls;
   * flip=False: non-decreasing in the score inside every group;
   * predict(random_state=s) for N seeds: values in {0,1}, shape (m,), same output for the same int seed and for two fresh
     RandomState(s); all draws 0 where p<=1e-12 and all 1 where p>=1-1e-12; per row the number of ones lies in the exact binomial band of
     two-sided tail mass 1e-9 (wider than 5 sigma, so that tens of thousands of tests per run stay quiet) and the pooled z-score over all
     rows and seeds is within 6.
X(b) ExponentiatedGradient, real fits on seeded data (16..40 rows, 2 features, 2..3 groups):
   * classification (DemographicParity / EqualizedOdds / TruePositiveRateParity / ErrorRateParity, logistic regression or depth-2 trees,
     run_linprog_step False/True): _pmf_predict(X)[:,1] == sum_t weights_[t] * predictors_[t].predict(X), pairing BY PREDICTOR ID, computed
     here with plain loops (1e-9); valid distribution; predict as for the thresholder;
   * regression (BoundedGroupLoss(SquareLoss), trees / linear regression, run_linprog_step False/True): every predict(X, random_state=s)[i]
     is the output at row i of a stored predictor with positive weight; per row and distinct value the frequency over the seeds matches
     the summed weights of the predictors producing that value (binomial band 1e-9), and per predictor id t the pooled frequency over
     all rows where t's value is unique matches weights_[t] (this is where pairing weights with predictors by position instead of by id
     shows up, fix cab58f5); reproducible per seed.
   Half to two thirds of the fits run without the LP step and with eta0 in {2, 20, 100}: that is what produces weights_ whose index is not in
   column order (predictors found only by the gap evaluation are appended last). Cases with such a support are counted as non-trivial; the run
   reports a checker error (exit 3, not a violation) if the classification or the regression part reaches none.

NOT checked: statistical quality of numpy's generator (A2); unseen groups at predict time; EG with user-supplied objective moments; the null
event u == 0 in the comparison p >= u.

Sensitivity self-test (scratch worktree of /repo HEAD, one edit at a time, quick-tier case list and this check_case, screened with an
early-stopping driver over the same cases):
  edit                                                                                          -> first key
  revert of cab58f5 (`git show cab58f5 | git apply -R`: choice(..., p=self.weights_))           -> EG.predict:choice_alignment (zero-weight
      column returned in 88 of 250 seeds; weights_ index [0,1,3,5,7,2,4,6]) - 8th case of the shuffled list
  thresholder predict `>=` -> `<=`                                                              -> thresholder:predict:not-deterministic
  thresholder predict draws from np.random instead of random_state                              -> thresholder:predict:not-reproducible
  thresholder predict `>= rand(n)` -> `>= 0.5`                                                  -> thresholder:predict:frequency
  thresholder predict one uniform number for the whole batch                                    -> thresholder:predict:frequency (pooled z = 9.9)
  thresholder predict `rand(n) ** 1.3` (biased draw)                                            -> thresholder:predict:frequency (pooled z = 15.8)
  thresholder _pmf_predict `(1 - p_ignore)` -> `(1 + p_ignore)`                                 -> thresholder:pmf:not-a-distribution
  thresholder _pmf_predict writes group values by position instead of by mask                   -> thresholder:pmf:not-a-distribution (NaN)
  thresholder _pmf_predict columns exchanged                                                    -> thresholder:pmf:not-monotone
  EG _pmf_predict: positional `pred.values.dot(weights_.values)`                                -> EG:pmf:mixture (needs weights_ out of column order)
  EG _pmf_predict: predictors with weight < 0.15 zeroed                                         -> EG:pmf:mixture
  EG predict (classification) `>=` -> `<`                                                       -> EG:predict:not-deterministic
  EG predict ignores random_state                                                               -> EG:predict:not-reproducible
  EG predict (regression) reads row 0 for every row                                             -> EG:predict:not-a-stored-predictor-value
  EG predict (regression) uniform choice over the support                                       -> EG.predict:choice_alignment (frequency)
  EG predict (regression) returns the weighted mean                                             -> EG:predict:not-a-stored-predictor-value
  ThresholdOperation `<` -> `<= t + 1`                                                          -> MISSED by design: the reported pmf stays a valid,
      score-and-group-only distribution that predict samples from; it is a C04 defect (caught there: pmf-vs-interpolation_dict).
"""
import math

import numpy as np

from ..report import fingerprint
from . import _threshopt as T
from .harness import run_cases

ALPHA = 1e-9


# ------------------------------------------------------------------ statistics helpers
def _binom_outside(k, n, p):
    """True where observing k successes of n at probability p has two-sided tail mass < ALPHA"""
    from scipy.stats import binom
    k, p = np.asarray(k, dtype=float), np.clip(np.asarray(p, dtype=float), 0.0, 1.0)
    lo = binom.cdf(k, n, p)           # P(K <= k)
    hi = binom.sf(k - 1, n, p)        # P(K >= k)
    return np.minimum(lo, hi) < ALPHA / 2


def _sampling_checks(predict, p, n_seeds, base_seed, tag, mk):
    """common predict checks for 0/1 predictors; p = reported positive probabilities; returns violation or None"""
    m = len(p)
    ones = np.zeros(m)
    for j in range(n_seeds):
        s = base_seed + j
        r = np.asarray(predict(s))
        if r.shape != (m,) or not np.all((r == 0) | (r == 1)):
            return mk(f"{tag}:predict:not-01", f"predict(random_state={s}) returned {r.tolist()!r} (expected {m} values in {{0,1}})", {"seed": s})
        if j < 3:
            r2 = np.asarray(predict(s))
            r3, r4 = np.asarray(predict(np.random.RandomState(s))), np.asarray(predict(np.random.RandomState(s)))
            if not (np.array_equal(r, r2) and np.array_equal(r3, r4)):
                return mk(f"{tag}:predict:not-reproducible", f"two predict calls with random_state={s} differ: {r.tolist()} vs {r2.tolist()} "
                          f"(RandomState instances: {r3.tolist()} vs {r4.tolist()})", {"seed": s})
        ones += r
    det0, det1 = p <= 1e-12, p >= 1 - 1e-12
    if np.any(ones[det0] != 0) or np.any(ones[det1] != n_seeds):
        i = int(np.flatnonzero((det0 & (ones != 0)) | (det1 & (ones != n_seeds)))[0])
        return mk(f"{tag}:predict:not-deterministic", f"row {i} has reported P(1)={p[i]!r} but predict returned 1 in {int(ones[i])} of {n_seeds} seeds", {"row": i})
    out = _binom_outside(ones, n_seeds, p)
    if np.any(out):
        i = int(np.flatnonzero(out)[0])
        return mk(f"{tag}:predict:frequency", f"row {i}: reported P(1)={p[i]!r}, predict returned 1 in {int(ones[i])} of {n_seeds} seeds "
                  f"(outside the binomial band of tail mass {ALPHA})", {"row": i, "ones": int(ones[i]), "seeds": [base_seed, base_seed + n_seeds]})
    var = float(np.sum(n_seeds * p * (1 - p)))
    if var > 0:
        z = float(np.sum(ones - n_seeds * p)) / math.sqrt(var)
        if abs(z) > 6:
            return mk(f"{tag}:predict:frequency", f"pooled over {m} rows x {n_seeds} seeds: ones={int(ones.sum())}, expected {float(n_seeds * p.sum()):.1f}, z={z:.2f}",
                      {"z": z, "seeds": [base_seed, base_seed + n_seeds]})
    return None


def _valid_pmf(raw, m):
    raw = np.asarray(raw, dtype=float)
    if raw.shape != (m, 2):
        return f"shape {raw.shape}, expected {(m, 2)}"
    if np.any(np.isnan(raw)) or raw.min() < -1e-9 or raw.max() > 1 + 1e-9:
        return f"entries outside [0,1]: min {raw.min()!r} max {raw.max()!r}"
    if np.max(np.abs(raw.sum(axis=1) - 1)) > 1e-12:
        return f"rows do not sum to 1: {raw[np.argmax(np.abs(raw.sum(axis=1) - 1))].tolist()}"
    return None


# ------------------------------------------------------------------ (a) thresholder
def _to_cases(tier, seed):
    rng = np.random.default_rng(seed + 10)
    data = [(T.with_scores(r, 3, int(rng.integers(0, 3)))) for r in T.datasets_exhaustive([(2, 2), (2, 4), (3, 3), (2, 2, 2)], 3)]
    data += [(T.with_scores(r, 4, int(rng.integers(0, 3)))) for r in T.datasets_exhaustive([(2, 3)], 4)]
    n_small, n_big, n_seeds = (160, 80, 200) if tier == "quick" else (2000, 1000, 300)
    picks = [data[int(i)] for i in rng.choice(len(data), size=min(n_small, len(data)), replace=False)]
    picks += [rows for rows, _ in T.datasets_seeded(rng, n_big)]
    out, off = [], int(rng.integers(0, len(T.CONFIGS)))
    for j, rows in enumerate(picks):          # 37 is coprime to 384: the configurations are cycled through completely
        out.append(("to", rows, (j * 37 + off) % len(T.CONFIGS), T.random_enc(rng), int(rng.integers(0, 1 << 30)), n_seeds))
    return out


def _check_to(case):
    _, rows, ci, enc, base_seed, n_seeds = case
    cfg = T.CONFIGS[ci]
    constraint, flip = cfg[0], cfg[2]
    X, y, sf, gl, yl, sl = T.materialise(rows, enc)
    fp = fingerprint(case)
    replay = {"groups": gl, "labels": yl, "scores": sl, "constraints": constraint, "objective": cfg[1], "flip": flip, "grid_size": cfg[3],
              "predict_method": enc[0], "container": enc[2], "prefit": enc[3] % 2 == 0, "extra_X_column": enc[4]}
    desc = f"ThresholdOptimizer(constraints={constraint}, objective={cfg[1]}, flip={flip}, grid_size={cfg[3]}) fitted on groups={gl} labels={yl} scores={sl}"
    lv = sorted(set(sl))
    qs = lv + [(a + b) / 2 for a, b in zip(lv[:-1], lv[1:])] + [lv[0] - 1.0, lv[-1] + 0.5]
    gvals = list(dict.fromkeys(gl))
    q = [(g, s) for g in gvals for s in qs] * 2
    order = np.random.default_rng(base_seed).permutation(len(q))
    q = [q[i] for i in order]
    m = len(q)
    qg, qsc = [g for g, _ in q], [s for _, s in q]

    def mk(key, what, extra):
        return (True, fp, (f"C10:{key}", f"{what}; query groups={qg} scores={qsc}; {desc}"[:1800], {**replay, "query_groups": qg, "query_scores": qsc, **extra}))

    def sfq(gs_):
        import pandas as pd
        return np.array(gs_) if enc[2] == "np" else (list(gs_) if enc[2] == "list" else pd.Series(gs_, name="sf"))
    try:
        to = T.make_optimizer(cfg, enc).fit(X, y, sensitive_features=sf)
        model = to if base_seed % 3 else to.interpolated_thresholder_
        Xq = T.query_X(qsc, enc, X)
        raw = np.asarray(model._pmf_predict(Xq, sensitive_features=sfq(qg)))
        rev = np.asarray(model._pmf_predict(T.query_X(qsc[::-1], enc, X), sensitive_features=sfq(qg[::-1])))[::-1]
        singles = [np.asarray(model._pmf_predict(T.query_X([qsc[i]], enc, X), sensitive_features=sfq([qg[i]]))).reshape(-1, 2)[0] for i in range(0, m, 5)]
    except Exception as ex:
        return mk("thresholder:raises", f"fit/_pmf_predict raised {type(ex).__name__}: {str(ex)[:150]}", {})
    bad = _valid_pmf(raw, m)
    if bad:
        return mk("thresholder:pmf:not-a-distribution", f"_pmf_predict: {bad}", {"pmf": raw.tolist()})
    p = raw[:, 1]
    seen = {}
    for i in range(m):
        if abs(seen.setdefault(q[i], p[i]) - p[i]) > 1e-12:
            return mk("thresholder:pmf:depends-on-more-than-score-and-group", f"two rows with (group, score)={q[i]!r} get P(1)={seen[q[i]]!r} and {p[i]!r}", {"row": i})
    if np.max(np.abs(rev - raw)) > 1e-12:
        i = int(np.argmax(np.abs(rev - raw).max(axis=1)))
        return mk("thresholder:pmf:depends-on-more-than-score-and-group", f"row {i} {q[i]!r}: P(1)={p[i]!r} in the batch, {rev[i, 1]!r} in the reversed batch", {"row": i})
    for j, i in enumerate(range(0, m, 5)):
        if np.max(np.abs(singles[j] - raw[i])) > 1e-12:
            return mk("thresholder:pmf:depends-on-more-than-score-and-group", f"row {i} {q[i]!r}: pmf {raw[i].tolist()} in the batch, {singles[j].tolist()} when queried alone", {"row": i})
    if not flip:
        for g in gvals:
            pts = sorted((s, pp) for (gg, s), pp in seen.items() if gg == g)
            for (s0, p0), (s1, p1) in zip(pts[:-1], pts[1:]):
                if p1 < p0 - 1e-12:
                    return mk("thresholder:pmf:not-monotone", f"group {g!r}: P(1|score={s0})={p0!r} > P(1|score={s1})={p1!r} with flip=False", {"group": repr(g)})
    try:
        v = _sampling_checks(lambda s: model.predict(Xq, sensitive_features=sfq(qg), random_state=s), p, n_seeds, base_seed, "thresholder", mk)
    except Exception as ex:
        return mk("thresholder:raises", f"predict raised {type(ex).__name__}: {str(ex)[:150]}", {})
    if v:
        return v
    return (bool(np.any((p > 0) & (p < 1))), fp, None)


# ------------------------------------------------------------------ (b) ExponentiatedGradient
CLS_MOMENTS = ["DemographicParity", "EqualizedOdds", "TruePositiveRateParity", "ErrorRateParity"]


def _eg_cases(tier, seed):
    rng = np.random.default_rng(seed + 20)
    n_cls, n_reg, n_seeds = (40, 72, 250) if tier == "quick" else (400, 800, 400)
    out = []
    for j in range(n_cls):
        out.append(("cls", int(rng.integers(0, 1 << 30)), CLS_MOMENTS[j % 4], ["logreg", "tree"][(j // 4) % 2], bool(j % 3 == 2),
                    float(rng.choice([0.01, 0.05, 0.2])), int(rng.integers(5, 13)), n_seeds, float(rng.choice([2.0, 20.0, 100.0]))))
    for j in range(n_reg):
        out.append(("reg", int(rng.integers(0, 1 << 30)), "BoundedGroupLoss", ["tree", "linreg"][j % 2], bool(j % 3 == 2),
                    float(rng.choice([0.05, 0.2])), int(rng.integers(5, 11)), n_seeds, float(rng.choice([2.0, 20.0, 100.0]))))
    return out


def _eg_data(kind, seed):
    rng = np.random.default_rng(seed)
    n = int(rng.integers(16, 41))
    G = int(rng.integers(2, 4))
    X = rng.normal(size=(n, 2))
    sf = np.r_[np.arange(G), rng.integers(0, G, n - G)]
    lin = 0.3 * X[:, 0] + 0.3 * (sf % 2) * X[:, 1] + rng.normal(size=n) * 0.1
    if kind == "reg":
        y = np.clip(0.5 + lin + (0.2 + 0.3 * (sf % 2)) * rng.normal(size=n), 0, 1)
    else:
        y = (lin + 0.2 * (sf == 0) > 0).astype(int)
        y[:4] = [0, 1, 0, 1]
    Xq = np.r_[X[: min(n, 6)], rng.normal(size=(4, 2))]
    return X, y, sf, Xq


def _check_eg(case):
    import fairlearn.reductions as R
    from sklearn.linear_model import LinearRegression, LogisticRegression
    from sklearn.tree import DecisionTreeClassifier, DecisionTreeRegressor
    kind, dseed, mname, ename, lp, eps, max_iter, n_seeds, eta0 = case
    fp = fingerprint(case)
    X, y, sf, Xq = _eg_data(kind, dseed)
    m = len(Xq)
    est = {"logreg": lambda: LogisticRegression(solver="liblinear"), "tree": lambda: (DecisionTreeClassifier if kind == "cls" else DecisionTreeRegressor)(max_depth=2, random_state=0),
           "linreg": LinearRegression}[ename]()
    moment = R.BoundedGroupLoss(R.SquareLoss(0, 1), upper_bound=0.02) if kind == "reg" else getattr(R, mname)()
    replay = {"kind": kind, "data_seed": dseed, "data": "vf.bounded.C10._eg_data(kind, data_seed) -> X, y, sensitive_features, X_query", "moment": mname, "estimator": ename,
              "run_linprog_step": lp, "eps": eps, "max_iter": max_iter, "eta0": eta0}
    desc = f"ExponentiatedGradient({ename}, {mname}, eps={eps}, max_iter={max_iter}, eta0={eta0}, run_linprog_step={lp}) on _eg_data({kind!r}, {dseed})"

    def mk(key, what, extra):
        return (True, fp, (f"C10:{key}", f"{what}; {desc}"[:1800], {**replay, **extra}))
    try:
        eg = R.ExponentiatedGradient(est, moment, eps=eps, max_iter=max_iter, eta0=eta0, run_linprog_step=lp).fit(X, y, sensitive_features=sf)
        raw = eg._pmf_predict(Xq)
    except Exception as ex:
        return mk("EG:raises", f"fit/_pmf_predict raised {type(ex).__name__}: {str(ex)[:150]}", {})
    ids = [t for t in eg.weights_.index]
    w = {t: float(eg.weights_.loc[t]) for t in ids}
    if sorted(ids) != list(range(len(eg.predictors_))) or any(v < -1e-7 for v in w.values()) or abs(math.fsum(w.values()) - 1) > 1e-7:          # 1e-7 = primal feasibility tolerance of the HiGHS LP solver that produces weights_
        return mk("EG:weights:not-a-distribution-over-predictors", f"weights_ index {ids} values {list(w.values())} for {len(eg.predictors_)} predictors", {})
    H = {t: np.asarray(eg.predictors_[t].predict(Xq), dtype=float) for t in ids}          # outputs of the stored predictors, by id
    unsorted = ids != sorted(ids) and len({round(v, 12) for v in w.values()}) > 1
    fp = ("unsorted-" if unsorted else "") + fp
    info = {"weights_index": ids, "weights": [w[t] for t in ids]}
    base = dseed % (1 << 20)
    if kind == "cls":
        bad = _valid_pmf(raw, m)
        if bad:
            return mk("EG:pmf:not-a-distribution", f"_pmf_predict: {bad}", info)
        p = np.asarray(raw, dtype=float)[:, 1]
        exp = np.array([math.fsum(w[t] * H[t][i] for t in ids) for i in range(m)])
        if np.max(np.abs(p - exp)) > 1e-9:
            i = int(np.argmax(np.abs(p - exp)))
            return mk("EG:pmf:mixture", f"row {i}: _pmf_predict P(1)={p[i]!r}, weights_-weighted mixture of predictors_ outputs (paired by id)={exp[i]!r}; "
                      f"weights_ index {ids}", {**info, "row": i, "got": float(p[i]), "expected": float(exp[i])})
        try:
            v = _sampling_checks(lambda s: eg.predict(Xq, random_state=s), p, n_seeds, base, "EG", mk)
        except Exception as ex:
            return mk("EG:raises", f"predict raised {type(ex).__name__}: {str(ex)[:150]}", info)
        return v or (unsorted or bool(np.any((p > 0) & (p < 1))), fp, None)
    # ---- regression moment: predict returns, per row, the output of one stored predictor chosen with its own weight
    support = [t for t in ids if w[t] > 0]
    counts = [dict() for _ in range(m)]
    try:
        for j in range(n_seeds):
            r = np.asarray(eg.predict(Xq, random_state=base + j), dtype=float)
            if r.shape != (m,):
                return mk("EG:predict:shape", f"predict returned shape {r.shape}, expected {(m,)}", info)
            if j < 2 and not np.array_equal(r, np.asarray(eg.predict(Xq, random_state=base + j), dtype=float)):
                return mk("EG:predict:not-reproducible", f"two predict calls with random_state={base + j} differ", info)
            for i in range(m):
                counts[i][float(r[i])] = counts[i].get(float(r[i]), 0) + 1
    except Exception as ex:
        return mk("EG:raises", f"predict raised {type(ex).__name__}: {str(ex)[:150]}", info)
    pooled_k, pooled_n = {t: 0 for t in support}, {t: 0 for t in support}
    for i in range(m):
        byval = {}
        for t in support:
            byval.setdefault(float(H[t][i]), []).append(t)
        stray = [v for v in counts[i] if not any(abs(v - u) <= 1e-12 for u in byval)]
        if stray:
            frame = np.asarray(raw, dtype=float)      # regression: _pmf_predict is the frame of per-predictor outputs (zero columns for weight 0)
            zero_w = [t for t in ids if w[t] == 0 and frame.shape == (m, len(ids)) and abs(frame[i, t] - stray[0]) <= 1e-12]
            if zero_w:
                return mk("EG.predict:choice_alignment", f"row {i}: predict returned {stray[0]!r} in {counts[i][stray[0]]} of {n_seeds} seeds, the entry of predictor "
                          f"column(s) {zero_w} whose weight is 0 (weights paired with predictors by position?); weights_ index {ids}, weights "
                          f"{[round(w[t], 4) for t in ids]}", {**info, "row": i, "zero_weight_columns": zero_w})
            return mk("EG:predict:not-a-stored-predictor-value", f"row {i}: predict returned {stray[0]!r}, positive-weight predictors give {sorted(byval)}", {**info, "row": i})
        for v, ts in byval.items():
            k, pv = counts[i].get(v, 0), min(1.0, math.fsum(w[t] for t in ts))
            if _binom_outside(k, n_seeds, pv):
                return mk("EG.predict:choice_alignment", f"row {i}: value {v!r} of predictor(s) {ts} with total weight {pv:.4f} was returned in {k} of {n_seeds} seeds; "
                          f"weights_ index {ids}, weights {[round(w[t], 4) for t in ids]}", {**info, "row": i, "predictors": ts, "count": k, "seeds": [base, base + n_seeds]})
            if len(ts) == 1:
                pooled_k[ts[0]] += k
                pooled_n[ts[0]] += n_seeds
    for t in support:
        if pooled_n[t] and _binom_outside(pooled_k[t], pooled_n[t], w[t]):
            return mk("EG.predict:choice_alignment", f"predictor {t} has weight {w[t]:.4f} but its value was returned in {pooled_k[t]} of {pooled_n[t]} (row, seed) draws; "
                      f"weights_ index {ids}", {**info, "predictor": t, "count": pooled_k[t], "draws": pooled_n[t]})
    return (unsorted, fp, None)


class _Learned:
    """score = sign_ * x0 + shift_, both learned by fit (sign_ = the direction in which the labels grow); an unfitted instance has no score"""

    def __init__(self, flavour=0):
        self.flavour = flavour

    def get_params(self, deep=False):
        return {"flavour": self.flavour}

    def set_params(self, **kw):
        self.flavour = kw.get("flavour", self.flavour)
        return self

    def fit(self, X, y, **kw):
        x = np.asarray(X, dtype=float)[:, 0]
        yv = np.asarray(y, dtype=float)
        self.sign_ = 1.0 if (x[yv == 1].mean() if (yv == 1).any() else 0.0) >= (x[yv == 0].mean() if (yv == 0).any() else 0.0) else -1.0
        self.shift_ = float(-np.median(x) * self.sign_)
        return self

    def __sklearn_is_fitted__(self):
        return hasattr(self, "sign_")

    def predict(self, X):
        out = self.sign_ * np.asarray(X, dtype=float)[:, 0] + self.shift_
        # flavour 1: the scores come back as float32 (the recorded failing input of the repaired defect C10:thresholder:raises:float32-scores, repo fix c61411d,
        # stays a case for ever: a "fixed" entry suppresses nothing)
        return out.astype(np.float32) if self.flavour == 1 else out


def _direct_cases(tier, seed):
    return [("direct", seed * 7919 + i, i) for i in range(40 if tier == "quick" else 400)]


def _check_direct(case):
    """InterpolatedThresholder used on its own with prefit=False: fit trains a clone of the estimator and P(1) is a function of the TRAINED model's score.
    The estimator's score depends on what fit saw, an unfitted one raises, and the constructor argument may carry a model trained on other data."""
    from sklearn.utils import Bunch
    from fairlearn.postprocessing._interpolated_thresholder import InterpolatedThresholder
    from fairlearn.postprocessing._threshold_operation import ThresholdOperation
    rng = np.random.default_rng(case[1])
    fp = fingerprint(case)
    n = int(rng.integers(6, 15))
    groups = ["a", "b", "c"][: int(rng.integers(2, 4))]
    g = [groups[i % len(groups)] for i in range(n)]
    x = np.round(rng.normal(size=n), 2)
    direction = 1.0 if rng.random() < 0.5 else -1.0
    y = ((direction * x + 0.3 * rng.normal(size=n)) > 0).astype(int)
    y[:2] = [0, 1]
    X = x.reshape(-1, 1)
    flavour = 1 if case[2] % 4 >= 2 else 0          # every second pair of cases: float32 scores
    est = _Learned(flavour)
    stale = case[2] % 2 == 1
    if stale:            # the constructor argument was trained before, on data with the opposite direction
        est.fit(-X, y)
    idict = {}
    for a in groups:
        t0, t1 = sorted(float(v) for v in np.round(rng.normal(size=2), 2))
        p0 = float(rng.choice([0.0, 0.25, 0.5, 1.0] if not flavour else [0.0, 0.3, 0.7, 0.1]))          # float32 scores: mixing weights that are not float32 numbers
        idict[a] = Bunch(p0=p0, operation0=ThresholdOperation(">", t0), p1=1 - p0, operation1=ThresholdOperation(">", t1))
    desc = f"InterpolatedThresholder(estimator={'trained elsewhere' if stale else 'unfitted'}, prefit=False, predict_method='predict', scores {'float32' if flavour else 'float64'}) x={x.tolist()} y={y.tolist()} groups={g} " \
           f"rules={ {a: (d.p0, d.operation0.threshold, d.p1, d.operation1.threshold) for a, d in idict.items()} }"
    replay = {"case": list(case)}
    try:
        it = InterpolatedThresholder(estimator=est, interpolation_dict=idict, prefit=False, predict_method="predict").fit(X, y)
        pm = np.asarray(it._pmf_predict(X, sensitive_features=g), dtype=float)
        score = np.asarray(it.estimator_.predict(X), dtype=float)
    except Exception as ex:
        return (True, fp, ("C10:thresholder:direct:raises", f"fit/_pmf_predict raised {type(ex).__name__}: {str(ex)[:120]}; {desc}", replay))
    ref = _Learned(flavour).fit(X, y)
    if not np.allclose(score, ref.predict(X), atol=1e-12):
        return (True, fp, ("C10:thresholder:direct:estimator_-not-trained-by-fit", f"estimator_ is not the model trained by fit on the given data; {desc}", replay))
    for i in range(n):
        d = idict[g[i]]
        want = d.p0 * float(score[i] > d.operation0.threshold) + d.p1 * float(score[i] > d.operation1.threshold)
        if abs(pm[i, 1] - want) > 1e-12 or abs(pm[i, 0] + pm[i, 1] - 1) > 1e-12:
            return (True, fp, ("C10:thresholder:direct:pmf-vs-fitted-score", f"row {i} (group {g[i]!r}, fitted model's score {score[i]!r}): P(1)={pm[i, 1]!r}, the rule gives "
                               f"{want!r}; {desc}", {**replay, "row": i}))
    return (True, fp, None)


def _check(case):
    return _check_to(case) if case[0] == "to" else _check_direct(case) if case[0] == "direct" else _check_eg(case)


def run_bounded(rep):
    rep.assume("A1", "A2", "A7")
    to_cases = _to_cases(rep.tier, rep.seed)
    run_cases(rep, "thresholder_pmf_and_sampling",
              rule="seeded part of the C04 scope (exhaustive n<=6 data sets + seeded data up to 5 groups x 14 rows; configurations cycle through all "
                   "7 constraint names x objectives x flip x grid sizes) -> real fit; query = all groups x (training scores, midpoints, below, above), "
                   f"duplicated and shuffled; pmf validity / dependence on (score, group) only / monotonicity; predict over {to_cases[0][5]} seeds: "
                   "{0,1}, reproducible, deterministic at 0/1, exact binomial band (tail 1e-9) per row + pooled z<=6; non-trivial = some 0<p<1",
              bound=f"{len(to_cases)} fitted models, n <= 14 rows, <= 5 groups, {to_cases[0][5]} seeds each", cases=to_cases, check_case=_check, exhaustive=False)
    dc = _direct_cases(rep.tier, rep.seed)
    run_cases(rep, "thresholder_direct_prefit_false",
              rule="InterpolatedThresholder on its own with prefit=False and hand-made '>' rules (2-3 groups, 6-14 rows): the estimator's score depends on what "
                   "fit saw; constructor argument unfitted or trained on other data; P(1) per row against the rule evaluated on the fitted model's score",
              bound=f"{len(dc)} fitted thresholders, n <= 14", cases=dc, check_case=_check, exhaustive=False)
    eg_cases = _eg_cases(rep.tier, rep.seed)
    cls = [c for c in eg_cases if c[0] == "cls"]
    reg = [c for c in eg_cases if c[0] == "reg"]
    run_cases(rep, "eg_classification_mixture_and_sampling",
              rule="seeded data (16..40 rows, 2..3 groups) x 4 classification moments x {logistic regression, depth-2 tree} x run_linprog_step x eps; "
                   "_pmf_predict against the by-id mixture of predictors_ outputs computed with plain loops; predict as for the thresholder; "
                   "non-trivial = some 0<p<1 or support of weights_ not in column order", bound=f"{len(cls)} fitted models, {cls[0][7]} seeds each", cases=cls, check_case=_check, exhaustive=False)
    name = "eg_regression_choice_alignment"
    run_cases(rep, name,
              rule="seeded data x BoundedGroupLoss(SquareLoss) x {depth-2 tree, linear regression} x run_linprog_step (2/3 False) x eps; predict over seeds: "
                   "each value is a positive-weight predictor's output, frequency per value and per predictor id against weights_ (binomial band, tail "
                   "1e-9); non-trivial = support of weights_ not in column order with unequal weights",
              bound=f"{len(reg)} fitted models, {reg[0][7]} seeds x 10 query rows each", cases=reg, check_case=_check, exhaustive=False)
    for nm in ("eg_classification_mixture_and_sampling", name):
        if not any(str(f).startswith("unsorted-") for f in rep.standins[nm]["nontrivial"]):
            rep.error(f"stand-in {nm}: no fitted model with weights_ out of column order was reached - the by-id pairing was not exercised")
