"""C15 bounded stand-in (labelled bounded, never counted as proved).

X: the full grid n in 2..8 x 1..4 sensitive x 1..3 other columns x 6 kinds of sensitive columns (generic, collinear, constant, binary,
   far-apart means, duplicated) x 3 containers (ndarray ids by position, DataFrame string names, DataFrame integer names that are NOT
   positions) x alpha in {0,.3,1}, `reps` seeded matrices per grid point (column positions, id order and values from the seed).
   Real `CorrelationRemover.fit_transform` / `transform` against a first-principles oracle:
     * shape (n, #other); alpha=0 returns the other columns unchanged in their original order (sensitive dropped, order kept);
     * residual oracle R = Z - Sc @ lstsq(Sc, Z) with Sc centred column by column in a plain loop and an explicit rank decision
       (rcond 1e-9; the generator leaves no singular value in (1e-12, 1e-5)*s_max); expected = alpha*R + (1-alpha)*Z;
     * alpha=1: |sample covariance(out_j, s_k)| <= tol for every output column j and sensitive column k (plain loops);
     * sensitive_mean_ holds the per-column means (compared as a multiset: the storage order is not part of the statement);
     * transform(training data) == fit_transform output; transform(fresh rows, 1..5 of them) = the same affine map with the training
       means/coefficients.  When the centred block is rank-deficient the coefficients are not unique; the fresh sensitive rows are then
       drawn from the affine span of the training rows, where every least-squares solution gives the same map.
   Tolerance 1e-9 * max(1, max|X|)^2 absolute.

   Finding of this stand-in (own key `C15:fit:rank-deficient-centred-block:float-noise`): when the centred sensitive block is exactly
   rank-deficient (more sensitive columns than n-1, or collinear columns) and |mean| >> spread, the rounding noise of the centring exceeds
   lstsq's default cut-off, coefficients ~1e14 are fitted and the output is garbage (covariance O(1)), e.g.
   X=[[50.18,-101.08,-89],[48.88,-99.32,-64]], ids [0,1] -> output [1.31,1.20] instead of [-76.5,-76.5].  Such a case is reported under that
   key only (nothing else is judged on it).

NOT checked: ill-conditioned full-rank data, alpha outside [0,1], 1-d input, zero sensitive columns, list input, sklearn feature-name
checks, the order in which beta_/sensitive_mean_ store the sensitive columns, the known refit finding (C19).

Sensitivity self-test (scratch worktree /tmp/agent_C15/r, quick tier; keys that fired, besides the finding above):
  1 revert a095c6b (grand mean `X_sensitive.mean()`)                     -> C15:fit:mean_per_column
  2 lstsq on the uncentred sensitive block                                -> fit_transform:value, fit_transform:covariance
  3 transform centres with the mean of the data being transformed         -> transform:fresh-data
  4 transform does not centre at all                                      -> fit_transform:value
  5 alpha blend `alpha*filtered + (1-alpha)*filtered`                      -> fit_transform:alpha0-identity, :value
  6 alpha blend roles swapped                                              -> fit_transform:alpha0-identity, :value, :covariance
  7 DataFrame lookup by position instead of by name                        -> fit_transform:raises (string names), :alpha0-identity (int names)
  8 `_split_X` tests `i not in self.sensitive_feature_ids` (ids, not positions) -> fit_transform:shape, :value
  9 `_split_X` returns the other columns in reverse order                  -> fit_transform:alpha0-identity, :value
 10 lstsq with rcond=0.5                                                   -> fit_transform:value, :covariance
 11 `transform` recomputes beta from the data being transformed            -> transform:fresh-data
 12 sensitive positions sorted in `_split_X` (behaviour-preserving)        -> not flagged (equivalent mutant, as intended)
 13 `sensitive_mean_` keeps only the first column mean                     -> fit:mean_per_column
 14 DataFrame id check against positions instead of column names           -> fit_transform:raises
"""
import itertools

import numpy as np

from ..report import fingerprint
from .harness import run_cases

KINDS = ("generic", "collinear", "constant", "binary", "far-means", "duplicate")
CONTAINERS = ("ndarray", "df-str", "df-int")
ALPHAS = (0.0, 0.3, 1.0)


def _build(case, attempt=0):
    n, ks, ko, kind, container, alpha, seed = case
    rng = np.random.default_rng([seed, n, ks, ko, KINDS.index(kind), CONTAINERS.index(container), int(alpha * 10), attempt])
    p = ks + ko
    scale_cols = rng.choice([1.0, 1.0, 10.0, 100.0], size=p)
    X = np.round(rng.normal(size=(n, p)), 2) * scale_cols + np.round(rng.normal(size=p), 1) * scale_cols
    pos = [int(i) for i in rng.permutation(p)]
    sens = pos[:ks]                       # positions of the sensitive columns, in the order the ids are given (not sorted)
    if kind == "collinear" and ks >= 2:
        X[:, sens[-1]] = 2.0 * X[:, sens[0]] - 3.0 + (X[:, sens[1]] if ks >= 3 else 0.0)
    elif kind == "constant":
        X[:, sens[int(rng.integers(ks))]] = float(rng.integers(-3, 4))
    elif kind == "binary":
        for j in sens:
            X[:, j] = rng.integers(0, 2, n)
    elif kind == "far-means":
        for r, j in enumerate(sens):
            X[:, j] += 50.0 * (r + 1) * (-1) ** r
    elif kind == "duplicate" and ks >= 2:
        X[:, sens[1]] = X[:, sens[0]]
    sv = np.linalg.svd(X[:, sens] - _col_means(X[:, sens]), compute_uv=False)
    if sv[0] > 0 and np.any((sv > 1e-12 * sv[0]) & (sv < 1e-5 * sv[0])) and attempt < 20:
        return _build(case, attempt + 1)          # keep the rank decision of the oracle unambiguous (conditioning is not what is probed)
    m = int(rng.integers(1, 6))
    Xnew = np.round(rng.normal(size=(m, p)), 2) * scale_cols + 7.0
    W = None
    if int(np.sum(sv > 1e-9 * sv[0])) < ks:
        # rank-deficient centred block: the coefficients are not unique, but (s - mean)'beta is for every s in the affine span of the training
        # rows; fresh sensitive rows are drawn from that span (mean + W @ centred rows) so that the learned affine map is determined on them
        W = np.round(rng.normal(size=(m, n)), 1)
        Xnew[:, sens] = _col_means(X[:, sens]) + W @ (X[:, sens] - _col_means(X[:, sens]))
    if container == "ndarray":
        names, ids = None, sens
    elif container == "df-str":
        names = [f"f{int(i)}" for i in rng.permutation(p)]
        ids = [names[j] for j in sens]
    else:
        names = [int(i) for i in (rng.permutation(p) + (0 if rng.random() < 0.5 else 3))]   # integer names that are not the positions
        ids = [names[j] for j in sens]
    return X, Xnew, W, sens, ids, names


def _wrap(X, names):
    import pandas as pd
    return X.copy() if names is None else pd.DataFrame(X.copy(), columns=names)


def _col_means(S):
    return np.array([sum(float(v) for v in S[:, j]) / S.shape[0] for j in range(S.shape[1])])


def _check(case):
    from fairlearn.preprocessing import CorrelationRemover
    n, ks, ko, kind, container, alpha, seed = case
    X, Xnew, W, sens, ids, names = _build(case)
    other = [j for j in range(X.shape[1]) if j not in sens]
    S, Z = X[:, sens], X[:, other]
    mean = _col_means(S)
    Sc = S - mean
    B, _, rank, sv = np.linalg.lstsq(Sc, Z, rcond=1e-9)   # explicit rank decision: _build leaves no singular value in (1e-12, 1e-5)*s_max
    rank = int(rank)
    nontrivial = rank >= 1
    fp = fingerprint(case)
    tol = 1e-9 * max(1.0, float(np.abs(X).max()), float(np.abs(Xnew).max())) ** 2
    replay = {"X": X.tolist(), "X_new": Xnew.tolist(), "columns": names, "sensitive_feature_ids": ids, "alpha": alpha, "case": list(case)}

    def viol(which, what, got=None, exp=None):
        r = dict(replay, got=repr(got)[:400], expected=repr(exp)[:400])
        return (nontrivial, fp, (f"C15:{which}", f"{what}: got {repr(got)[:160]}, first-principles {repr(exp)[:160]} "
                                 f"[n={n} sensitive ids={ids} of columns={names or list(range(X.shape[1]))} alpha={alpha} kind={kind}]", r))

    R = Z - Sc @ B                        # residual of the orthogonal projection on span(Sc): unique, also when Sc is rank-deficient
    exp = alpha * R + (1 - alpha) * Z
    cr = CorrelationRemover(sensitive_feature_ids=list(ids), alpha=alpha)
    try:
        out = cr.fit_transform(_wrap(X, names))
    except Exception as ex:
        return viol("fit_transform:raises", f"fit_transform raised {type(ex).__name__}", repr(ex)[:150], "an array")
    out = np.asarray(out)
    if out.shape != Z.shape:
        return viol("fit_transform:shape", "output shape (sensitive columns must be dropped)", out.shape, Z.shape)
    if alpha == 0.0 and not np.allclose(out, Z, rtol=0, atol=tol):
        return viol("fit_transform:alpha0-identity", "alpha=0 must return the non-sensitive columns unchanged and in their order", out.tolist(), Z.tolist())
    # learned state
    sm = np.asarray(getattr(cr, "sensitive_mean_", np.nan), dtype=float)
    if sm.shape != mean.shape or not np.allclose(np.sort(sm), np.sort(mean), rtol=0, atol=tol):      # as a multiset: the storage order is not stated
        return viol("fit:mean_per_column", "sensitive_mean_ does not hold the per-column means of the sensitive columns", sm.tolist(), mean.tolist())
    beta = np.asarray(getattr(cr, "beta_", np.nan), dtype=float)
    # what the code's own centring leaves in floating point: singular values of S - S.mean(axis=0) against lstsq's DOCUMENTED default cut-off
    # eps*max(n,k)*s_max.  Only a noise singular value above (half of) that cut-off belongs to the recorded finding; a rank-deficient case whose
    # noise lies below the documented cut-off must come out right (a change of the cut-off, e.g. rcond=-1, is then reported as a new violation).
    svn = np.linalg.svd(S - S.mean(axis=0), compute_uv=False) if ks else np.zeros(0)
    noise_fitted_by_default = ks > 0 and svn.size > 0 and svn[0] > 0 and int(np.sum(svn > 0.5 * np.finfo(float).eps * max(n, ks) * svn[0])) > rank
    if rank < ks and noise_fitted_by_default and beta.shape == (ks, ko) and float(np.abs(beta).max()) * float(sv[0]) > 1e6 * max(1.0, float(np.abs(Z).max())):
        # the centred block is exactly rank-deficient, but the rounding noise of the centring (~eps*|mean|) exceeds lstsq's default cut-off
        # (eps*max(n,k)*s_max): the noise direction is fitted with coefficients ~1e14 and the output is garbage.  Own key, nothing else is
        # judged on such a case.
        cov = float(np.abs((out - out.mean(axis=0)).T @ Sc).max()) / (n - 1)
        return viol("fit:rank-deficient-centred-block:float-noise", "rank-deficient centred sensitive block (more sensitive columns than n-1, or collinear "
                    f"columns) with |mean| >> spread: lstsq(rcond=None) fits rounding noise, max|beta_|={float(np.abs(beta).max()):.3g}, "
                    f"max |cov(output, sensitive)|={cov:.3g}, output", out.tolist(), exp.tolist())
    if alpha == 1.0:
        for j in range(ko):
            oj = out[:, j] - sum(float(v) for v in out[:, j]) / n
            for k in range(ks):
                cov = sum(float(oj[i]) * float(Sc[i, k]) for i in range(n)) / (n - 1)
                if abs(cov) > tol:
                    return viol("fit_transform:covariance", f"sample covariance of output column {j} with sensitive column {ids[k]!r} is not zero", cov, 0.0)
    if not np.allclose(out, exp, rtol=0, atol=tol):
        return viol("fit_transform:value", "fit_transform differs from alpha*residual+(1-alpha)*original", out.tolist(), exp.tolist())
    # transform: same affine map on the training data and on fresh rows
    try:
        again = np.asarray(cr.transform(_wrap(X, names)))
        fresh = np.asarray(cr.transform(_wrap(Xnew, names)))
    except Exception as ex:
        return viol("transform:raises", f"transform raised {type(ex).__name__}", repr(ex)[:150], "an array")
    if again.shape != out.shape or not np.allclose(again, out, rtol=0, atol=tol):
        return viol("transform:training-data", "transform(training data) differs from fit_transform", again.tolist(), out.tolist())
    Sn, Zn = Xnew[:, sens], Xnew[:, other]
    proj = (Sn - mean) @ B if W is None else W @ (Sc @ B)     # rank-deficient: fresh sensitive rows are mean + W @ Sc (see _build)
    expn = alpha * (Zn - proj) + (1 - alpha) * Zn
    if fresh.shape != expn.shape or not np.allclose(fresh, expn, rtol=0, atol=tol * max(1.0, float(np.abs(B).max()))):
        return viol("transform:fresh-data", "transform on fresh rows is not the affine map learned in fit (training means/coefficients)",
                    fresh.tolist(), expn.tolist())
    return (nontrivial, fp, None)


def run_bounded(rep):
    rep.assume("A1", "A2")
    reps = 1 if rep.tier == "quick" else 12
    cases = [(n, ks, ko, kind, cont, a, rep.seed * 1000 + r)
             for n, ks, ko, kind, cont, a in itertools.product(range(2, 9), range(1, 5), range(1, 4), KINDS, CONTAINERS, ALPHAS) for r in range(reps)]
    run_cases(rep, "correlation_remover_rtc",
              rule="full grid n in 2..8 x 1..4 sensitive x 1..3 other columns x kinds %s x containers %s x alpha %s, %d seeded matrices per grid point "
                   "(column positions, id order, values, 1..5 fresh rows from the seed); oracle: loops + numpy lstsq (explicit rcond 1e-9) on per-column-centred data; "
                   "non-trivial = centred sensitive block has rank >= 1; distinct by full case" % (list(KINDS), list(CONTAINERS), list(ALPHAS), reps),
              bound="n <= 8 rows, <= 4 sensitive and <= 3 other columns (grid exhaustive, values seeded)", cases=cases, check_case=_check, exhaustive=False)
