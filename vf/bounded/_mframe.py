"""Helpers shared by the C01/C02 stand-ins: reading MetricFrame results of every documented layout without trusting their shape.

A layout that is not the documented one (bare callable -> scalar / Series, dict -> Series / DataFrame with one column per metric) raises
Layout, which the callers turn into a violation (it is a statement about the code under test, not a harness failure)."""
import math

import numpy as np
import pandas as pd


class Layout(Exception):
    pass


def plain(x):
    """numpy scalar -> python scalar (index labels)"""
    return x.item() if isinstance(x, np.generic) else x


def index_keys(idx):
    """index -> list of tuples of python scalars (a plain Index gives 1-tuples)"""
    if isinstance(idx, pd.MultiIndex):
        return [tuple(plain(v) for v in k) for k in idx.tolist()]
    return [(plain(k),) for k in idx.tolist()]


def num(x):
    """a cell as float (NaN for None/NaN); non-scalars are a layout error"""
    if x is None:
        return math.nan
    if np.ndim(x) != 0:
        raise Layout(f"cell is not a scalar: {x!r}"[:120])
    return float(x)


def table(res, bare, names, row_names):
    """MetricFrame result -> {(row_key_tuple, metric_name): float}.

    row_names: None for a result without row index (no control features: scalar for a bare metric, Series over metric names for a dict),
    else the expected list of index level names (by_group: control + sensitive levels, aggregates/overall: control levels)."""
    out = {}
    if row_names is None:
        if bare:
            if np.ndim(res) != 0:
                raise Layout(f"expected a scalar, got {type(res).__name__} of shape {np.shape(res)}")
            out[((), names[0])] = num(res)
            return out
        if not isinstance(res, pd.Series):
            raise Layout(f"expected a Series over the metric names, got {type(res).__name__}")
        if sorted(map(str, res.index)) != sorted(names):
            raise Layout(f"expected index {names}, got {list(res.index)}")
        for nm in names:
            out[((), nm)] = num(res[nm])
        return out
    if bare:
        if not isinstance(res, pd.Series):
            raise Layout(f"expected a Series, got {type(res).__name__}")
        cols = {names[0]: res}
    else:
        if not isinstance(res, pd.DataFrame):
            raise Layout(f"expected a DataFrame, got {type(res).__name__}")
        if sorted(map(str, res.columns)) != sorted(names):
            raise Layout(f"expected columns {names}, got {list(res.columns)}")
        cols = {nm: res[nm] for nm in names}
    if list(res.index.names) != list(row_names):
        raise Layout(f"expected index levels {list(row_names)}, got {list(res.index.names)}")
    if isinstance(res.index, pd.MultiIndex) != (len(row_names) > 1):
        raise Layout(f"index type {type(res.index).__name__} for {len(row_names)} level(s)")
    keys = index_keys(res.index)
    if len(set(keys)) != len(keys):
        raise Layout(f"duplicate index entries {keys}")
    for nm, col in cols.items():
        vals = col.tolist()
        for k, v in zip(keys, vals):
            out[(k, nm)] = num(v)
    return out


def shuffled_series(values, name=None, salt=0):
    """Series whose index labels are a non-identity permutation of 0..n-1 (position i still holds row i)"""
    n = len(values)
    perm = [(i * 3 + 1 + salt) % n for i in range(n)] if n % 3 else [(n - 1 - i) for i in range(n)]
    return pd.Series(list(values), index=perm, name=name)


def retuple(x):
    """JSON lists -> nested tuples (cases are stored in replay files as lists)"""
    return tuple(retuple(v) for v in x) if isinstance(x, (list, tuple)) else x


def replay_case(data, checkers):
    """shared --replay entry: re-run the stored case through its check function; exit code 1 if it still deviates"""
    case = (data.get("replay") or {}).get("case")
    if not case or case[0] not in checkers:
        return None
    _, _, v = checkers[case[0]](retuple(case))
    print(f"replayed case {case!r}")
    print("still deviates: " + v[0] + "\n  " + v[1] if v else "no deviation on this tree")
    return 1 if v else 0
