"""C11 bounded stand-in (labelled bounded, never counted as proved).

X: metamorphic relations on the REAL fairlearn code (the property itself states that these pairs of fairlearn calls agree, so no external oracle
   is involved; the values themselves are C14 / C03): for integer weights w
     (copies)  f(data, sample_weight=w)   ==  f(data with row i repeated w_i times)                 [weights omitted on the replicated data]
               ... ==  f(replicated data, sample_weight=all ones)
     (scaling) f(data, sample_weight=c*w) ==  f(data, sample_weight=w)   for c in {0.5, 3, 1e-3}
     (ones)    f(data) == f(data, sample_weight=all ones)                [the copies relation at w = (1,..,1)]
   [base_functions] f in true/false positive/negative rate, selection_rate, mean_prediction (0/1 predictions and dyadic scores): every
     y_true, y_pred in {0,1}^n with every w in {1,2,3}^n for n <= 3 (quick) / 4 (thorough), and 6 / 12 weight vectors per dataset for n = 4 / 5;
     the weight container rotates (list of int, float ndarray, pandas Series).
   [metricframe_and_fairness] MetricFrame(metrics = 2 of the 6 base functions (rotating), sample_params per metric): overall and every by_group
     cell; and one named fairness metric (demographic_parity / equal_opportunity / equalized_odds _difference/_ratio, method and agg rotating):
     every dataset (y_true, y_pred, partition of the rows into groups) with n <= 3 under w = all ones and 2 (quick) / 4 (thorough) vectors of
     {1,2,3}^n (thorough: also n = 4 with 2 vectors), i.e. including every way a group can consist of a single weighted row; plus 500 (quick) /
     3000 (thorough) seeded datasets with n in 4..6, <= 4 groups (every
     second one with a forced single-member group), one scaling per case (rotating), containers / group-label order rotating as in C03.
   A result that is NaN on one side must be NaN on the other (0/0 ratios); comparison tolerance 1e-9 relative (A1: the scaled weights are floats).

NOT checked: non-integer weights against copies (no meaning), zero / negative weights, control features, weights for metrics outside the list, the
   first-principles value of each result (C14, C03). n = 1 datasets are passed with pandas containers instead of ndarrays here because
   MetricFrame raises on an ndarray sensitive feature of length 1 independent of any weights (reported under C03).

MUTATIONS (scratch worktree of /repo, one edit at a time, the quick-tier cases of this file; the last one also through ./check): all 16 caught.
   _base_metrics: selection_rate D2 fix reverted (np.squeeze of a single weight) -> selection_rate:raises, MetricFrame:raises (single weighted row) |
     selection_rate divides by len() instead of the weight sum -> selection_rate:weight-vs-copies | mean_prediction ignores weights ->
     mean_prediction:weight-vs-copies | true_negative_rate does not forward sample_weight -> true_negative_rate:weight-vs-copies | selection_rate casts
     weights to int -> selection_rate:scaling | false_positive_rate drops the weights for exactly 2 rows -> false_positive_rate:weight-vs-copies |
     mean_prediction uses np.squeeze on the weights -> mean_prediction:raises (single weighted row)
   _metric_frame: sample-param column cast to int -> MetricFrame:raises (scaling 0.5) | only the first metric of a dict gets its sample params ->
     MetricFrame:mean_prediction:weight-vs-copies
   _annotated_metric_function: weights only used for < 3 rows -> MetricFrame:true_negative_rate:weight-vs-copies | weight column reversed within the group ->
     MetricFrame:true_negative_rate:weight-vs-copies | weights dropped for groups of exactly 2 rows -> MetricFrame:*:weight-vs-copies,
     demographic_parity_*:weight-vs-copies
   _fairness_metrics: _get_eo_frame gives weights to tpr only -> equalized_odds_difference:weight-vs-copies | demographic_parity_ratio drops
     sample_weight -> demographic_parity_ratio:weight-vs-copies
   Equivalent by construction (not a violation): dropping the weight of a single-row group changes no group value (a weighted mean over one row).
"""
import itertools

import numpy as np

from .. import speclib as S
from ..report import fingerprint
from ._fairdata import FORMS, LABEL_PERMS, containers, partitions, pick_weights, scores, seeded_dataset
from .harness import run_cases

SCALINGS = (0.5, 3, 1e-3)
BASE = ("true_positive_rate", "false_negative_rate", "false_positive_rate", "true_negative_rate", "selection_rate", "mean_prediction")
NAMED = [(f, m, a) for f in ("demographic_parity_difference", "demographic_parity_ratio", "equal_opportunity_difference", "equal_opportunity_ratio")
         for m in ("between_groups", "to_overall") for a in (None,)] + \
        [(f, m, a) for f in ("equalized_odds_difference", "equalized_odds_ratio") for m in ("between_groups", "to_overall") for a in ("worst_case", "mean")]


def _replicate(w, *cols):
    return tuple(tuple(x for x, k in zip(c, w) for _ in range(k)) for c in cols)


def _wbox(w, kind):
    import pandas as pd
    return list(w) if kind == 0 else np.array(w, dtype=float) if kind == 1 else pd.Series(list(w))


def _check_base(case):
    import fairlearn.metrics as fm
    yt, yp, w, ci = case
    n = len(yt)
    sc = scores(yt, yp)
    ryt, ryp, rsc = _replicate(w, yt, yp, sc)
    ones_r = [1] * len(ryt)
    nontrivial = n >= 2 or w[0] != 1
    fp = fingerprint(case)
    for name, pred, rpred in [(b, yp, ryp) for b in BASE] + [("mean_prediction", sc, rsc)]:
        f = getattr(fm, name)
        calls = [("weighted", (list(yt), list(pred)), _wbox(w, ci % 3)),
                 ("weight-vs-copies", (list(ryt), list(rpred)), None),
                 ("ones-vs-omitted", (list(ryt), list(rpred)), _wbox(ones_r, (ci + 1) % 3))] + \
                [("scaling", (list(yt), list(pred)), _wbox([c * x for x in w], (ci + k) % 3)) for k, c in enumerate(SCALINGS)]
        ref = None
        for which, args, sw in calls:
            def viol(kind, got):
                return (nontrivial, fp, (f"C11:{name}:{kind}",
                                         f"{name}: {which}: got {got!r} but {ref!r} with sample_weight={list(w)} on y_true={list(yt)} y_pred={list(pred)}; "
                                         f"this call: y_true={args[0]} y_pred={args[1]} sample_weight={None if sw is None else [float(x) for x in sw]}",
                                         {"function": name, "y_true": list(yt), "y_pred": list(pred), "sample_weight": list(w), "relation": which,
                                          "call_y_true": args[0], "call_y_pred": args[1], "call_sample_weight": None if sw is None else [float(x) for x in sw],
                                          "got": repr(got), "weighted_result": repr(ref)}))
            try:
                r = float(f(*args) if sw is None else f(*args, sample_weight=sw))
            except Exception as ex:
                return viol("raises", f"{type(ex).__name__}: {str(ex)[:120]}")
            if which == "weighted":
                ref = r
            elif not S.close(r, ref):
                return viol(which, r)
    return (nontrivial, fp, None)


def _frame_values(mf):
    out = {("overall", k): float(v) for k, v in mf.overall.items()}
    for idx, row in mf.by_group.iterrows():
        for k, v in row.items():
            out[(idx, k)] = float(v)
    return out


def _check_frame(case):
    import fairlearn.metrics as fm
    yt, yp, g, w, form, perm_i, ci = case
    n = len(yt)
    if n == 1 and form == "arr-int":
        form = "series"
    perm = LABEL_PERMS[perm_i]
    c = SCALINGS[ci % 3]
    ryt, ryp, rg = _replicate(w, yt, yp, g)
    variants = {"weighted": containers(form, yt, yp, yp, g, w, perm),
                "weight-vs-copies": containers(form, ryt, ryp, ryp, rg, None, perm),
                "scaling": containers(form, yt, yp, yp, g, [c * x for x in w], perm)}
    if ci % 2:
        variants["ones-vs-omitted"] = containers(form, ryt, ryp, ryp, rg, [1] * len(ryt), perm)
    nontrivial = any(x != 1 for x in w) or len(set(g)) >= 2
    fp = fingerprint(case)
    m1, m2 = BASE[ci % 6], BASE[(ci + 1 + (ci // 6) % 5) % 6]
    fname, method, agg = NAMED[ci % len(NAMED)]
    kw = {"method": method, **({} if agg is None else {"agg": agg})}
    sf_json = variants["weighted"][5]

    def run_frame(Yt, Yp, _, SF, W, __):
        sp = {} if W is None else {m1: {"sample_weight": W}, m2: {"sample_weight": W}}
        return _frame_values(fm.MetricFrame(metrics={m1: getattr(fm, m1), m2: getattr(fm, m2)}, y_true=Yt, y_pred=Yp, sensitive_features=SF, sample_params=sp))

    def run_named(Yt, Yp, _, SF, W, __):
        return {fname: float(getattr(fm, fname)(Yt, Yp, sensitive_features=SF, **kw, **({} if W is None else {"sample_weight": W})))}

    for what, runner in ((f"MetricFrame[{m1},{m2}]", run_frame), (f"{fname}({kw})", run_named)):
        ref = None
        for which, v in variants.items():
            def viol(kind, cell, got, exp):
                keyname = "MetricFrame:" + str(cell[1]) if runner is run_frame and cell else fname if runner is run_named else "MetricFrame"
                return (nontrivial, fp, (f"C11:{keyname}:{kind}",
                                         f"{what} {'' if cell is None else cell}: {which}: got {got!r} but {exp!r} with sample_weight={list(w)} on y_true={list(yt)} "
                                         f"y_pred={list(yp)} sensitive_features={sf_json} containers={form}" + (f" scaling={c}" if which == "scaling" else ""),
                                         {"call": what, "y_true": list(yt), "y_pred": list(yp), "sensitive_features": sf_json, "sample_weight": list(w),
                                          "containers": form, "relation": which, "scaling": c, "cell": repr(cell), "got": repr(got), "weighted_result": repr(exp)}))
            try:
                vals = runner(*v)
            except Exception as ex:
                return viol("raises", None, f"{type(ex).__name__}: {str(ex)[:120]}", None)
            if which == "weighted":
                ref = vals
                continue
            if set(vals) != set(ref):
                return viol(which, None, sorted(map(str, vals)), sorted(map(str, ref)))
            for cell in ref:
                if not S.close(vals[cell], ref[cell]):
                    return viol(which, cell, vals[cell], ref[cell])
    return (nontrivial, fp, None)


def _base_cases(nfull, per_dataset, seed):
    rng = np.random.default_rng(seed)
    out, ci = [], 0
    for n in range(1, nfull + 2):
        allw = list(itertools.product((1, 2, 3), repeat=n))
        for bits in itertools.product((0, 1), repeat=2 * n):
            ws = allw if n <= nfull else [allw[int(i)] for i in rng.choice(len(allw), per_dataset, replace=False)]
            for w in ws:
                ci += 1
                out.append((bits[:n], bits[n:], w, ci))
    return out


def _frame_cases(nmax, nweights, count, seed):
    out, j = [], 0
    for n in range(1, nmax + 1):
        for g in partitions(n):
            for bits in itertools.product((0, 1), repeat=2 * n):
                j += 1
                h = (j * 2654435761) & 0xFFFFFFFF
                for k, w in enumerate([(1,) * n] + [pick_weights(n, j + 13 * i) for i in range(nweights if n <= 3 else 2)]):
                    out.append((bits[:n], bits[n:], g, w, FORMS[j % 4], (h >> 17) % 24, (h >> 5) % 1000 + k))
    rng = np.random.default_rng(seed)
    for c in range(count):
        yt, yp, g = seeded_dataset(rng, c % 2)
        w = [int(x) for x in rng.integers(1, 4, len(yt))]
        if c % 2:       # the single-member group (id of the row that is alone) carries a weight > 1
            alone = [i for i in range(len(g)) if g.count(g[i]) == 1]
            w[alone[0]] = int(rng.integers(2, 4))
        out.append((yt, yp, g, tuple(w), FORMS[int(rng.integers(0, 4))], int(rng.integers(0, 24)), int(rng.integers(0, 1000))))
    return out


def _check_narrow(case):
    """integer weights stored in a narrow numpy dtype: weight k on many rows still equals k copies (no wrap-around in the weighted sums)"""
    import fairlearn.metrics as fm
    n, k, dtype, npos, seed = case
    rng = np.random.default_rng(seed)
    yt = rng.integers(0, 2, n)
    yp = np.array([1] * npos + [0] * (n - npos))
    rng.shuffle(yp)
    if len(set(yt.tolist())) < 2:
        yt[0], yt[1] = 0, 1
    w = np.full(n, k, dtype=dtype)
    fp = fingerprint(case)
    ryt, ryp = np.repeat(yt, k), np.repeat(yp, k)
    for name in BASE:
        f = getattr(fm, name)
        for pred_dtype in (int, np.uint8):
            try:
                got = float(f(yt, yp.astype(pred_dtype), sample_weight=w))
                want = float(f(ryt, ryp.astype(pred_dtype)))
            except Exception as ex:
                return (True, fp, (f"C11:{name}:raises", f"{name} raised {type(ex).__name__}: {ex} with {dtype} weights"[:300], {"case": list(map(str, case))}))
            if not S.close(got, want):
                return (True, fp, (f"C11:{name}:weight-vs-copies:narrow-integer-weights",
                                   f"{name}: {n} rows with weight {k} stored as {np.dtype(dtype).name} (predictions {np.dtype(pred_dtype).name}, {npos} positive predictions): got {got!r}, "
                                   f"{k} unit-weight copies of every row give {want!r}",
                                   {"function": name, "n": n, "weight": k, "weight_dtype": np.dtype(dtype).name, "y_true": yt.tolist(), "y_pred": yp.tolist(), "got": got, "expected": want}))
    return (True, fp, None)


def run_bounded(rep):
    rep.assume("A1", "A2")
    thorough = rep.tier != "quick"
    nfull, per = (4, 12) if thorough else (3, 6)
    run_cases(rep, "base_functions",
              rule="all y_true,y_pred in {0,1}^n x all weights in {1,2,3}^n for n<=%d, %d seeded weight vectors per dataset for n=%d; per case the 6 base "
                   "metric functions (+ mean_prediction on scores): weighted vs replicated (weights omitted / all ones) vs 3 scalings; non-trivial = n>=2 "
                   "or weight != 1; distinct by (y_true, y_pred, w)" % (nfull, per, nfull + 1),
              bound=f"n <= {nfull + 1}, weights in {{1,2,3}}, scalings {SCALINGS}", cases=_base_cases(nfull, per, rep.seed), check_case=_check_base, exhaustive=False)
    narrow = [(n, k, dt, int(n * fr), rep.seed + i) for i, (n, k, dt, fr) in enumerate(itertools.product((50, 100, 300) if not thorough else (50, 100, 300, 1000), (2, 3),
                                                                                                    (np.uint8, np.int8, np.uint16, np.int32, np.int64), (0.3, 0.9, 1.0)))]
    narrow += [(n, k, dt, int(n * fr), rep.seed + 1000 + i) for i, (n, k, dt, fr) in enumerate(itertools.product((1000, 3000), (2, 3), (np.float16, np.float32), (0.3, 0.9)))]
    run_cases(rep, "narrow_integer_weight_dtypes",
              rule="n in {50,100,300} rows x weight k in {2,3} stored as uint8/int8/uint16/int32/int64 x 30%/90%/100% positive predictions (int and uint8 predictions), plus n in "
                   "{1000,3000} with the weights stored as float16/float32 (totals beyond the exact integer range of float16): the 6 base "
                   "functions weighted vs k copies of every row (sums beyond the range of the weight dtype); distinct by full case", bound="n <= 300 (1000 thorough); 3000 for float16/32",
              cases=narrow, check_case=_check_narrow, exhaustive=False)
    nmax, nw, count = (4, 4, 3000) if thorough else (3, 2, 500)
    run_cases(rep, "metricframe_and_fairness",
              rule="all y_true,y_pred in {0,1}^n x all partitions of the rows into groups, n<=%d, x (all-ones + %d vectors of {1,2,3}^n; 2 for n=4), plus %d seeded "
                   "datasets n in 4..6, <=4 groups (every second with a weighted single-member group); per case a MetricFrame with 2 of the 6 base "
                   "metrics and one named fairness metric (rotating): weighted vs replicated (omitted / ones) vs one scaling; non-trivial = >=2 groups "
                   "or weight != 1; distinct by full case" % (nmax, nw, count),
              bound=f"n <= 6, groups <= 4, weights in {{1,2,3}}, scalings {SCALINGS}", cases=_frame_cases(nmax, nw, count, rep.seed), check_case=_check_frame,
              exhaustive=False)
