"""C03 bounded stand-in (labelled bounded, never counted as proved).

X: the REAL fairlearn.metrics functions
     demographic_parity_{difference,ratio}, equal_opportunity_{difference,ratio}, equalized_odds_{difference,ratio} (agg worst_case / mean),
     all 25 generated <metric>_{difference,ratio,group_min,group_max} of _generated_metrics.py, and a make_derived_metric object with a custom
     sample-parameter name and a bound keyword argument,
   are called on small datasets and compared with first-principles values: per group (rows with the same sensitive-feature value) the base
   metric is computed by plain row loops over exact Fractions (vf.speclib + the few definitions below), then max-min, max_g|v_g-overall|,
   min/max, min_g min(r_g, 1/r_g) with r_g = v_g/overall are applied; equalized odds = max/min (worst_case) or arithmetic mean (mean) of the
   TPR and FPR disparities. The make_derived_metric object is additionally compared with the equivalent MetricFrame call (this equality of two
   fairlearn calls is what the property states). The table of generated names is compared with the expected 25 names.

Scope (quick): every y_true, y_pred in {0,1}^n and every partition of the n rows into groups, n <= 3 (356 datasets; group labels are permuted so
   that the first-seen group is not always the smallest label). Per dataset: all 16 named-metric calls (2 methods x 2 agg) unweighted, 8 named calls
   (one method) with a weight vector from {1,2,3}^n, the 14 generated difference/ratio functions with one method, the 11 generated group_min/max
   functions, and for every third dataset 6 make_derived_metric calls (each also compared with MetricFrame); the weight setting, method, containers
   and label order rotate with a hash of the dataset number. Plus 1000 seeded datasets with n in 4..6 and <= 4 groups (4 kinds: random / forced
   single-member group / forced group without positives or without negatives / every group has both classes), weights None or from {1,2,3}^n,
   10 randomly chosen calls each. thorough: partitions of n <= 4 rows (4196 datasets; both methods everywhere for n <= 3), 3000 seeded x 14 calls.
   Input containers rotate: lists of str, numpy int arrays, named pandas Series, and a two-column DataFrame of sensitive features (group id g
   -> (g//2, g%2); combinations that do not occur are empty groups of the product index and must not contribute).

Oracle conventions (all from the statement / C14 / the documented sklearn defaults, A2): a TPR/FPR/TNR/FNR with empty denominator is 0 (C14);
   precision/recall/f1 with empty denominator are 0 (sklearn zero_division default), balanced accuracy averages the recalls of the classes that
   occur in y_true; roc_auc_score, r2_score, log_loss are only called when every group contains both classes (otherwise the base metric is
   undefined or raises in sklearn; not checked). The score-based metrics (roc_auc, log_loss, MAE, MSE, r2) get scores from a dyadic grid instead
   of the 0/1 predictions. Undefined quotients: a ratio whose value is 0/0 is not determined by the statement; the result must then be NaN or the
   value computed from the defined quotients only (equalized_odds_ratio with one of the two ratios undefined). log_loss is compared in floating
   point (1e-9), everything else against exact Fractions (1e-9 relative, A1).

NOT checked: control features, pos_label other than 1 / other encodings (C14), non-binary labels, weights outside {1,2,3}, errors= of MetricFrame,
   metrics with negative values under ratio (C02 known finding), n > 6.

Finding on the unchanged tree (reported, key C03:single-row-ndarray-sensitive-feature:raises): a dataset of ONE row whose sensitive feature is a numpy
   array, e.g. demographic_parity_difference(np.array([0]), np.array([0]), sensitive_features=np.array([7])), raises ValueError "Feature array has too
   many dimensions" (MetricFrame._process_features squeezes the length-1 array to 0-d); list / Series / DataFrame inputs of length 1 work.

MUTATIONS (scratch worktree of /repo, one edit at a time, the quick-tier cases of this file; the last one and C11's also through ./check): all 24 caught.
   _fairness_metrics: demographic_parity_ratio drops sample_weight -> demographic_parity_ratio:value | equalized_odds_difference agg='mean' returns max ->
     equalized_odds_difference:value | _get_eo_frame gives weights to tpr only -> equalized_odds_difference:value (weights [1,3]) | equal_opportunity_ratio
     ignores method -> equal_opportunity_ratio:value | equalized_odds_ratio worst_case uses max -> equalized_odds_ratio:value | equal_opportunity_difference
     built on false_positive_rate -> equal_opportunity_difference:value
   _make_derived_metric: sample-param test hard-coded to "sample_weight" -> derived(...):raises | group_min returns group_max -> accuracy_score_group_min:value |
     bound keyword params dropped -> derived(custom_wmae,group_min):value | ratio ignores method -> accuracy_score_ratio:value, derived(...,ratio):value
   _generated_metrics: zero_one_loss group_max -> group_min -> generated-table:extra, zero_one_loss_group_max:missing | true_negative_rate_ratio built with
     transform difference -> true_negative_rate_ratio:value | false_negative_rate entry uses false_positive_rate -> generated-table:missing
   _disaggregated_result: difference(to_overall) without abs() -> equalized_odds_difference:value | ratio(to_overall) max instead of min ->
     *_ratio:value | ratio_sub_one not applied -> *_ratio:value | difference .max(skipna=False) -> *_difference:value (only with the two-column sensitive
     feature where a combination is empty)
   _base_metrics: selection_rate D2 fix reverted (np.squeeze of a single weight) -> demographic_parity_difference:value (single weighted row per group) |
     label order swapped for a group whose labels are all positive -> equal_opportunity_ratio:value | ... all negative -> true_positive_rate_ratio:value
   _annotated_metric_function: weights only used for < 3 rows -> accuracy_score_group_min:value | weight column reversed within the group ->
     accuracy_score_group_min:value, demographic_parity_difference:value
"""
import itertools
import math
from fractions import Fraction

import numpy as np

from .. import speclib as S
from ..report import fingerprint
from ._fairdata import FORMS, LABEL_PERMS, containers, partitions, pick_weights, scores, seeded_dataset
from .harness import run_cases

METHODS = ("between_groups", "to_overall")
SCORE_BASED = {"roc_auc_score", "mean_absolute_error", "mean_squared_error", "r2_score", "log_loss"}
NEEDS_BOTH = {"roc_auc_score", "r2_score", "log_loss"}
GENERATED = [("true_positive_rate", ("difference", "ratio")), ("true_negative_rate", ("difference", "ratio")),
             ("false_positive_rate", ("difference", "ratio")), ("false_negative_rate", ("difference", "ratio")),
             ("selection_rate", ("difference", "ratio")), ("accuracy_score", ("difference", "ratio", "group_min")),
             ("zero_one_loss", ("difference", "ratio", "group_max")), ("balanced_accuracy_score", ("group_min",)),
             ("precision_score", ("group_min",)), ("recall_score", ("group_min",)), ("roc_auc_score", ("group_min",)),
             ("mean_absolute_error", ("group_max",)), ("mean_squared_error", ("group_max",)), ("r2_score", ("group_min",)),
             ("f1_score", ("group_min",)), ("log_loss", ("group_max",))]
GENERATED_NAMES = sorted(f"{b}_{t}" for b, ts in GENERATED for t in ts)


# ------------------------------------------------------------------ first-principles base metrics of one set of rows
def _div0(a, b):
    return a / b if b else Fraction(0)


def base_metric(name, yt, yp, sc, w):
    """value of the base metric on the given rows (lists); Fractions except log_loss (float)"""
    n = len(yt)
    w = S.weights_or_ones(w, n)
    W = sum(w)
    if name in ("true_positive_rate", "true_negative_rate", "false_positive_rate", "false_negative_rate"):
        return S.confusion_rates(yt, yp, w, 1)[{"true_positive_rate": "tpr", "true_negative_rate": "tnr",
                                                "false_positive_rate": "fpr", "false_negative_rate": "fnr"}[name]]
    if name == "selection_rate":
        return S.selection_rate(yp, w, 1)
    if name == "accuracy_score":
        return S.accuracy(yt, yp, w)
    if name == "zero_one_loss":
        return 1 - S.accuracy(yt, yp, w)
    tp = sum(w[i] for i in range(n) if yt[i] == 1 and yp[i] == 1)
    fp = sum(w[i] for i in range(n) if yt[i] == 0 and yp[i] == 1)
    fn = sum(w[i] for i in range(n) if yt[i] == 1 and yp[i] == 0)
    tn = sum(w[i] for i in range(n) if yt[i] == 0 and yp[i] == 0)
    if name == "precision_score":
        return _div0(tp, tp + fp)
    if name == "recall_score":
        return _div0(tp, tp + fn)
    if name == "f1_score":
        return _div0(2 * tp, 2 * tp + fp + fn)
    if name == "balanced_accuracy_score":
        rec = ([tp / (tp + fn)] if tp + fn else []) + ([tn / (tn + fp)] if tn + fp else [])
        return sum(rec) / len(rec)
    y, s = [S.F(v) for v in yt], [S.F(v) for v in sc]
    if name == "mean_absolute_error":
        return sum(w[i] * abs(y[i] - s[i]) for i in range(n)) / W
    if name == "mean_squared_error":
        return sum(w[i] * (y[i] - s[i]) ** 2 for i in range(n)) / W
    if name == "r2_score":
        ybar = sum(w[i] * y[i] for i in range(n)) / W
        return 1 - sum(w[i] * (y[i] - s[i]) ** 2 for i in range(n)) / sum(w[i] * (y[i] - ybar) ** 2 for i in range(n))
    if name == "roc_auc_score":
        num = sum(w[i] * w[j] * (1 if s[i] > s[j] else Fraction(1, 2) if s[i] == s[j] else 0)
                  for i in range(n) if yt[i] == 1 for j in range(n) if yt[j] == 0)
        return num / (sum(w[i] for i in range(n) if yt[i] == 1) * sum(w[j] for j in range(n) if yt[j] == 0))
    if name == "log_loss":
        return -sum(float(w[i]) * math.log(float(s[i]) if yt[i] == 1 else 1.0 - float(s[i])) for i in range(n)) / float(W)
    if name == "custom_wmae":       # the metric handed to make_derived_metric below, offset 1/2 bound as keyword
        return sum(w[i] * abs(y[i] - S.F(yp[i])) for i in range(n)) / W + Fraction(1, 2)
    raise KeyError(name)


def aggregate(vals, overall, transform, method):
    """first-principles aggregate of the group values; None = undefined quotient (0/0)"""
    lo, hi = min(vals), max(vals)
    if transform == "group_min":
        return lo
    if transform == "group_max":
        return hi
    if transform == "difference":
        return hi - lo if method == "between_groups" else max(abs(v - overall) for v in vals)
    if method == "between_groups":
        return lo / hi if hi != 0 else None
    if overall == 0:
        return None
    rs = [v / overall for v in vals]
    return min((min(r, 1 / r) if r > 0 else r) for r in rs)


# ------------------------------------------------------------------ the calls
def custom_wmae(y_true, y_pred, *, my_w=None, offset=0.0):
    yt, yp = np.asarray(y_true, dtype=float).reshape(-1), np.asarray(y_pred, dtype=float).reshape(-1)
    w = np.ones(len(yt)) if my_w is None else np.asarray(my_w, dtype=float).reshape(-1)
    return float(np.dot(np.abs(yt - yp), w) / w.sum() + offset)


def _specs():
    """(function name, kind, base metrics, transform, method, agg)"""
    out = []
    for m in METHODS:
        out += [("demographic_parity_difference", "named", ("selection_rate",), "difference", m, None),
                ("demographic_parity_ratio", "named", ("selection_rate",), "ratio", m, None),
                ("equal_opportunity_difference", "named", ("true_positive_rate",), "difference", m, None),
                ("equal_opportunity_ratio", "named", ("true_positive_rate",), "ratio", m, None)]
        for agg in ("worst_case", "mean"):
            out += [("equalized_odds_difference", "named", ("true_positive_rate", "false_positive_rate"), "difference", m, agg),
                    ("equalized_odds_ratio", "named", ("true_positive_rate", "false_positive_rate"), "ratio", m, agg)]
    for b, ts in GENERATED:
        for t in ts:
            for m in (METHODS if t in ("difference", "ratio") else (None,)):
                out.append((f"{b}_{t}", "generated", (b,), t, m, None))
    for t in ("difference", "ratio", "group_min", "group_max"):
        for m in (METHODS if t in ("difference", "ratio") else (None,)):
            out.append((f"derived(custom_wmae,{t})", "derived", ("custom_wmae",), t, m, None))
    return out


SPECS = _specs()
B_NAMED = {m: tuple(i for i, s in enumerate(SPECS) if s[1] == "named" and s[4] == m) for m in METHODS}
B_GEN_DR = {m: tuple(i for i, s in enumerate(SPECS) if s[1] == "generated" and s[4] == m) for m in METHODS}
B_MINMAX = tuple(i for i, s in enumerate(SPECS) if s[1] == "generated" and s[4] is None)
B_DERIVED = tuple(i for i, s in enumerate(SPECS) if s[1] == "derived")


def _accepted(spec, value_of):
    """list of accepted results (Fractions/floats, nan = float('nan')) for one call"""
    _, _, bases, transform, method, agg = spec
    parts = [aggregate(*value_of(b), transform, method) for b in bases]
    if len(parts) == 1:
        return [parts[0]] if parts[0] is not None else [float("nan")]
    comb = (max if transform == "difference" else min) if agg == "worst_case" else (lambda xs: sum(xs) / len(xs))
    defined = [p for p in parts if p is not None]
    if len(defined) == len(parts):
        return [comb(defined)]
    return [float("nan")] + ([comb(defined)] if defined else [])


def _check(case):
    import functools

    import fairlearn.metrics as fm
    yt, yp, g, w, form, perm_i, spec_ix = case
    n = len(yt)
    sc = scores(yt, yp)
    perm = LABEL_PERMS[perm_i]
    Yt, Yp, Sc, SF, W, sf_json = containers(form, yt, yp, sc, g, w, perm)
    rows = S.groups(list(g))
    both = all({yt[i] for i in idx} == {0, 1} for idx in rows.values())
    nontrivial = len(rows) >= 2 or w is not None
    fp = fingerprint(case)
    cache = {}

    def value_of(b):
        if b not in cache:
            sub = lambda x, idx: None if x is None else [x[i] for i in idx]
            cache[b] = ([base_metric(b, sub(yt, idx), sub(yp, idx), sub(sc, idx), sub(w, idx)) for idx in rows.values()],
                        base_metric(b, list(yt), list(yp), list(sc), w))
        return cache[b]

    for si in spec_ix:
        spec = SPECS[si]
        fname, kind, bases, transform, method, agg = spec
        if bases[0] in NEEDS_BOTH and not both:
            continue
        pred = Sc if bases[0] in SCORE_BASED else Yp
        kw = {} if method is None else {"method": method}
        if agg is not None:
            kw["agg"] = agg
        wname = "my_w" if kind == "derived" else "sample_weight"
        if W is not None or (kind == "named" and si % 2 == 0):      # named metrics: sample_weight=None passed explicitly half of the time
            kw[wname] = W
        if kind == "derived":
            f = fm.make_derived_metric(metric=custom_wmae, transform=transform, sample_param_names=["my_w"])
            kw["offset"] = 0.5
        else:
            f = getattr(fm, fname, None)
        acc = _accepted(spec, value_of)

        def viol(which, got, what=None, keyname=None):
            shown = {k: (v if isinstance(v, (str, float)) else "<sample weights>") for k, v in kw.items()}
            exp = " or ".join(repr(float(a)) for a in acc)
            return (nontrivial, fp, (f"C03:{keyname or fname}:{which}",
                                     f"{what or fname}({shown}): got {got!r}, first-principles value {exp} on y_true={list(yt)} "
                                     f"y_pred={[float(x) for x in (sc if bases[0] in SCORE_BASED else yp)]} sensitive_features={sf_json} "
                                     f"sample_weight={None if w is None else list(w)} containers={form}",
                                     {"function": fname, "y_true": list(yt), "y_pred": [float(x) for x in (sc if bases[0] in SCORE_BASED else yp)],
                                      "sensitive_features": sf_json, "sample_weight": None if w is None else list(w), "containers": form,
                                      "kwargs": shown, "got": repr(got), "expected": exp}))
        if f is None:
            return viol("missing", "no such function in fairlearn.metrics")
        try:
            r = f(Yt, pred, sensitive_features=SF, **kw)
            rf = float(r)
        except Exception as ex:
            one = n == 1 and form == "arr-int" and "too many dimensions" in str(ex)      # one kind of failure, whatever function is called
            return viol("raises", f"{type(ex).__name__}: {str(ex)[:120]}", keyname="single-row-ndarray-sensitive-feature" if one else None,
                        what=f"{fname} on a one-row dataset with sensitive_features=np.array({sf_json})" if one else None)
        if not any(S.close(rf, a) for a in acc):
            return viol("value", rf)
        if kind == "derived":       # the statement: equals the equivalent MetricFrame call
            mf = fm.MetricFrame(metrics=functools.partial(custom_wmae, offset=0.5), y_true=Yt, y_pred=pred, sensitive_features=SF,
                                sample_params=({} if W is None else {"my_w": W}))
            r2 = getattr(mf, transform)(**({} if method is None else {"method": method}))
            if not S.close(rf, float(r2)):
                acc = [float(r2)]
                return viol("vs-metricframe", rf, what=f"make_derived_metric(custom_wmae,{transform}) vs MetricFrame.{transform}")
    return (nontrivial, fp, None)


def _check_table(case):
    import fairlearn.metrics as fm
    from fairlearn.metrics._generated_metrics import _generated_metric_dict as G
    name = case
    if name == "<no-extra-names>":
        extra = sorted(set(G) - set(GENERATED_NAMES))
        return (True, name, None if not extra else ("C03:generated-table:extra", f"unexpected generated metrics {extra}", {"extra": extra}))
    if name not in G or getattr(fm, name, None) is not G[name]:
        return (True, name, ("C03:generated-table:missing", f"generated metric {name} is missing from fairlearn.metrics", {"name": name}))
    return (True, name, None)


# ------------------------------------------------------------------ case generation
def _exhaustive_cases(nmax, thorough):
    out, j = [], 0
    for n in range(1, nmax + 1):
        for g in partitions(n):
            for bits in itertools.product((0, 1), repeat=2 * n):
                yt, yp = bits[:n], bits[n:]
                j += 1
                h = (j * 2654435761) & 0xFFFFFFFF          # decorrelated rotation of containers / label order / method / weight setting
                form, perm_i = FORMS[j % 4], (h >> 17) % 24
                both = thorough and n <= 3
                ws = [None, pick_weights(n, j)]
                out.append((yt, yp, g, None, form, perm_i, B_NAMED[METHODS[0]] + B_NAMED[METHODS[1]]))
                for m in (METHODS if both else (METHODS[(h >> 8) & 1],)):
                    out.append((yt, yp, g, ws[1], form, perm_i, B_NAMED[m]))
                for m in (METHODS if both else (METHODS[(h >> 9) & 1],)):
                    out.append((yt, yp, g, ws[(h >> 10) & 1], form, perm_i, B_GEN_DR[m]))
                if n <= 3 or (h >> 13) & 1:
                    out.append((yt, yp, g, ws[(h >> 11) & 1], form, perm_i, B_MINMAX))
                if both or (h >> 12) % (3 if n <= 3 else 6) == 0:
                    out.append((yt, yp, g, ws[(h >> 16) & 1], form, perm_i, B_DERIVED))
    return out


def _seeded_cases(seed, count, ncalls):
    rng = np.random.default_rng(seed)
    out = []
    for c in range(count):
        kind = c % 4
        yt, yp, g = seeded_dataset(rng, kind)
        n = len(yt)
        w = None if rng.random() < 0.3 else tuple(int(x) for x in rng.integers(1, 4, n))
        pool = [i for i, s in enumerate(SPECS) if kind == 3 or s[2][0] not in NEEDS_BOTH]
        if kind == 3:       # make sure the metrics that need both classes are exercised here
            need = [i for i in pool if SPECS[i][2][0] in NEEDS_BOTH]
            spec_ix = tuple(need) + tuple(int(x) for x in rng.choice(pool, ncalls - len(need), replace=False))
        else:
            spec_ix = tuple(int(x) for x in rng.choice(pool, ncalls, replace=False))
        out.append((yt, yp, g, w, FORMS[int(rng.integers(0, 4))], int(rng.integers(0, 24)), spec_ix))
    return out


def run_bounded(rep):
    rep.assume("A1", "A2")
    thorough = rep.tier != "quick"
    nmax, count, ncalls = (4, 3000, 14) if thorough else (3, 1000, 10)
    run_cases(rep, "generated_table", rule="the 25 expected names <metric>_<transform> are exported and nothing else is generated; non-trivial: all",
              bound="finite table", cases=GENERATED_NAMES + ["<no-extra-names>"], check_case=_check_table, exhaustive=True, serial=True)
    ex = _exhaustive_cases(nmax, thorough)
    run_cases(rep, "fairness_metrics_exhaustive",
              rule="all y_true,y_pred in {0,1}^n x all partitions of the rows into groups, n<=%d; per dataset: the 16 named-metric calls (2 methods x 2 agg) "
                   "unweighted, the 8 named calls of %s with a weight vector from {1,2,3}^n, the 14 generated difference/ratio functions with %s, "
                   "the 11 generated group_min/max functions%s and (every 3rd dataset%s) 6 make_derived_metric calls, each under a rotating weight setting "
                   "(None / the weight vector); containers and group-label order rotate; non-trivial = >=2 groups or weighted; distinct by (dataset, "
                   "weights, block of calls)" % ((nmax, "both methods (n<=3; one for n=4)", "both methods (n<=3; one for n=4)", " (every 2nd dataset for n=4)",
                                                 "; all for n<=3, every 6th for n=4") if thorough else (nmax, "one method (rotating)", "one method (rotating)", "", "")),
              bound=f"n <= {nmax}, groups <= {nmax}, weights in {{1,2,3}}", cases=ex, check_case=_check, exhaustive=False)
    sd = _seeded_cases(rep.seed, count, ncalls)
    run_cases(rep, "fairness_metrics_seeded",
              rule="%d seeded datasets, n in 4..6, <=4 groups, kinds rotate: random / a single-member group / a group without positives or without "
                   "negatives / every group has both classes (roc_auc, r2, log_loss); weights None (30%%) or from {1,2,3}^n; %d randomly chosen calls "
                   "each out of %d; non-trivial = >=2 groups or weighted; distinct by full case" % (count, ncalls, len(SPECS)),
              bound="n <= 6, groups <= 4, weights in {1,2,3}", cases=sd, check_case=_check, exhaustive=False)
