"""C09 bounded stand-in (labelled bounded, never counted as proved).

X: the REAL GridSearch.fit / predict / predict_proba with exact learners (`_exactlearner.Exact` over all 2^k functions of a feature with k
   values for the five parity moments; `_exactlearner.CellMeans`, exact weighted least squares, for BoundedGroupLoss(SquareLoss(0,1))) on
   small datasets.  Everything is recomputed from the *predictions* of the stored predictors by plain loops (`_exactlearner.parity_gamma`,
   `error_rate`, group-wise mean square loss); no fairlearn call in the oracle:
     count / sign / L1 / distinct   lambda_vecs_ has exactly grid_size columns (as many predictors_, objectives_, gammas_ columns), entries >= 0,
                                    column L1 norm <= grid_limit, columns pairwise different; its index is the constraint set of the data;
     best response                  parity: err(h_j) + lambda_j.gamma(h_j) = min over the 2^k enumerated functions;
                                    BoundedGroupLoss (objective in the span of the constraints, fairlearn trains on lambda.gamma alone):
                                    lambda_j.gamma(h_j) = closed-form weighted least-squares minimum over all functions of the feature;
     recorded values                objectives_[j], gammas_[:, j] = error rate (mean loss) and constraint values of h_j's predictions;
     selection                      best_idx_ minimises (1-cw)*objective + cw*max(gamma) (first-principles values, 1e-9) and is the FIRST minimum of
                                    the recorded values (the documented/implemented tie rule: many grid points give the same predictor);
     delegation                     predict(X') / predict_proba(X') return exactly what predictors_[best_idx_] returns, call no other predictor and
                                    pass the same data X' (spies installed on the stored predictor objects after fit).
Scope: grid_size 2..14 (quick) / 2..60 (thorough) x {5 parity moments x (difference, ratio .8, ratio .6), BoundedGroupLoss} x grid_limit {.5,2,3} x
   constraint_weight {0,.3,.5,1}, each on datasets from a seeded pool: n 4..13, k 2..3 feature values, 2..4 groups, group x label cells may be empty,
   single-member groups, duplicated rows (ties); 3 container formats, int/string group labels in non-sorted order.
NOT checked: user-supplied grid / grid_offset, control features, heuristic learners, selection rules other than tradeoff_optimization (there are none),
   argument validation (C20), timing attributes.

Findings on the unchanged tree (reported, not hidden; EDGE holds seed-independent reproducers):
   C09:grid:duplicates:empty-event-group-cell   TruePositiveRateParity / FalsePositiveRateParity / EqualizedOdds when a group has no row of a conditioned label:
       UtilityParity.load_data leaves the basis column of the missing (event, group) pair all-zero, so different lattice points map to the same multiplier
       vector.  GridSearch(Exact(2), TruePositiveRateParity(), grid_size=5).fit(x=[0,1,0,1], y=[0,0,1,0], sf=[1,1,0,0]): all 5 columns of lambda_vecs_ are 0.
       (Everything else - best response, recorded values, argmin, delegation - holds on these inputs; the key is reported after the other checks passed.)
   C09:fit:raises:constant-real-labels          GridSearch(CellMeans, BoundedGroupLoss(SquareLoss(0,1))).fit with y = [1.0]*5 raises InvalidParameterError:
       the single-valued-label shortcut builds DummyClassifier(constant=np.float64(1.0)), which sklearn rejects.

Sensitivity self-test (scratch worktree /tmp/agent_C08/r, `VERIF_REPO=... ./check C09 --tier quick --only X`; (s) = same cases, every 8th, single process):
   objectives_ evaluated on predictors_[0]                              -> C09:recorded:objective
   `if not objective_in_the_span` inverted                              -> C09:best-response, C09:fit:raises
   objective_weight = 1.0                                               -> C09:best_idx:not-argmin, C09:best_idx:not-first-minimum
   tradeoff uses gammas_.mean() instead of .max()                       -> C09:best_idx:not-argmin
   last instead of first minimum (needs tied predictors)                -> C09:best_idx:not-first-minimum
   predict_proba uses predictors_[0]                                    -> C09:predict_proba:delegation
   grid scaled by grid_limit/(n_units-1)                                -> C09:grid:L1
   accumulator[:grid_size+1]                                            -> C09:grid:count
   negative part of neg_coefs not zeroed (s)                            -> C09:grid:negative
   signed (not absolute) weights handed to the learner (s)              -> C09:best-response
   estimator shared instead of deep-copied (s)                          -> C09:best-response, C09:recorded:objective/gamma, C09:predict:delegation
   DummyClassifier(constant=0) for single-valued relabelling (s)        -> C09:fit:raises
   neg_basis replaced by pos_basis in the grid (s)                      -> C09:grid:duplicates
   not property-breaking, correctly silent (s): predict passes a copy of X (first version of the stand-in demanded the identical object; relaxed).
"""
import itertools

import numpy as np

from ..report import fingerprint
from . import _exactlearner as E
from .harness import run_cases

TOL = 1e-9
PARITY_BOUNDS = ({}, {"ratio_bound": 0.8}, {"ratio_bound": 0.6, "ratio_bound_slack": 0.1})
GRID_LIMITS, CWS = (0.5, 2.0, 3.0), (0.0, 0.3, 0.5, 1.0)
YVALS = (0.0, 0.25, 0.5, 1.0)


DP_INDEX = list(E.MOMENTS).index("DemographicParity")
# seed-independent edge cases: first group without positives (TPR parity), labels of one class missing in a group (equalized odds), constant real labels
EDGE = [(2, (0, 1, 0, 1), (0, 0, 1, 0), (1, 1, 0, 0), 2, 0, 5, 2.0, 0.5, 0, False),
        (2, (0, 1, 0, 1, 1, 0), (1, 0, 1, 1, 0, 0), (0, 0, 1, 1, 2, 2), 1, 1, 9, 2.0, 0.5, 1, True),
        (2, (0, 1, 1, 1, 0), (1.0, 1.0, 1.0, 1.0, 1.0), (2, 1, 1, 1, 0), "BGL", 0, 4, 2.0, 0.5, 0, False)]
# the recorded failing input of every repaired defect filed under this property stays a case for ever ("fixed" suppresses nothing: known_findings.json,
# C09:fit:raises, repo fix 07628bc: a grid multiplier that makes every signed weight zero) - with the default and the extreme constraint weights
EDGE += [(3, (0, 1, 1, 2, 2), (0, 1, 1, 0, 0), (0, 1, 1, 2, 2), DP_INDEX, 1, 8, 2.0, cw_, 0, False) for cw_ in (0.5, 1.0, 0.0)]


def _dataset(rng):
    k, G, n = int(rng.integers(2, 4)), int(rng.choice([2, 2, 3, 3, 4])), int(rng.integers(4, 14))
    n = max(n, G + 1)
    style = int(rng.integers(0, 4))
    if style == 0 and n >= 2 * G + 2:
        return (k,) + E.random_dataset(rng, k, G, n, need="cells")
    for attempt in itertools.count():
        style = style if attempt < 50 else 1            # e.g. duplicated halves cannot hold 4 groups in 6 rows
        sf = rng.integers(0, G, n)
        if style == 3:                                  # one single-member group
            sf = rng.integers(0, G - 1, n); sf[int(rng.integers(0, n))] = G - 1
        x = np.where(rng.random(n) < 0.6, sf % k, rng.integers(0, k, n))
        y = np.where(rng.random(n) < 0.7, x % 2, rng.integers(0, 2, n))
        if style == 2 and n >= 6:                       # duplicated rows -> ties
            h = n // 2
            x[h:2 * h], y[h:2 * h], sf[h:2 * h] = x[:h], y[:h], sf[:h]
        if len(set(sf.tolist())) == G and len(set(y.tolist())) == 2:
            return k, tuple(int(v) for v in x), tuple(int(v) for v in y), tuple(int(v) for v in sf)


def _cases(seed, gmax, per_cfg, pool_size):
    rng = np.random.default_rng(seed)
    pool = [_dataset(rng) for _ in range(pool_size)]
    kinds = [(mi, bi) for mi in range(len(E.MOMENTS)) for bi in range(len(PARITY_BOUNDS))] + [("BGL", 0)] * 3
    out = []
    for gsz, (mi, bi), gl, cw in itertools.product(range(2, gmax + 1), kinds, GRID_LIMITS, CWS):
        for _ in range(per_cfg):
            k, x, y, sf = pool[int(rng.integers(0, pool_size))]
            if mi == "BGL":                             # real-valued labels, deterministic in the seed
                y = tuple(YVALS[int(v)] for v in rng.integers(0, len(YVALS), len(y)))
                y = y if len(set(y)) > 1 else (1.0 - y[0],) + y[1:]          # constant real labels: see EDGE
            out.append((k, x, y, sf, mi, bi, gsz, gl, cw, int(rng.integers(0, 3)), bool(rng.integers(0, 2))))
    order = np.random.default_rng(seed + 1).permutation(len(out))
    return EDGE + [out[i] for i in order]


def _group_loss(y, groups, pred):
    return {g: sum((y[i] - pred[i]) ** 2 for i in range(len(y)) if groups[i] == g) / sum(1 for v in groups if v == g) for g in sorted(set(groups), key=str)}


def _check(case):
    import logging
    import warnings
    warnings.filterwarnings("ignore")
    logging.disable(logging.CRITICAL)
    from fairlearn.reductions import BoundedGroupLoss, GridSearch, SquareLoss
    k, x, y, sf, mi, bi, gsz, gl, cw, fmt, strings = case
    bgl = mi == "BGL"
    moment = "BoundedGroupLoss" if bgl else E.MOMENTS[mi]
    kw = {"upper_bound": 0.2} if bgl else PARITY_BOUNDS[bi]
    ratio = 1.0 if bgl else E.bound_of(kw)[0]
    X, Y, S, groups = E.make_inputs(x, y, sf, fmt, strings)
    gmap = {str(g): g for g in groups}
    n = len(y)
    fp = fingerprint(case)
    replay = {"k": k, "x": list(x), "y": list(y), "sensitive_features": list(groups), "moment": moment, "moment_kwargs": kw, "grid_size": gsz, "grid_limit": gl,
              "constraint_weight": cw, "container_format": fmt, "learner": "vf.bounded._exactlearner." + ("CellMeans(k)" if bgl else "Exact(k)")}
    desc = f"{moment}({kw}) grid_size={gsz} grid_limit={gl} constraint_weight={cw} k={k} x={list(x)} y={list(y)} sf={list(groups)} fmt={fmt}"

    def viol(which, what, **extra):
        return (True, fp, (f"C09:{which}", f"{what} on {desc}", {**replay, **extra}))
    try:
        cons = BoundedGroupLoss(SquareLoss(0, 1), upper_bound=0.2) if bgl else E.moment_cls(moment)(**kw)
        gs = GridSearch(E.CellMeans(k) if bgl else E.Exact(k), cons, grid_size=gsz, grid_limit=gl, constraint_weight=cw)
        gs.fit(X, Y, sensitive_features=S)
        L, Gm, raw_obj, best = gs.lambda_vecs_, gs.gammas_, list(gs.objectives_), gs.best_idx_
        raw_preds = [np.asarray(p.predict(X)) for p in gs.predictors_]
    except Exception as ex:
        if bgl and len(set(y)) == 1 and "DummyClassifier" in str(ex):      # regression with constant labels: DummyClassifier(constant=<numpy float>) is rejected by sklearn
            return viol("fit:raises:constant-real-labels", f"fit raised {type(ex).__name__}: {str(ex)[:110]}")
        return viol("fit:raises", f"fit/observation raised {type(ex).__name__}: {str(ex)[:120]}")

    todict = (lambda sr: {gmap[str(g)]: float(v) for g, v in sr.items()}) if bgl else (lambda sr: E.series_to_dict(sr, gmap))
    lams = [todict(L.iloc[:, j]) for j in range(L.shape[1])]
    rec_gam = [todict(Gm.iloc[:, j]) for j in range(Gm.shape[1])]
    rec_obj = [float(v) for v in raw_obj]
    preds = [[float(v) for v in p.ravel()] for p in raw_preds]

    # ---- the grid
    if not (len(lams) == len(preds) == len(rec_obj) == len(rec_gam) == gsz):
        return viol("grid:count", f"{len(lams)} multiplier vectors, {len(preds)} predictors, {len(rec_obj)} objectives, {len(rec_gam)} gamma columns for grid_size={gsz}")
    fgam = (lambda p: _group_loss(y, groups, p)) if bgl else (lambda p: E.parity_gamma(moment, ratio, y, groups, p))
    ferr = (lambda p: sum((a - b) ** 2 for a, b in zip(y, p)) / n) if bgl else (lambda p: E.error_rate(y, p))
    keys = sorted(fgam(preds[0]), key=str)
    if any(set(lam) != set(keys) for lam in lams) or any(set(gm) != set(keys) for gm in rec_gam):
        return viol("grid:index", f"index of lambda_vecs_/gammas_ {sorted(lams[0], key=str)} is not the constraint set {keys}")
    for j, lam in enumerate(lams):
        if any(not v >= 0 for v in lam.values()):
            return viol("grid:negative", f"lambda_vecs_ column {j} = {lam} has a negative (or NaN) entry")
        if sum(lam.values()) > gl * (1 + 1e-9):
            return viol("grid:L1", f"lambda_vecs_ column {j} has L1 norm {sum(lam.values())!r} > grid_limit {gl}")
    deferred = None
    if len({tuple(round(lam[q], 12) for q in keys) for lam in lams}) != gsz:
        dup = [j for j in range(gsz) if any(all(abs(lams[j][q] - lams[i][q]) < 1e-12 for q in keys) for i in range(j))]
        cells = {(q[1], q[2]) for q in keys} if not bgl else set()
        empty = sorted(((e, g) for e in {c[0] for c in cells} for g in set(groups) if (e, g) not in cells), key=str)
        deferred = viol("grid:duplicates:empty-event-group-cell" if empty else "grid:duplicates",
                        f"lambda_vecs_ columns {dup} repeat earlier columns ({gsz - len(dup)} distinct of {gsz}; (event, group) cells without rows: {empty})", duplicate_columns=dup)
        if not empty:
            return deferred

    # ---- per grid point: best response and recorded values
    Hpred = None if bgl else [[t[v] for v in x] for t in E.all_tables(k)]
    fp_obj, fp_gam = [], []
    for j, (lam, p) in enumerate(zip(lams, preds)):
        err, gam = ferr(p), fgam(p)
        fp_obj.append(err); fp_gam.append(gam)
        if bgl:
            c = [lam[groups[i]] / sum(1 for v in groups if v == groups[i]) for i in range(n)]       # lambda.gamma(f) = sum_i c_i (y_i - f(x_i))^2
            mine, opt = sum(c[i] * (y[i] - p[i]) ** 2 for i in range(n)), 0.0
            for v in set(x):
                rows = [i for i in range(n) if x[i] == v]
                cw_ = sum(c[i] for i in rows)
                m = sum(c[i] * y[i] for i in rows) / cw_ if cw_ > 0 else 0.0
                opt += sum(c[i] * (y[i] - m) ** 2 for i in rows)
        else:
            mine = err + sum(lam[q] * gam[q] for q in keys)
            opt = min(E.error_rate(y, hp) + sum(lam[q] * v for q, v in E.parity_gamma(moment, ratio, y, groups, hp).items()) for hp in Hpred)
        if mine > opt + TOL:
            return viol("best-response", f"predictor {j} has objective+lambda.gamma = {mine!r}, the minimum over the class is {opt!r} (lambda = {lam})", grid_point=j)
        if abs(rec_obj[j] - err) > TOL:
            return viol("recorded:objective", f"objectives_[{j}] = {rec_obj[j]!r} but predictor {j}'s predictions have {err!r}", grid_point=j)
        bad = [q for q in keys if abs(rec_gam[j][q] - gam[q]) > TOL]
        if bad:
            return viol("recorded:gamma", f"gammas_ column {j} entry {bad[0]} = {rec_gam[j][bad[0]]!r} but predictor {j}'s predictions have {gam[bad[0]]!r}", grid_point=j)

    # ---- selection
    loss = [(1 - cw) * fp_obj[j] + cw * max(fp_gam[j].values()) for j in range(gsz)]
    if not (isinstance(best, (int, np.integer)) and 0 <= best < gsz):
        return viol("best_idx:range", f"best_idx_ = {best!r}")
    if loss[best] > min(loss) + TOL:
        return viol("best_idx:not-argmin", f"best_idx_={best} has tradeoff loss {loss[best]!r}, predictor {int(np.argmin(loss))} has {min(loss)!r}", losses=loss)
    rloss = [(1.0 - cw) * rec_obj[j] + cw * max(rec_gam[j].values()) for j in range(gsz)]
    if any(rloss[j] <= rloss[best] for j in range(best)):
        return viol("best_idx:not-first-minimum", f"best_idx_={best} but an earlier predictor has the same (recorded) tradeoff loss {rloss[best]!r}: {rloss[:best]}", losses=rloss)

    # ---- delegation: spies on the stored predictor objects
    calls, tokens = [], {}
    for j, p in enumerate(gs.predictors_):
        for meth in ("predict", "predict_proba"):
            tokens[(meth, j)] = object()
            setattr(p, meth, lambda X_, j=j, meth=meth: (calls.append((meth, j, X_)), tokens[(meth, j)])[1])
    Xq = np.array([[float(v)] for v in range(k)] + [[0.0]])
    for meth in ("predict", "predict_proba"):
        del calls[:]
        try:
            out = getattr(gs, meth)(Xq)
        except Exception as ex:
            return viol(f"{meth}:raises", f"{meth} raised {type(ex).__name__}: {str(ex)[:120]}")
        if out is not tokens[(meth, best)] or [(c[0], c[1]) for c in calls] != [(meth, best)] or not (calls[0][2] is Xq or np.array_equal(np.asarray(calls[0][2]), Xq)):
            return viol(f"{meth}:delegation", f"GridSearch.{meth} did not return predictors_[{best}].{meth}(X) for the X it was given (calls made: {[(c[0], c[1]) for c in calls]})")
    if deferred is not None:          # the rest held; report the duplicate grid points
        return deferred
    distinct_preds = len({tuple(p) for p in preds})
    return (distinct_preds > 1, fp, None)


def run_bounded(rep):
    rep.assume("A1")
    gmax, per_cfg, pool = (14, 2, 60) if rep.tier == "quick" else (60, 2, 400)
    cases = _cases(rep.seed, gmax, per_cfg, pool)
    run_cases(rep, "gridsearch_exact_learner_rtc",
              rule="grid_size 2..%d x {5 parity moments x (difference, ratio .8, ratio .6+slack), BoundedGroupLoss(SquareLoss) x3} x grid_limit{.5,2,3} x constraint_weight"
                   "{0,.3,.5,1}, each on %d dataset(s) from a seeded pool of %d (n 4..13, k 2-3 feature values, 2-4 groups, empty group x label cells, single-member "
                   "groups, duplicated rows), 3 container formats, int/string group labels; exact learners (all 2^k functions / weighted cell means); non-trivial = the "
                   "grid produced at least two different predictors; distinct by full case" % (gmax, per_cfg, pool),
              bound=f"n <= 13, k <= 3, groups <= 4, grid_size <= {gmax}", cases=cases, check_case=_check, exhaustive=False)
