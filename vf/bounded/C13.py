"""C13 bounded stand-in (labelled bounded, never counted as proved): several sensitive / control columns group rows by tuple equality.

Oracle (first principles): two rows are in the same group iff str(value) agrees in every column; a grouping computed by the real code is
correct iff the map  string tuple <-> group key observed on the rows  is a bijection (functional AND injective).  Alphabet {'a', ',', '\\'}
(ordinary character, separator, escape) plus the empty string.

  merge_exhaustive   every tuple of strings of length <= L over the alphabet (2 columns: L = 2 quick / 3 thorough; 3 columns: L = 1 / 2), each
                     tuple against ALL tuples of the same table in one call (so every unordered pair is covered): `_merge_columns` and
                     `_validate_and_reformat_input` (sensitive and control features, container ndarray / DataFrame / list of lists);
                     one call each on the table of ALL tuples of length <= L + 2 (2 columns: 14 641 / 132 496 rows; 3 columns: 64 000 /
                     1 771 561 rows), all keys distinct - the merge is row-wise, so this covers every pair of the larger scope;
                     plus the same over 2 columns of numeric-looking strings ('1', '1.0', '1.00', '01', '1e0', ' 1', '-1', 'nan', 'None', '', 'a') and two
                     65-character strings that differ in the last character
  moment_tables      tables built from pairs of blocks of the same tuple sets (every pair of tuples shares a table) and seeded tables with
                     typed numeric-looking values (ints, floats, digit strings), 2-3 sensitive columns, 0 or 2 control columns, through
                     DemographicParity / EqualizedOdds / TruePositiveRateParity .load_data: per-row group tag, per-row event, group level of
                     `index`, prob_group_event * n == first-principles counts, and == MetricFrame(count).by_group non-empty cells on the
                     stringified columns (MetricFrame's partition into non-empty intersectional groups)
  threshold_tables   the same tables through ThresholdOptimizer.fit (every tuple has both labels and one of three score patterns so that
                     the learned rules differ): interpolation_dict keys == merged keys, one per tuple; _pmf_predict on a predict-time table
                     (other rows, other order, other container, a subset of the tuples) equals, row by row, the probabilities of a
                     ThresholdOptimizer fitted on an injective single-column code of the tuples (code order = key order, so the two runs are
                     bit-comparable): the rule applied at predict time is the one learned for the same tuple
  reductions_codes   ExponentiatedGradient / GridSearch with 2-column sensitive (+ 2-column control) tables of colliding-looking tuples vs
                     the same fit on injective single-column codes: identical _pmf_predict / predict / weights
Non-trivial = the table contains at least two distinct tuples whose naive ','-join coincides or that contain a separator/escape; distinct
by case.  NOT checked: NUL characters and numpy fixed-width truncation (A6), NaN/None values, mixed int/float columns, tuples unseen at fit time.

Sensitivity self-test (scratch copy of /repo, one edit at a time, `VERIF_REPO=<copy> ./check C13 --tier quick --only X`, all reverted):
  edit (fairlearn/utils/_input_validation.py unless noted)                          caught by
  1  backslash no longer escaped (.replace("\\", "\\\\") dropped)                     _merge_columns:collision, moment:group:collision, TO:keys:count
  2  separator no longer escaped                                                     the same + _validate_and_reformat_input:*:collision, moment:event:collision
  3  the two replace calls swapped (separator first, then backslash)                 _merge_columns:collision, moment:group:collision, TO:keys:count
  4  only the FIRST backslash of a value escaped (.replace(.., 1))                   _merge_columns:collision - only by the whole-table case (smallest
                                                                                     collision ('\\\\', ',') / ('\\,\\', '') has a 3-character value); the
                                                                                     length<=2 pair scope alone missed it, which is why that case was added
  5  values stripped before merging (' 1' == '1')                                    _merge_columns:collision (numeric-looking table), moment:group:collision
  6  '' replaced by 'nan' before merging                                             _merge_columns:collision (numeric-looking table only)
  7  third column dropped (row[:2])                                                  _merge_columns:collision (3-column tables), moment:group:collision
  8  astype('U3') / astype('U40') instead of astype(str) (fixed-width truncation)    _merge_columns:collision ('1.0' vs '1.00'; the two 65-character strings)
  9  control features not merged (first column used)                                 _validate_and_reformat_input:control_features:collision, moment:event:collision, gs:gammas_
 10  2-column tables joined naively with ',' (merge only for > 2 columns)            _validate_and_reformat_input:sensitive_features:collision, moment:group:collision, TO:keys:count
 11  utility_parity._combine_event_and_control drops backslashes of the control key  moment:event:collision, eg:_pmf_predict, gs:predict/best_idx_/objectives_/gammas_
 12  _interpolated_thresholder._pmf_predict un-doubles backslashes at predict time   TO:_pmf_predict:row (only symptom: rows of such tuples get another rule)
 13  _interpolated_thresholder._pmf_predict strips the key at predict time           TO:_pmf_predict:row (needs a value with leading/trailing blank: typed tables)
"""
import itertools

import numpy as np
import pandas as pd

from ..report import fingerprint
from . import _containers as K
from .harness import run_cases

ALPHA = ("a", ",", "\\")
NUMLIKE = ("1", "1.0", "1.00", "01", "1e0", " 1", "-1", "nan", "None", "", "a", "a" * 64 + "x", "a" * 64 + "y")


def _strings(L):
    return [""] + ["".join(p) for n in range(1, L + 1) for p in itertools.product(ALPHA, repeat=n)]


def _tuples(space, k, L):
    vals = list(NUMLIKE) if space == "num" else _strings(L)
    return list(itertools.product(vals, repeat=k))


def _as_container(rows, kind, rng=None):
    if kind == "frame":
        idx = None if rng is None else K.odd_index(len(rows), rng)[0]
        return pd.DataFrame({"c%d" % j: [r[j] for r in rows] for j in range(len(rows[0]))}, index=idx)
    if kind == "list_of_lists":
        return [list(r) for r in rows]
    return np.array([list(r) for r in rows], dtype=object)


def _bijection_defect(tuples, keys):
    """None if row-wise tuple <-> key is a bijection, else (kind, description)"""
    t2k, k2t = {}, {}
    for t, k in zip(tuples, keys):
        k = K.py(k)
        if t2k.setdefault(t, k) != k:
            return "split", f"equal tuples {t!r} received different keys {t2k[t]!r} and {k!r}"
        if k2t.setdefault(k, t) != t:
            return "collision", f"different tuples {k2t[k]!r} and {t!r} received the same key {k!r}"
    return None


def _st(row):
    return tuple(str(v) for v in row)


def _viol(fp, key, what, case, extra=None):
    return (True, fp, ("C13:" + key, f"{what} (case {case})", dict({"case": list(case)}, **(extra or {}))))


# ------------------------------------------------------------------ merge, exhaustive
def _check_merge(case):
    from fairlearn.utils._input_validation import _merge_columns, _validate_and_reformat_input
    _, space, k, L, i = case
    T = _tuples(space, k, L)
    rows = [T[i], T[i]] + T          # row 0/1: functionality; rows 2..: every other tuple
    fp = fingerprint(case)
    arr = np.array([list(r) for r in rows], dtype=object)
    try:
        merged = list(_merge_columns(arr))
    except Exception as ex:
        return _viol(fp, "_merge_columns:raises", f"_merge_columns raised {ex!r} on a table containing {T[i]!r}"[:300], case)
    for j, m in enumerate(merged):
        if (m == merged[0]) != (rows[j] == T[i]):
            kind = "collision" if m == merged[0] else "split"
            return _viol(fp, f"_merge_columns:{kind}", f"_merge_columns maps {T[i]!r} -> {merged[0]!r} and {rows[j]!r} -> {m!r}", case,
                         {"tuple_1": list(T[i]), "tuple_2": list(rows[j]), "merged_1": str(merged[0]), "merged_2": str(m)})
    kinds = ("ndarray2d", "frame", "list_of_lists")
    n = len(rows)
    try:
        _, _, sf, cf = _validate_and_reformat_input(np.zeros((n, 1)), None, expect_y=False, sensitive_features=_as_container(rows, kinds[i % 3]),
                                                    control_features=_as_container(rows, kinds[(i // 3) % 3]))
    except Exception as ex:
        return _viol(fp, "_validate_and_reformat_input:raises", f"_validate_and_reformat_input raised {ex!r} on a table containing {T[i]!r}"[:300], case)
    for name, col in (("sensitive_features", list(sf)), ("control_features", list(cf))):
        for j, m in enumerate(col):
            if (m == col[0]) != (rows[j] == T[i]):
                kind = "collision" if m == col[0] else "split"
                return _viol(fp, f"_validate_and_reformat_input:{name}:{kind}", f"{name} {T[i]!r} -> {col[0]!r} and {rows[j]!r} -> {m!r}", case,
                             {"tuple_1": list(T[i]), "tuple_2": list(rows[j])})
    return (any(c in s for s in T[i] for c in ",\\") or space == "num", fp, None)


def _check_mergeall(case):
    """one call on the table of ALL tuples: the merge is row-wise, so distinct keys for distinct rows covers every pair"""
    from fairlearn.utils._input_validation import _merge_columns, _validate_and_reformat_input
    _, k, L = case
    T = _tuples("alpha", k, L)
    fp = fingerprint(case)
    arr = np.array([list(t) for t in T], dtype=object)
    try:
        cols = {"_merge_columns": list(_merge_columns(arr))}
        _, _, sf, cf = _validate_and_reformat_input(np.zeros((len(T), 1)), None, expect_y=False, sensitive_features=arr[::-1], control_features=pd.DataFrame(arr))
        cols["_validate_and_reformat_input:sensitive_features"], cols["_validate_and_reformat_input:control_features"] = list(sf)[::-1], list(cf)
    except Exception as ex:
        return _viol(fp, "_merge_columns:raises", f"merging the table of all {len(T)} tuples raised {ex!r}"[:300], case)
    for name, col in cols.items():
        seen = {}
        for t, m in zip(T, col):
            if seen.setdefault(m, t) != t:
                return _viol(fp, f"{name}:collision", f"{name} maps {seen[m]!r} and {t!r} to the same key {m!r}", case, {"tuple_1": list(seen[m]), "tuple_2": list(t), "merged": str(m)})
    return (True, fp, None)


# ------------------------------------------------------------------ tables for moments / ThresholdOptimizer
CF_TUPLES = [("a,", "b"), ("a", ",b"), ("a\\", ",b"), ("a", "\\,b"), ("", ","), (",", "")]
TYPED = [["1", 1, "01", "", "1.0", ",", " 1", "1 "], [1.0, 0.5, 2.0], [0, 1, 10], ["a", "A", "a,", "\\", "1", 1, "1,", "a "]]


def _table(case, rng):
    """(list of sensitive tuples (one per group), list of control tuples or None)"""
    if case[1] == "blocks":
        _, _, k, L, bs, bi, bj = case[:7]
        T = _tuples("alpha", k, L)
        groups = T[bi * bs:(bi + 1) * bs] + (T[bj * bs:(bj + 1) * bs] if bj != bi else [])
    elif case[1] == "ws":
        # tuples that differ only by leading / trailing white space in one column (numpy's char comparisons strip trailing white space)
        k = case[2]
        variants = ["x", "x ", " x", "x\t", "x\n", "", " "]
        pick = [variants[i] for i in rng.permutation(len(variants))[: int(rng.integers(3, 6))]]
        col = int(rng.integers(0, k))
        groups = [tuple(v if c == col else "a" for c in range(k)) for v in pick]
    else:
        k = case[2]
        pools = [TYPED[int(rng.integers(len(TYPED)))] for _ in range(k)]
        if TYPED[1] in pools and TYPED[2] in pools:     # an int-only next to a float-only column is upcast by pandas/numpy themselves
            pools = [TYPED[0] if p is TYPED[2] else p for p in pools]
        groups = list({tuple(p[int(rng.integers(len(p)))] for p in pools) for _ in range(int(rng.integers(3, 9)))})
        groups.sort(key=repr)
    cfs = None
    if case[-1] % 3 == 0:
        cfs = [CF_TUPLES[i] for i in rng.permutation(len(CF_TUPLES))[: int(rng.integers(2, 4))]]
    return groups, cfs


def _rows(groups, cfs, rng, both_labels):
    """rows (sf tuple, cf tuple or None, y, score); with both_labels every sf tuple gets labels 0 and 1 and one of three score patterns"""
    pats = [[(0.9, 1), (0.1, 0)], [(0.9, 0), (0.1, 1)], [(0.9, 1), (0.6, 0), (0.4, 1), (0.1, 0)]]
    rows = []
    for gi, g in enumerate(groups):
        if both_labels:
            for sc, y in pats[gi % 3]:
                rows.append((g, None, y, sc))
        else:
            for r in range(1 + (gi % 2)):
                rows.append((g, None if cfs is None else cfs[(gi + r) % len(cfs)], (gi + r) % 2, 0.5))
    if not both_labels and len({r[2] for r in rows}) < 2:
        rows.append((rows[0][0], rows[0][1], 1 - rows[0][2], 0.5))
    return [rows[i] for i in rng.permutation(len(rows))]


def _check_moment(case):
    import fairlearn.reductions as red
    from fairlearn.metrics import MetricFrame, count
    rng = np.random.default_rng(case[-2])
    fp = fingerprint(case)
    groups, cfs = _table(case, rng)
    rows = _rows(groups, cfs, rng, False)
    n = len(rows)
    sft, y = [_st(r[0]) for r in rows], [r[2] for r in rows]
    cft = None if cfs is None else [_st(r[1]) for r in rows]
    kinds = ("ndarray2d", "frame", "list_of_lists")
    sf_obj = _as_container([r[0] for r in rows], kinds[case[-1] % 3], rng)
    cf_obj = None if cfs is None else _as_container([r[1] for r in rows], kinds[(case[-1] // 3) % 3], rng)
    mname = ("DemographicParity", "EqualizedOdds", "TruePositiveRateParity")[case[-1] % 3]
    info = {"moment": mname, "sensitive_rows": [list(map(repr, r[0])) for r in rows][:40], "control_rows": None if cfs is None else [list(r[1]) for r in rows][:40], "y": y[:40]}
    m = getattr(red, mname)()
    try:
        m.load_data(np.zeros((n, 1)), y, sensitive_features=sf_obj, control_features=cf_obj)
        gid, ev = list(m.tags["group_id"]), list(m.tags["event"])
        pge = {(K.py(e), K.py(g)): float(v) * n for (e, g), v in m.prob_group_event.items()}
        idx_groups = {K.py(t[2]) for t in m.index}
    except Exception as ex:
        return _viol(fp, f"{mname}:raises", f"{mname}.load_data raised {ex!r} on sensitive tuples {groups[:6]!r}..."[:400], case, info)
    bad = _bijection_defect(sft, gid)
    if bad:
        return _viol(fp, f"moment:group:{bad[0]}", f"{mname}.load_data group tags: {bad[1]}", case, info)
    # events: rows outside the conditioned label class have no event; otherwise event <-> (control tuple, label class) is a bijection
    label_in_event = mname != "DemographicParity"
    act = [i for i in range(n) if not (mname == "TruePositiveRateParity" and y[i] == 0)]
    if any(pd.notna(ev[i]) for i in range(n) if i not in act) or any(pd.isna(ev[i]) for i in act):
        return _viol(fp, "moment:event-null", f"{mname}: null events do not coincide with the rows outside the conditioned class", case, info)
    if idx_groups != {gid[i] for i in act} or len(idx_groups) != len({sft[i] for i in act}):
        return _viol(fp, "moment:index-groups", f"{mname}.index has {len(idx_groups)} groups for {len({sft[i] for i in act})} distinct tuples", case, info)
    bad = _bijection_defect([((cft[i] if cft else ()), (y[i] if label_in_event else 0)) for i in act], [ev[i] for i in act])
    if bad:
        return _viol(fp, f"moment:event:{bad[0]}", f"{mname}.load_data events vs (control tuple, label): {bad[1]}", case, info)
    want = {}
    for i in act:
        want[(ev[i], gid[i])] = want.get((ev[i], gid[i]), 0) + 1
    if set(want) != set(pge) or any(abs(want[k] - pge[k]) > 1e-6 for k in want):
        return _viol(fp, "moment:prob_group_event", f"{mname}.prob_group_event*n = {sorted(pge.items())[:4]} but first-principles counts are {sorted(want.items())[:4]}", case, info)
    # MetricFrame's partition into non-empty intersectional groups on the stringified columns
    k = len(sft[0])
    try:
        mf = MetricFrame(metrics=count, y_true=y, y_pred=y, sensitive_features=pd.DataFrame({"s%d" % j: [t[j] for t in sft] for j in range(k)}),
                         control_features=None if cft is None else pd.DataFrame({"c%d" % j: [t[j] for t in cft] for j in range(2)}))
        cells = {K._key(i): int(v) for i, v in mf.by_group.items() if pd.notna(v) and v > 0}
    except Exception as ex:
        return _viol(fp, "MetricFrame:raises", f"MetricFrame on the stringified columns raised {ex!r}"[:300], case, info)
    fpc = {}
    for i in range(n):
        kk = (cft[i] if cft else ()) + sft[i]
        fpc[kk] = fpc.get(kk, 0) + 1
    if cells != fpc:
        return _viol(fp, "MetricFrame:partition", f"MetricFrame non-empty groups {sorted(cells.items())[:3]} differ from first-principles tuple counts {sorted(fpc.items())[:3]}", case, info)
    if mname == "DemographicParity":      # same partition, same sizes: (control tuple, sensitive tuple) cells <-> (event, group) cells
        mom = {}
        for i in range(n):
            mom.setdefault((ev[i], gid[i]), set()).add((cft[i] if cft else ()) + sft[i])
        if any(len(v) != 1 for v in mom.values()) or {next(iter(v)): int(round(pge[kk])) for kk, v in mom.items()} != cells:
            return _viol(fp, "moment:partition-vs-MetricFrame", f"{mname} partition differs from MetricFrame's non-empty intersectional groups", case, info)
    # the constraint VALUES use the same partition: gamma[(+, e, g)] = mean of h over the rows of (event e, group g) minus mean of h over the rows of event e,
    # with the groups taken by tuple equality from the raw rows (a predictor that separates the rows: h_i = 1 for every third row, 0.5 for the next)
    h = np.array([(1.0, 0.5, 0.0)[i % 3] for i in range(n)])
    try:
        gam = m.gamma(lambda X_: h)
    except Exception as ex:
        return _viol(fp, f"{mname}:gamma-raises", f"{mname}.gamma raised {ex!r}"[:300], case, info)
    rows_of = {}
    for i in act:
        rows_of.setdefault((ev[i], gid[i]), []).append(i)
    for (e, g), idxs in rows_of.items():
        ev_rows = [i for i in act if ev[i] == e]
        want_g = float(np.mean(h[idxs]) - np.mean(h[ev_rows]))
        try:
            got_g = float(gam[("+", e, g)])
        except Exception:
            return _viol(fp, "moment:gamma-index", f"{mname}.gamma has no entry ('+', {e!r}, {g!r})", case, info)
        if abs(got_g - want_g) > 1e-9:
            return _viol(fp, "moment:gamma-value", f"{mname}.gamma[('+', {e!r}, {g!r})] = {got_g!r} but the rows carrying exactly that (event, sensitive tuple) give {want_g!r} "
                         f"(tuple {sft[idxs[0]]!r}, {len(idxs)} row(s))", case, info)
    return (len(set(sft)) > 1, fp, None)


def _rank_codes(tuples, keys):
    order = {k: r for r, k in enumerate(sorted(set(keys)))}
    return ["g%05d" % order[k] for k in keys]


def _check_to(case):
    from fairlearn.postprocessing import ThresholdOptimizer
    from fairlearn.utils._input_validation import _validate_and_reformat_input
    rng = np.random.default_rng(case[-2])
    fp = fingerprint(case)
    groups, _ = _table(case, rng)
    rows = _rows(groups, None, rng, True)
    n = len(rows)
    sft, y = [_st(r[0]) for r in rows], [r[2] for r in rows]
    X = np.array([[r[3], 0.0] for r in rows])
    kinds = ("ndarray2d", "frame", "list_of_lists")
    cons = ("demographic_parity", "equalized_odds", "true_positive_rate_parity")[case[-1] % 3]
    info = {"constraints": cons, "sensitive_rows": [list(map(repr, r[0])) for r in rows][:40], "y": y[:40], "scores": [r[3] for r in rows][:40]}
    try:
        t = ThresholdOptimizer(estimator=K.ColScore(), constraints=cons, predict_method="predict", grid_size=40, flip=bool(case[-1] % 2))
        t.fit(X, y, sensitive_features=_as_container([r[0] for r in rows], kinds[case[-1] % 3], rng))
        keys = [K.py(k) for k in t.interpolated_thresholder_.interpolation_dict]
    except Exception as ex:
        return _viol(fp, "TO:raises", f"ThresholdOptimizer.fit raised {ex!r} on sensitive tuples {groups[:6]!r}..."[:400], case, info)
    if len(keys) != len(set(sft)):
        return _viol(fp, "TO:keys:count", f"ThresholdOptimizer learned {len(keys)} rules for {len(set(sft))} distinct tuples (keys {keys[:6]})", case, info)
    rowkeys = list(_validate_and_reformat_input(X, y, sensitive_features=np.array([list(r[0]) for r in rows], dtype=object))[2])
    bad = _bijection_defect(sft, rowkeys)
    if bad or set(rowkeys) != set(keys):
        return _viol(fp, "TO:keys", f"interpolation_dict keys are not in bijection with the tuples: {bad[1] if bad else sorted(set(keys) ^ set(rowkeys))[:4]}", case, info)
    codes = _rank_codes(sft, rowkeys)
    ref = ThresholdOptimizer(estimator=K.ColScore(), constraints=cons, predict_method="predict", grid_size=40, flip=bool(case[-1] % 2)).fit(X, y, sensitive_features=codes)
    # predict-time table: rows of about 2/3 of the tuples, new order, new scores, another container
    gno = {g: j for j, g in enumerate(sorted(set(sft)))}
    sel = [int(i) for i in rng.permutation(n) if gno[sft[i]] % 3 != 1 or n < 6]
    Xp = np.array([[float(rng.choice([0.05, 0.1, 0.3, 0.5, 0.6, 0.75, 0.9, 0.95])), 1.0] for _ in sel])
    try:
        got = np.asarray(t._pmf_predict(Xp, sensitive_features=_as_container([rows[i][0] for i in sel], kinds[(case[-1] + 1) % 3], rng)))
    except Exception as ex:
        return _viol(fp, "TO:_pmf_predict:raises", f"_pmf_predict raised {ex!r}"[:300], case, info)
    exp = np.asarray(ref._pmf_predict(Xp, sensitive_features=[codes[i] for i in sel]))
    for r, i in enumerate(sel):
        if not (K.val_close(float(got[r, 1]), float(exp[r, 1])) and K.val_close(float(got[r, 0]), float(exp[r, 0]))):
            return _viol(fp, "TO:_pmf_predict:row", f"row with tuple {rows[i][0]!r}, score {Xp[r, 0]}: P(1) = {got[r, 1]!r} but the rule learned for this tuple gives {exp[r, 1]!r}", case,
                         dict(info, predict_rows=[list(map(repr, rows[j][0])) for j in sel][:40], predict_scores=[float(v) for v in Xp[:, 0]][:40]))
    return (len(set(sft)) > 1, fp, None)


EG_TUPLES = [("a,", "b"), ("a", ",b"), ("a\\", ",b"), ("a", "\\,b"), ("a\\,", "b"), ("", "a,b"), ("a,b", "")]


def _check_reduction(case):
    import fairlearn.reductions as red
    from fairlearn.utils._input_validation import _validate_and_reformat_input
    rng = np.random.default_rng(case[-2])
    fp = fingerprint(case)
    n = int(rng.integers(8, 15))
    gs = [EG_TUPLES[i] for i in rng.permutation(len(EG_TUPLES))[:3]]
    cs = [CF_TUPLES[i] for i in rng.permutation(4)[:2]] if case[-1] % 2 else None
    sf = [gs[i % 3] for i in rng.permutation(n)]
    cf = None if cs is None else [cs[int(v)] for v in rng.integers(0, 2, n)]
    y = [int(v) for v in rng.permutation([0, 1] * n)[:n]]
    X = rng.choice([0.0, 0.25, 0.5, 0.75, 1.0], size=(n, 2))
    info = {"sensitive_rows": [list(t) for t in sf], "control_rows": None if cf is None else [list(t) for t in cf], "y": y, "X": X.tolist()}
    _, _, ksf, kcf = _validate_and_reformat_input(X, y, sensitive_features=np.array(sf, dtype=object), control_features=None if cf is None else np.array(cf, dtype=object))
    for nm, tp, ks in (("sensitive", sf, ksf), ("control", cf, kcf)):
        bad = None if tp is None else _bijection_defect(tp, list(ks))
        if bad:
            return _viol(fp, f"_validate_and_reformat_input:{nm}_features:{bad[0]}", bad[1], case, info)
    csf, ccf = _rank_codes(sf, list(ksf)), None if cf is None else _rank_codes(cf, list(kcf))
    kinds = ("ndarray2d", "frame", "list_of_lists")
    which = case[1]
    mname = ("DemographicParity", "EqualizedOdds", "ErrorRateParity")[case[-1] % 3]
    res = []
    for a, b in ((_as_container(sf, kinds[case[-1] % 3], rng), None if cf is None else _as_container(cf, kinds[(case[-1] + 1) % 3], rng)), (csf, ccf)):
        try:
            if which == "eg":
                e = red.ExponentiatedGradient(K.Stump(), getattr(red, mname)(), max_iter=6).fit(X, y, sensitive_features=a, control_features=b)
                res.append({"_pmf_predict": K.flat(np.asarray(e._pmf_predict(X))), "weights_": K.flat(e.weights_), "n_oracle_calls_": K.flat(e.n_oracle_calls_)})
            else:
                e = red.GridSearch(K.Stump(), getattr(red, mname)(), grid_size=5)
                e.fit(X, y, sensitive_features=a, control_features=b)
                res.append({"predict": K.flat(np.asarray(e.predict(X))), "best_idx_": K.flat(e.best_idx_), "objectives_": K.flat(list(e.objectives_)),
                            "gammas_": K.flat(e.gammas_.reset_index(drop=True))})
        except Exception as ex:
            return _viol(fp, f"{which}:raises", f"{which} fit with {mname} raised {ex!r} ({'tuple table' if not res else 'codes'})"[:300], case, info)
    for part in res[0]:
        diff = K.first_diff(res[0][part], res[1][part])
        if diff:
            return _viol(fp, f"{which}:{part}", f"{which}({mname}) fitted on the tuple table differs from the fit on injective codes in {part} ({diff})", case, info)
    return (True, fp, None)


CHECKS = {"merge": _check_merge, "mergeall": _check_mergeall, "moment": _check_moment, "to": _check_to, "red": _check_reduction}


def _check(case):
    import logging
    logging.disable(logging.WARNING)
    return CHECKS[case[0]](case)


def replay(data):
    case = data.get("replay", {}).get("case")
    if not case or case[0] not in CHECKS:
        return None
    r = _check(tuple(case))
    print("replayed case", case, "->", "no violation" if r[2] is None else f"VIOLATION {r[2][0]}: {r[2][1]}")
    return 1 if r[2] is not None else 0


def _block_cases(kind, k, L, bs, seed):
    nb = -(-len(_tuples("alpha", k, L)) // bs)
    out = []
    for bi in range(nb):
        for bj in range(bi, nb):
            out.append((kind, "blocks", k, L, bs, bi, bj, seed + len(out), len(out)))
    return out


def run_bounded(rep):
    rep.assume("A2", "A6")
    q = rep.tier == "quick"
    L2, L3 = (2, 1) if q else (3, 2)
    cases = [("merge", "alpha", 2, L2, i) for i in range(len(_tuples("alpha", 2, L2)))] + \
            [("merge", "alpha", 3, L3, i) for i in range(len(_tuples("alpha", 3, L3)))] + \
            [("merge", "num", 2, 0, i) for i in range(len(NUMLIKE) ** 2)] + \
            [("mergeall", 2, L2 + 2), ("mergeall", 3, L3 + 2)]
    run_cases(rep, "merge_exhaustive",
              rule=f"every tuple of strings of length <= {L2} (2 columns) / <= {L3} (3 columns) over {{'a', ',', '\\\\'}} plus '' and every pair of {len(NUMLIKE)} "
                   "numeric-looking strings, each compared with ALL tuples of its table (all unordered pairs) through _merge_columns and "
                   f"_validate_and_reformat_input (sensitive + control, 3 containers); plus ONE call each on the table of all tuples of length <= {L2 + 2} "
                   f"(2 columns) / <= {L3 + 2} (3 columns) with all keys required distinct (row-wise merge: covers every pair); non-trivial = the tuple contains ',' or '\\\\' or is numeric-looking",
              bound=f"string length <= {L2 + 2} (2 columns) / {L3 + 2} (3 columns), alphabet of 3 characters + empty string", cases=cases, check_case=_check, exhaustive=True)
    s0 = rep.seed * 1000003
    for name, kind, text in (("moment_tables", "moment", "moments' load_data (group tags, events, index, prob_group_event) and MetricFrame's non-empty groups"),
                             ("threshold_tables", "to", "ThresholdOptimizer fit keys and per-row _pmf_predict vs a fit on injective codes")):
        bs2 = 45 if q else 100
        cases = _block_cases(kind, 2, L2, bs2, s0) + _block_cases(kind, 3, L3, 32 if q else 120, s0 + 50000) + \
            [(kind, "typed", 2 + i % 2, s0 + 90000 + i, i) for i in range(240 if q else 1000)] + \
            [(kind, "ws", 2 + i % 2, s0 + 95000 + i, i) for i in range(24 if q else 120)]
        run_cases(rep, name,
                  rule=f"{text}; tables = unions of two blocks of the exhaustive tuple sets (every pair of tuples of length <= {L2}/{L3} shares a table) and seeded "
                       "tables of typed numeric-looking values; control tuples from 6 colliding-looking pairs; non-trivial = >= 2 distinct tuples; distinct by case",
                  bound=f"string length <= {L2} (2 col) / {L3} (3 col); <= {2 * bs2} groups per table", cases=cases, check_case=_check, exhaustive=False)
    cases = [("red", w, s0 + 70000 + i, i) for i in range(60 if q else 300) for w in ("eg", "gs")]
    run_cases(rep, "reductions_codes",
              rule="ExponentiatedGradient / GridSearch (exact stump learner) on 2-column sensitive (+ control) tables of 3 of 7 colliding-looking tuples vs the same "
                   "fit on injective single-column codes; distinct by seed", bound="n <= 14, 3 sensitive tuples, 2 control tuples", cases=cases, check_case=_check)
