"""C12 bounded stand-in (labelled bounded, never counted as proved): rows are matched by position.

Scope.  Seeded small datasets (n = 6..12, 2-3 groups, optional second sensitive column, optional control feature, weights, two feature
columns with ties).  Every public result is computed twice by the REAL code - once from plain lists (ndarray for X, dict of lists for a
2-column feature table) and once from a random combination of accepted containers per argument (list, ndarray, ndarray (n,1), unnamed /
named Series, single-column DataFrame with a named column or with the default column label 0; 2-column features: DataFrame, object ndarray, dict of arrays / lists, list of
lists) whose pandas objects carry independently chosen index labels (permutation of 0..n-1, offset, all equal, pairwise equal, strings,
reversed).  The oracle is the property itself: the two calls must agree (index entries compared as python values, level / column names
ignored because the containers legitimately name them, floats to 1e-9).

  metricframe      MetricFrame(by_group, overall, group_min/max, difference and ratio, both methods), dict of 4 metrics with two different
                   sample_weight columns or a single callable; 3 container variants per dataset
  named_metrics    the _difference/_ratio/_group_min/_group_max functions of fairlearn.metrics (both methods, sample_weight)
  permutation      joint row permutation: MetricFrame results and named metrics unchanged
  bijection        group labels renamed by an order-changing bijection (per feature): by_group / overall index entries renamed, every
                   value and aggregate unchanged; for the parity moments (no control feature) gamma is re-keyed, signed_weights unchanged
  moments          DemographicParity, TruePositiveRateParity, FalsePositiveRateParity, EqualizedOdds, ErrorRateParity (with control features),
                   ErrorRate, BoundedGroupLoss: index, gamma(h), signed_weights(lambda), bound, event/group probabilities, row tags
  reductions       ExponentiatedGradient / GridSearch .fit with a deterministic learner (exact weighted decision stump):
                   weights_, _pmf_predict, predict(random_state), lambda vectors, gammas, objectives, best_idx_
  threshold_opt    ThresholdOptimizer.fit for every supported constraint/objective: interpolation_dict, _pmf_predict and predict with the
                   predict-time containers chosen independently of the fit-time ones (every group has both labels)
  dict_of_series   MetricFrame with sensitive_features = dict of pandas Series carrying different index labels (own key, see below)

Non-trivial = at least one pandas container with non-positional labels took part; distinct by seed.
Bounds: quick ~1400 datasets, thorough ~9000; n <= 12, <= 3 groups per column, <= 2 sensitive + 1 control column.
NOT checked: estimators whose predict returns label-carrying pandas objects (A7); X given as a list; bootstrap results; regression
moments other than BoundedGroupLoss(ZeroOneLoss); AdversarialFairness*; sklearn learners with floating-point scores (see below).

Known finding of this stand-in on the unchanged tree (own key, own stand-in `dict_of_series`, so it never masks the other checks):
  C12:MetricFrame:dict-of-Series:label-aligned   MetricFrame(sensitive_features={"a": Series, "b": Series}) builds the feature table with
  pd.DataFrame.from_dict, which ALIGNS the Series by index label: with labels that are two different permutations of 0..n-1 the two columns
  are silently paired by label (wrong groups), other labels raise.  The statement names "dicts of arrays"; a dict of pandas Series is the
  case where "whatever index labels the pandas objects carry" bites.  Not in known_findings.json at the time of writing.

Exact learners only (weighted stump, score = first column): LogisticRegression scores differ in the last bit between a C-ordered ndarray and
a DataFrame's F-ordered block (BLAS), which flips exact ties in the threshold optimisation - float noise (A1), not a pairing defect.

Sensitivity self-test (scratch worktree /tmp/agent_C12/r, one edit at a time, `VERIF_REPO=... ./check C12 --tier quick --only X`, all reverted):
  edit                                                                                        caught by (C12:...)
  1 revert of /repo 3affb2f (`labels.sum().loc[0]`)                                            TO.eo:label_lookup
  2 _metric_frame: all_data[sf.name_] = sf.raw_feature_ (Series assigned, label alignment)     MetricFrame:by_group/raises, 20 named metrics :value/:raises, permutation:*
  3 _metric_frame: all_data[cf.name_] = cf.raw_feature_ (control feature only)                 MetricFrame:by_group/raises, permutation:MetricFrame.by_group
  4 _metric_frame: all_data[col_name] = param_value (sample parameter kept as Series)          MetricFrame:by_group/overall/raises, named metrics :value/:raises
  5 _metric_frame: y_true / y_pred kept as Series when given as Series                         MetricFrame:by_group/raises, named metrics, permutation:raises
  6 _input_validation: returned y keeps the caller's index                                     <all 7 moments>:gamma/index/signed_weights/raises, ErrorRate:tags, EG:*, GridSearch:*
  7 _input_validation: sensitive feature Series keeps the caller's index                       <moments>:index/gamma/raises, EG:*, GridSearch:*, TO:*
  8 _input_validation: control feature Series keeps the caller's index (control features only) DemographicParity/.../EqualizedOdds:index/gamma/raises, EG:*, GridSearch:*
  9 error_rate.load_data hands the raw Series y to Moment.load_data                            ErrorRate:tags, EG:raises/weights_/_pmf_predict, GridSearch:raises/objectives_/predict
 10 _threshold_optimizer._reformat_data_into_dict keeps a Series (no .values)                  TO:raises, TO:interpolation_dict
 11 the same for a DataFrame column                                                            not flagged - equivalent mutant (a single Series among arrays in
                                                                                               pd.DataFrame(dict) keeps positions; only two Series misalign, see 10)
 12 _interpolated_thresholder._pmf_predict gives the score vector X.index                      TO:_pmf_predict, TO:raises (predict-time container only)
 13 _disaggregated_result.difference subtracts the FIRST group instead of the minimum         bijection:MetricFrame.difference (only the order-changing renaming shows it)
 14 _annotated_metric_function passes the sample parameters reversed                           permutation:MetricFrame.by_group/overall (container checks cannot see it)
"""
import numpy as np
import pandas as pd

from ..report import fingerprint
from . import _containers as K
from .harness import run_cases

NAMED = ["demographic_parity_difference", "demographic_parity_ratio", "equalized_odds_difference", "equalized_odds_ratio",
         "equal_opportunity_difference", "equal_opportunity_ratio", "selection_rate_difference", "selection_rate_ratio",
         "true_positive_rate_difference", "false_positive_rate_ratio", "false_negative_rate_difference", "true_negative_rate_ratio",
         "accuracy_score_difference", "accuracy_score_ratio", "accuracy_score_group_min", "zero_one_loss_group_max",
         "recall_score_group_min", "zero_one_loss_difference"]
MOMENTS = ["DemographicParity", "TruePositiveRateParity", "FalsePositiveRateParity", "EqualizedOdds", "ErrorRateParity", "ErrorRate",
           "BoundedGroupLoss"]
TO_PAIRS = [(c, o) for c in ("demographic_parity", "selection_rate_parity", "false_positive_rate_parity", "false_negative_rate_parity",
                             "true_positive_rate_parity", "true_negative_rate_parity")
            for o in ("accuracy_score", "balanced_accuracy_score", "selection_rate", "true_positive_rate", "true_negative_rate")] + \
           [("equalized_odds", "accuracy_score"), ("equalized_odds", "balanced_accuracy_score")] * 8


# ------------------------------------------------------------------ data
def _dataset(rng, both_labels=False, k_sf=None, cf=None):
    """plain-list dataset; both_labels: every sensitive group (tuple) contains label 0 and label 1 (needed by ThresholdOptimizer)"""
    n = int(rng.integers(6, 13))
    k_sf = k_sf or (2 if rng.random() < 0.35 else 1)
    if both_labels:
        G = int(rng.integers(2, 4))
        sizes = [2] * G
        for _ in range(n - 2 * G):
            sizes[int(rng.integers(G))] += 1
        lab1 = ["a", "b", "c"]
        g, y = [], []
        for j, sz in enumerate(sizes):
            g += [j] * sz
            y += [0, 1] + [int(v) for v in rng.integers(0, 2, sz - 2)]
        p = rng.permutation(n)
        g, y = [g[i] for i in p], [y[i] for i in p]
        sf = [[lab1[j] for j in g]] if k_sf == 1 else [[lab1[j % 2] for j in g], [int(j // 2) for j in g]]
    else:
        y = [0, 1] + [int(v) for v in rng.integers(0, 2, n - 2)]
        y = [y[i] for i in rng.permutation(n)]
        sf = [["a", "b"] + [str(v) for v in rng.choice(["a", "b", "c"][: int(rng.integers(2, 4))], n - 2)]]
        sf = [[sf[0][i] for i in rng.permutation(n)]]
        if k_sf == 2:
            sf.append([int(v) for v in rng.integers(0, 2, n)])
    has_cf = (rng.random() < 0.4) if cf is None else cf
    return {"n": n, "y": y, "yp": [int(v) for v in rng.integers(0, 2, n)], "sf": sf,
            "cf": [[str(v) for v in rng.choice(["u", "v"], n)]] if has_cf else None,
            "w": [float(v) for v in rng.choice([0.5, 1.0, 2.0, 3.0], n)], "w2": [float(v) for v in rng.choice([1.0, 2.0, 5.0], n)],
            "X": [[float(a), float(b)] for a, b in rng.choice([0.0, 0.25, 0.5, 0.75, 1.0], size=(n, 2))],
            "h": [float(v) for v in rng.choice([0.0, 1.0, 0.3, 0.8], n)]}


def _kinds(rng, args, single):
    """container kind per argument: either one argument in a random container and the rest plain, or all random"""
    v0 = K.VEC_KINDS + ("frame0",)          # DataFrame whose single column carries the default integer label 0
    mf = "sf2est" not in args and "X" not in args      # MetricFrame rejects non-string feature names (C20), estimators accept them
    pool = {"y": v0, "yp": v0, "w": v0, "w2": v0, "X": ("ndarray", "frame"), "sf1": K.VEC_KINDS if mf else v0, "cf1": K.VEC_KINDS if mf else v0}
    plain = {"X": "ndarray", "sf2mf": "dict_list", "sf2est": "list_of_lists"}
    pool["sf2mf"], pool["sf2est"] = K.TABLE_KINDS_MF, K.TABLE_KINDS_EST
    out = {a: plain.get(a, "list") for a in args}
    if single:
        a = K.pick(rng, list(args))
        out[a] = K.pick(rng, [k for k in pool[a] if k != out[a]])
    else:
        for a in args:
            out[a] = K.pick(rng, pool[a])
    return out


def _build(d, kinds, rng, mf):
    """arguments of one call in the requested containers + description + whether a label-carrying container took part"""
    desc, obj = {}, {}
    for a, kind in kinds.items():
        if a == "X":
            obj[a], desc[a] = K.matrix(d["X"], kind, rng)
        elif a in ("sf1", "sf2mf", "sf2est"):
            obj["sf"], desc["sf"] = K.table(d["sf"], kind, rng, names=["sA", "sB"][: len(d["sf"])])
        elif a == "cf1":
            obj["cf"], desc["cf"] = K.table(d["cf"], kind, rng, names=["cA"])
        else:
            obj[a], desc[a] = K.vec(d[a], kind, rng, name={"y": "lbl", "yp": "pred", "w": "wt", "w2": "wt2"}[a])
    labelled = any("index" in v for v in desc.values())
    return obj, desc, labelled


def _args(d, mf, extra=()):
    a = ["y"] + list(extra) + ["sf1" if len(d["sf"]) == 1 else ("sf2mf" if mf else "sf2est")]
    if d["cf"] is not None:
        a.append("cf1")
    return a


def _viol(nontrivial, fp, key, what, case, d, desc, got=None, exp=None):
    return (nontrivial, fp, ("C12:" + key, f"{what}; containers {desc}; data y={d['y']} sf={d['sf']} cf={d['cf']} (case {case})",
                             {"case": list(case), "containers": desc, "data": {k: d[k] for k in ("y", "yp", "sf", "cf", "w", "w2", "X", "h")},
                              "got": repr(got)[:400], "expected": repr(exp)[:400]}))


# ------------------------------------------------------------------ MetricFrame / metrics
def _mf_results(mf):
    out = {"by_group": K.flat(mf.by_group), "overall": K.flat(mf.overall), "group_min": K.flat(mf.group_min()),
           "group_max": K.flat(mf.group_max())}
    for m in ("between_groups", "to_overall"):
        out["difference:" + m] = K.flat(mf.difference(method=m))
        out["ratio:" + m] = K.flat(mf.ratio(method=m))
    return out


def _mf_call(o, single_callable):
    import fairlearn.metrics as fm
    from sklearn.metrics import accuracy_score
    if single_callable:
        metrics, sp = fm.selection_rate, {"sample_weight": o["w"]}
    else:
        metrics = {"sr": fm.selection_rate, "acc": accuracy_score, "mp": fm.mean_prediction, "cnt": fm.count}
        sp = {"sr": {"sample_weight": o["w"]}, "acc": {"sample_weight": o["w2"]}}
    return fm.MetricFrame(metrics=metrics, y_true=o["y"], y_pred=o["yp"], sensitive_features=o["sf"], control_features=o.get("cf"),
                          sample_params=sp)


def _check_mf(case):
    rng = np.random.default_rng(case[1])
    d = _dataset(rng)
    fp = fingerprint(case)
    single_callable = bool(rng.random() < 0.3)
    args = _args(d, True, ("yp", "w", "w2"))
    o, desc0, _ = _build(d, {a: ("dict_list" if a == "sf2mf" else "list") for a in args}, rng, True)
    try:
        base = _mf_results(_mf_call(o, single_callable))
    except Exception as ex:
        return _viol(True, fp, "MetricFrame:base-raises", f"MetricFrame on plain lists raised {ex!r}"[:300], case, d, desc0)
    nontrivial = False
    for v in range(3):
        o, desc, lab = _build(d, _kinds(rng, args, single=(v == 0)), rng, True)
        nontrivial |= lab
        try:
            res = _mf_results(_mf_call(o, single_callable))
        except Exception as ex:
            return _viol(True, fp, "MetricFrame:raises", f"MetricFrame raised {ex!r} where plain lists are accepted"[:300], case, d, desc)
        for name in base:
            diff = K.first_diff(res[name], base[name])
            if diff:
                return _viol(True, fp, "MetricFrame:" + name.split(":")[0], f"MetricFrame.{name} differs from the plain-list result ({diff})",
                             case, d, desc, res[name], base[name])
    return (nontrivial, fp, None)


_INTERNAL_NAMES = ("y_true", "y_pred")         # names MetricFrame gives the columns of its internal frame


def _check_names(case):
    """the NAME of a pandas Series / of the single DataFrame column is container metadata as well: the result must be the plain-list result whatever it is"""
    import pandas as pd
    rng = np.random.default_rng(case[1])
    d = _dataset(rng, k_sf=1)
    fp = fingerprint(case)
    args = _args(d, True, ("yp", "w", "w2"))
    o, desc0, _ = _build(d, {a: "list" for a in args}, rng, True)
    try:
        base = _mf_results(_mf_call(o, True))
    except Exception as ex:
        return _viol(True, fp, "MetricFrame:base-raises", f"MetricFrame on plain lists raised {ex!r}"[:300], case, d, desc0)
    which = ("sf", "cf") if "cf" in o else ("sf",)
    arg = which[case[2] % len(which)]
    name = (_INTERNAL_NAMES + ("sex", "score", "label", "0"))[(case[2] // 2) % 6]
    col = o[arg]
    o2 = dict(o)
    o2[arg] = pd.Series(list(col), name=name) if (case[2] // 12) % 2 == 0 else pd.DataFrame({name: list(col)})
    desc = {**desc0, arg: f"{type(o2[arg]).__name__} named {name!r}"}
    try:
        res = _mf_results(_mf_call(o2, True))
    except Exception as ex:
        key = "MetricFrame:raises:feature-named-like-internal-column" if name in _INTERNAL_NAMES else "MetricFrame:raises:named-feature"
        return _viol(True, fp, key, f"MetricFrame raised {ex!r} for the {arg} given as a {type(o2[arg]).__name__} named {name!r}; plain lists are accepted"[:300],
                     case, d, desc)
    for nm in base:
        diff = K.first_diff(res[nm], base[nm])
        if diff:
            return _viol(True, fp, "MetricFrame:named-feature:" + nm.split(":")[0], f"MetricFrame.{nm} with the {arg} named {name!r} differs from the "
                         f"plain-list result ({diff})", case, d, desc, res[nm], base[nm])
    return (True, fp, None)


def _named_call(fm, name, o, method):
    kw = {"sensitive_features": o["sf"], "sample_weight": o["w"]}
    if name.endswith(("_difference", "_ratio")):
        kw["method"] = method
    return K.py(getattr(fm, name)(o["y"], o["yp"], **kw))


def _check_named(case):
    import fairlearn.metrics as fm
    rng = np.random.default_rng(case[1])
    d = _dataset(rng, cf=False)
    fp = fingerprint(case)
    args = _args(d, True, ("yp", "w"))
    o0, desc0, _ = _build(d, {a: ("dict_list" if a == "sf2mf" else "list") for a in args}, rng, True)
    o1, desc, lab = _build(d, _kinds(rng, args, single=bool(rng.random() < 0.4)), rng, True)
    for name in [NAMED[i] for i in rng.choice(len(NAMED), 5, replace=False)]:
        method = K.pick(rng, ["between_groups", "to_overall"])
        try:
            exp = _named_call(fm, name, o0, method)
        except Exception as ex:
            return _viol(True, fp, name + ":base-raises", f"{name} on plain lists raised {ex!r}"[:300], case, d, desc0)
        try:
            got = _named_call(fm, name, o1, method)
        except Exception as ex:
            return _viol(True, fp, name + ":raises", f"{name}(method={method}) raised {ex!r} where plain lists are accepted"[:300], case, d, desc)
        if not K.val_close(got, exp):
            return _viol(True, fp, name + ":value", f"{name}(method={method}) = {got!r}, plain lists give {exp!r}", case, d, desc, got, exp)
    return (lab, fp, None)


def _check_perm(case):
    import fairlearn.metrics as fm
    rng = np.random.default_rng(case[1])
    d = _dataset(rng)
    fp = fingerprint(case)
    p = [int(i) for i in rng.permutation(d["n"])]
    d2 = dict(d)
    for k in ("y", "yp", "w", "w2", "X", "h"):
        d2[k] = [d[k][i] for i in p]
    d2["sf"] = [[c[i] for i in p] for c in d["sf"]]
    d2["cf"] = None if d["cf"] is None else [[c[i] for i in p] for c in d["cf"]]
    args = _args(d, True, ("yp", "w", "w2"))
    kinds = _kinds(rng, args, single=False) if rng.random() < 0.5 else {a: ("dict_list" if a == "sf2mf" else "list") for a in args}
    o0, desc, _ = _build(d, kinds, np.random.default_rng(case[1] + 1), True)
    o1, _, _ = _build(d2, kinds, np.random.default_rng(case[1] + 1), True)
    desc = dict(desc, permutation=p)
    try:
        r0, r1 = _mf_results(_mf_call(o0, False)), _mf_results(_mf_call(o1, False))
        for name in r0:
            diff = K.first_diff(r1[name], r0[name])
            if diff:
                return _viol(True, fp, "permutation:MetricFrame." + name.split(":")[0], f"MetricFrame.{name} changed under the joint row permutation {p} ({diff})",
                             case, d, desc, r1[name], r0[name])
        if d["cf"] is None:
            for name in [NAMED[i] for i in rng.choice(len(NAMED), 3, replace=False)]:
                a, b = _named_call(fm, name, o0, "between_groups"), _named_call(fm, name, o1, "between_groups")
                if not K.val_close(a, b):
                    return _viol(True, fp, "permutation:" + name, f"{name} changed under the joint row permutation {p}: {a!r} -> {b!r}", case, d, desc, b, a)
    except Exception as ex:
        return _viol(True, fp, "permutation:raises", f"metric call raised {ex!r}"[:300], case, d, desc)
    return (p != sorted(p), fp, None)


def _bijection(rng, col):
    vals = sorted(set(col))
    if isinstance(vals[0], str):
        new = list(np.roll(vals, 1)) if rng.random() < 0.5 else [["zz", "B", "0", "a "][i] for i in rng.permutation(4)[: len(vals)]]
    else:
        new = vals[::-1] if rng.random() < 0.5 else [[7, -3, 100][i] for i in rng.permutation(3)[: len(vals)]]
    return {v: K.py(w) if not isinstance(w, np.str_) else str(w) for v, w in zip(vals, new)}


def _check_bij(case):
    import fairlearn.metrics as fm
    import fairlearn.reductions as red
    rng = np.random.default_rng(case[1])
    d = _dataset(rng)
    fp = fingerprint(case)
    bs = [_bijection(rng, c) for c in d["sf"]]
    bc = [] if d["cf"] is None else [_bijection(rng, c) for c in d["cf"]]
    d2 = dict(d, sf=[[b[v] for v in c] for b, c in zip(bs, d["sf"])], cf=None if d["cf"] is None else [[b[v] for v in c] for b, c in zip(bc, d["cf"])])
    args = _args(d, True, ("yp", "w", "w2"))
    kinds = {a: ("dict_list" if a == "sf2mf" else "list") for a in args}
    o0, desc, _ = _build(d, kinds, rng, True)
    o1, _, _ = _build(d2, kinds, rng, True)
    desc = {"bijection_sensitive": [{repr(k): repr(v) for k, v in b.items()} for b in bs], "bijection_control": [{repr(k): repr(v) for k, v in b.items()} for b in bc]}

    def ren(levels):
        return lambda key: (tuple(m[v] for m, v in zip(levels, key[0])),) + tuple(key[1:]) if levels else key
    try:
        r0, r1 = _mf_results(_mf_call(o0, False)), _mf_results(_mf_call(o1, False))
        for name in r0:
            diff = K.first_diff(r0[name], r1[name], rename=ren(bc + bs if name == "by_group" else bc))
            if diff:
                return _viol(True, fp, "bijection:MetricFrame." + name.split(":")[0], f"renaming the group labels changed MetricFrame.{name} beyond the index entries ({diff})",
                             case, d, desc, r1[name], r0[name])
        if d["cf"] is None:
            for name in [NAMED[i] for i in rng.choice(len(NAMED), 3, replace=False)]:
                a, b = _named_call(fm, name, o0, "to_overall"), _named_call(fm, name, o1, "to_overall")
                if not K.val_close(a, b):
                    return _viol(True, fp, "bijection:" + name, f"{name} changed when group labels were renamed: {a!r} -> {b!r}", case, d, desc, b, a)
            if len(d["sf"]) == 1:
                mname = K.pick(rng, MOMENTS[:5])
                res = []
                for dd in (d, d2):
                    m = getattr(red, mname)()
                    m.load_data(np.array(dd["X"]), dd["y"], sensitive_features=dd["sf"][0])
                    lam = pd.Series([((i * 7919 + case[1]) % 13) / 13.0 for i in range(len(m.index))], index=m.index)
                    res.append((m, lam))
                (m0, lam0), (m1, _) = res
                h = np.array(d["h"])
                g0, g1 = K.flat(m0.gamma(lambda X: h)), K.flat(m1.gamma(lambda X: h))
                rk = lambda key: ((key[0][0], key[0][1], bs[0][key[0][2]]),)
                diff = K.first_diff(g0, g1, rename=rk)
                if diff:
                    return _viol(True, fp, f"bijection:{mname}.gamma", f"{mname}.gamma changed beyond re-keying when group labels were renamed ({diff})", case, d, desc, g1, g0)
                lam1 = pd.Series({rk((k,))[0]: v for k, v in lam0.items()}).reindex(m1.index)
                diff = K.first_diff(K.flat(m0.signed_weights(lam0).values), K.flat(m1.signed_weights(lam1).values))
                if diff:
                    return _viol(True, fp, f"bijection:{mname}.signed_weights", f"{mname}.signed_weights changed when group labels were renamed ({diff})", case, d, desc)
    except Exception as ex:
        return _viol(True, fp, "bijection:raises", f"call raised {ex!r}"[:300], case, d, desc)
    return (True, fp, None)


def _check_dict_series(case):
    rng = np.random.default_rng(case[1])
    d = _dataset(rng, k_sf=2, cf=False)
    fp = fingerprint(case)
    o, desc0, _ = _build(d, {"y": "list", "yp": "list", "w": "list", "w2": "list", "sf2mf": "dict_list"}, rng, True)
    base = _mf_results(_mf_call(o, False))
    i1, s1 = K.odd_index(d["n"], rng, "shuffled")
    i2, s2 = K.odd_index(d["n"], rng, K.pick(rng, ["shuffled", "reversed"]))
    o["sf"] = {"sA": pd.Series(d["sf"][0], index=i1), "sB": pd.Series(d["sf"][1], index=i2)}
    desc = {"sf": f"dict of Series, index labels {list(i1)} and {list(i2)}"}
    if list(i1) == list(i2):
        return (False, fp, None)
    key = "MetricFrame:dict-of-Series:label-aligned"
    try:
        res = _mf_results(_mf_call(o, False))
    except Exception as ex:
        return _viol(True, fp, key, f"MetricFrame with sensitive_features a dict of Series raised {ex!r}"[:300], case, d, desc)
    diff = K.first_diff(res["by_group"], base["by_group"])
    if diff:
        return _viol(True, fp, key, "MetricFrame(sensitive_features={name: Series}) pairs the two feature columns by index label, not by position: "
                     f"by_group differs from the plain-list result ({diff})", case, d, desc, res["by_group"], base["by_group"])
    return (True, fp, None)


# ------------------------------------------------------------------ moments
def _moment(red, name, rng_choice):
    if name == "ErrorRate":
        return red.ErrorRate(costs={"fp": 0.5, "fn": 2.0}) if rng_choice % 2 else red.ErrorRate()
    if name == "BoundedGroupLoss":
        return red.BoundedGroupLoss(red.ZeroOneLoss(), upper_bound=0.2)
    return getattr(red, name)(**[{}, {"difference_bound": 0.05}, {"ratio_bound": 0.8, "ratio_bound_slack": 0.02}][rng_choice % 3])


def _moment_results(m, name, h, lamseed):
    idx = list(m.index)
    lam = pd.Series([((i * 7919 + lamseed) % 13) / 13.0 for i in range(len(idx))], index=m.index)
    out = {"index": {(i,): K._key(v) for i, v in enumerate(idx)}, "gamma": K.flat(m.gamma(lambda X: h)),
           "signed_weights": K.flat(np.asarray(m.signed_weights(lam))), "total_samples": K.flat(m.total_samples),
           "tags": K.flat(m.tags.reset_index(drop=True).astype(object).where(m.tags.reset_index(drop=True).notna(), None))}
    sw = m.signed_weights(lam)
    if isinstance(sw, pd.Series):        # the weights are handed to the learner next to the positional y: labels must be positional too
        out["signed_weights.index"] = K.flat(list(sw.index))
    if name not in ("ErrorRate",):
        out["bound"] = K.flat(m.bound())
    if hasattr(m, "prob_group_event"):
        out["prob_event"], out["prob_group_event"] = K.flat(m.prob_event), K.flat(m.prob_group_event)
    return out


def _check_moment(case):
    import fairlearn.reductions as red
    rng = np.random.default_rng(case[1])
    d = _dataset(rng)
    fp = fingerprint(case)
    h = np.array(d["h"])
    args = _args(d, False, ("X",))
    nontrivial = False
    for name in MOMENTS:
        cfok = name != "BoundedGroupLoss"
        a2 = [a for a in args if cfok or a != "cf1"]
        ch = int(rng.integers(6))
        res = []
        for variant in (0, 1):
            kinds = {a: {"X": "ndarray", "sf2est": "list_of_lists"}.get(a, "list") for a in a2} if variant == 0 else _kinds(rng, a2, single=bool(rng.random() < 0.3))
            o, desc, lab = _build(d, kinds, rng, False)
            m = _moment(red, name, ch)
            try:
                kw = {"sensitive_features": o["sf"]}
                if "cf" in o:
                    kw["control_features"] = o["cf"]
                m.load_data(o["X"], o["y"], **kw)
                res.append(_moment_results(m, name, h, case[1]))
            except Exception as ex:
                return _viol(True, fp, f"{name}:{'raises' if variant else 'base-raises'}", f"{name}.load_data/gamma/signed_weights raised {ex!r}"[:300], case, d, desc)
            nontrivial |= lab
        for part in res[0]:
            diff = K.first_diff(res[1][part], res[0][part])
            if diff:
                return _viol(True, fp, f"{name}:{part}", f"{name}: {part} differs from the plain-list result ({diff})", case, d, desc, res[1][part], res[0][part])
    return (nontrivial, fp, None)


# ------------------------------------------------------------------ reductions
def _learner(i):
    # exact learner only: LogisticRegression scores differ in the last bit between a C-ordered ndarray and a DataFrame's F-ordered block
    # (BLAS), which flips exact ties downstream - float noise (A1), not a pairing defect
    return K.Stump()


def _check_reduction(case):
    import fairlearn.reductions as red
    rng = np.random.default_rng(case[1])
    d = _dataset(rng)
    fp = fingerprint(case)
    which = "EG" if case[0] == "eg" else "GridSearch"
    mname, ch, li = K.pick(rng, MOMENTS[:5]), int(rng.integers(6)), int(rng.integers(6))
    args = _args(d, False, ("X",))
    res, labs = [], False
    for variant in (0, 1):
        kinds = {a: {"X": "ndarray", "sf2est": "list_of_lists"}.get(a, "list") for a in args} if variant == 0 else _kinds(rng, args, single=bool(rng.random() < 0.3))
        o, desc, lab = _build(d, kinds, rng, False)
        labs |= lab
        kw = {"sensitive_features": o["sf"]}
        if "cf" in o:
            kw["control_features"] = o["cf"]
        try:
            if which == "EG":
                e = red.ExponentiatedGradient(_learner(li), _moment(red, mname, ch), max_iter=6, run_linprog_step=bool(li % 2)).fit(o["X"], o["y"], **kw)
                r = {"weights_": K.flat(e.weights_), "_pmf_predict": K.flat(np.asarray(e._pmf_predict(o["X"]))),
                     "predict": K.flat(np.asarray(e.predict(o["X"], random_state=3))), "lambda_vecs_": K.flat(e.lambda_vecs_),
                     "best_gap_": K.flat(e.best_gap_), "n_oracle_calls_": K.flat(e.n_oracle_calls_), "lambda_vecs_EG_": K.flat(e.lambda_vecs_EG_)}
            else:
                e = red.GridSearch(_learner(li), _moment(red, mname, ch), grid_size=5, constraint_weight=[0.5, 0.1, 0.9][ch % 3])
                e.fit(o["X"], o["y"], **kw)
                r = {"predict": K.flat(np.asarray(e.predict(o["X"]))), "best_idx_": K.flat(e.best_idx_), "objectives_": K.flat(list(e.objectives_)),
                     "gammas_": K.flat(e.gammas_), "lambda_vecs_": K.flat(e.lambda_vecs_),
                     "all_predictions": K.flat(np.array([np.asarray(p.predict(o["X"])) for p in e.predictors_]))}
        except Exception as ex:
            return _viol(True, fp, f"{which}:{'raises' if variant else 'base-raises'}", f"{which}.fit/predict with {mname} raised {ex!r}"[:300], case, d, desc)
        res.append(r)
    for part in res[0]:
        diff = K.first_diff(res[1][part], res[0][part], tol=1e-7)
        if diff:
            return _viol(True, fp, f"{which}:{part}", f"{which}({mname}): {part} differs from the plain-list fit ({diff})", case, d, desc, res[1][part], res[0][part])
    return (labs, fp, None)


# ------------------------------------------------------------------ ThresholdOptimizer
def _check_to(case):
    from fairlearn.postprocessing import ThresholdOptimizer
    rng = np.random.default_rng(case[1])
    d = _dataset(rng, both_labels=True, cf=False)
    fp = fingerprint(case)
    cons, obj = TO_PAIRS[case[2] % len(TO_PAIRS)]
    flip, gs, est = bool(rng.random() < 0.5), K.pick(rng, [10, 100, 1000]), int(rng.integers(3))
    args = _args(d, False, ("X",))
    res, labs = [], False
    for variant in (0, 1):
        plain = {a: {"X": "ndarray", "sf2est": "list_of_lists"}.get(a, "list") for a in args}
        o, desc, lab = _build(d, plain if variant == 0 else _kinds(rng, args, single=bool(rng.random() < 0.3)), rng, False)
        pk = [a for a in args if a != "y"]
        po, pdesc, plab = _build(d, {a: plain[a] for a in pk} if variant == 0 else _kinds(rng, pk, single=False), rng, False)
        desc = {"fit": desc, "predict": pdesc, "constraints": cons, "objective": obj, "flip": flip, "grid_size": gs}
        labs |= lab or plab
        try:
            t = ThresholdOptimizer(estimator=K.ColScore() if est else K.Stump(), constraints=cons, objective=obj, flip=flip, grid_size=gs,
                                   predict_method="predict" if est else "predict_proba")
            t.fit(o["X"], o["y"], sensitive_features=o["sf"])
            r = {"interpolation_dict": {(k, f): v for k, dd in K.interpolation_as_dict(t).items() for f, v in dd.items()},
                 "_pmf_predict": K.flat(np.asarray(t._pmf_predict(po["X"], sensitive_features=po["sf"]))),
                 "predict": K.flat(np.asarray(t.predict(po["X"], sensitive_features=po["sf"], random_state=1)))}
        except Exception as ex:
            key = "TO:raises" if variant else "TO:base-raises"
            if variant and cons == "equalized_odds" and isinstance(ex, KeyError) and isinstance(o["y"], pd.DataFrame):
                key = "TO.eo:label_lookup"
            return _viol(True, fp, key, f"ThresholdOptimizer({cons},{obj}).fit/predict raised {ex!r}"[:300], case, d, desc)
        res.append(r)
    for part in res[0]:
        diff = K.first_diff(res[1][part], res[0][part])
        if diff:
            return _viol(True, fp, f"TO:{part}", f"ThresholdOptimizer({cons},{obj}): {part} differs from the plain-list fit ({diff})", case, d, desc, res[1][part], res[0][part])
    return (labs, fp, None)


def _check_names_to(case):
    """ThresholdOptimizer: the name of the sensitive-feature Series / DataFrame column is container metadata; 'score' and 'label' are the column names of
    the frame ThresholdOptimizer groups internally"""
    from fairlearn.postprocessing import ThresholdOptimizer
    rng = np.random.default_rng(case[1])
    d = _dataset(rng, both_labels=True, k_sf=1, cf=False)
    fp = fingerprint(case)
    cons, obj = TO_PAIRS[case[2] % len(TO_PAIRS)]
    name = ("score", "label", "sex", "sensitive_feature_0")[(case[2] // 2) % 4]
    as_frame = (case[2] // 8) % 2 == 1
    X, y, col = np.array(d["X"]), list(d["y"]), list(d["sf"][0])
    desc = {"constraints": cons, "objective": obj, "sensitive_features": f"{'one-column DataFrame' if as_frame else 'Series'} named {name!r}"}
    res = []
    for variant in (0, 1):
        sf = col if variant == 0 else (pd.DataFrame({name: col}) if as_frame else pd.Series(col, name=name))
        try:
            t = ThresholdOptimizer(estimator=K.ColScore(), constraints=cons, objective=obj, grid_size=100, predict_method="predict")
            t.fit(X, y, sensitive_features=sf)
            res.append({"interpolation_dict": {(k, f): v for k, dd in K.interpolation_as_dict(t).items() for f, v in dd.items()},
                        "_pmf_predict": K.flat(np.asarray(t._pmf_predict(X, sensitive_features=sf))),
                        "predict": K.flat(np.asarray(t.predict(X, sensitive_features=sf, random_state=1)))})
        except Exception as ex:
            return _viol(True, fp, "TO:named-feature:raises" if variant else "TO:base-raises", f"ThresholdOptimizer({cons},{obj}).fit/predict raised {ex!r}"[:300], case, d, desc)
    for part in res[0]:
        diff = K.first_diff(res[1][part], res[0][part])
        if diff:
            return _viol(True, fp, f"TO:named-feature:{part}", f"ThresholdOptimizer({cons},{obj}): {part} differs from the plain-list fit ({diff}) when the sensitive feature is a "
                         f"{desc['sensitive_features']}", case, d, desc, res[1][part], res[0][part])
    return (True, fp, None)


CHECKS = {"names_to": _check_names_to, "mf": _check_mf, "named": _check_named, "perm": _check_perm, "bij": _check_bij, "dictser": _check_dict_series,
          "names": _check_names, "moment": _check_moment, "eg": _check_reduction, "gs": _check_reduction, "to": _check_to}


def _check(case):
    import logging
    logging.disable(logging.WARNING)
    return CHECKS[case[0]](case)


def replay(data):
    case = data.get("replay", {}).get("case")
    if not case or case[0] not in CHECKS:
        return None
    r = _check(tuple(case))
    print("replayed case", case, "->", "no violation" if r[2] is None else f"VIOLATION {r[2][0]}: {r[2][1]}")
    return 1 if r[2] is not None else 0


def run_bounded(rep):
    rep.assume("A2", "A7")
    q = rep.tier == "quick"
    plan = [("metricframe", "mf", 360 if q else 2400, "MetricFrame, plain lists vs 3 container variants"),
            ("named_metrics", "named", 130 if q else 900, "5 named fairness metrics, plain lists vs containers"),
            ("permutation", "perm", 110 if q else 800, "joint row permutation, MetricFrame + 3 named metrics"),
            ("bijection", "bij", 110 if q else 800, "group label bijection, MetricFrame + named metrics + one parity moment"),
            ("moments", "moment", 160 if q else 1200, "7 moments load_data/gamma/signed_weights, plain vs containers"),
            ("exponentiated_gradient", "eg", 100 if q else 700, "ExponentiatedGradient.fit (stump / LogisticRegression, max_iter 6)"),
            ("grid_search", "gs", 130 if q else 900, "GridSearch.fit (grid_size 5)"),
            ("threshold_optimizer", "to", 280 if q else 1800, "ThresholdOptimizer fit/_pmf_predict/predict over every supported constraint x objective"),
            ("dict_of_series", "dictser", 12 if q else 60, "MetricFrame with a dict of Series with different index labels"),
            ("feature_names", "names", 48 if q else 240, "MetricFrame with a sensitive / control feature given as a Series or one-column DataFrame whose name is "
                                                          "y_true, y_pred, sex, score, label or 0"),
            ("feature_names_threshold_optimizer", "names_to", 32 if q else 160, "ThresholdOptimizer with the sensitive feature given as a Series or one-column DataFrame "
                                                                                  "named score, label, sex or sensitive_feature_0")]
    for si, (name, kind, count, text) in enumerate(plan):
        cases = [(kind, rep.seed * 1000003 + si * 100003 + i, i) for i in range(count)]
        run_cases(rep, name, rule=f"{text}; seeded datasets n=6..12, containers and index labels (permuted/offset/duplicated/string/reversed) drawn per "
                                  "argument; non-trivial = a pandas object with non-positional labels took part; distinct by seed",
                  bound="n <= 12, <= 3 groups per column, <= 2 sensitive + 1 control column", cases=cases, check_case=_check, exhaustive=False)
