"""C06 bounded stand-in (labelled bounded, never counted as proved).

Scope (real load_data / index / gamma / bound of fairlearn.reductions moments against row-loop Fraction oracles of vf/bounded/_moments.py):
 * parity_moments: every multiset of n rows (group, label[, stratum]) up to renaming, 2-3 groups, no control feature or one control
   feature with 1-3 strata, n <= 5 (quick) / 6 (thorough); x the five parity moments x bound configurations (difference_bound,
   ratio_bound 1/.8/.5 with and without ratio_bound_slack, default) - per (structure, moment) in rotation: quick 2 of the 5
   configurations (n = 5: 1), thorough all (n = 6: 3); plus seeded structures with up to 4 groups and n <= 9. Each structure is materialised with a seeded
   variant (row order, group/stratum names incl. ints and names whose sort order differs from appearance order, list / ndarray /
   Series with foreign index / named one-column DataFrame / two sensitive columns, X ndarray or DataFrame).
   Checked: index == {+,-} x {(event, group) occurring}, no duplicates, documented event names ("all", "label=1",
   "control=c,label=0", ...); rows outside the conditioned label class in no event; bound() == configured slack on exactly that index;
   gamma(h) on exactly that index with gamma(+,e,g) = r*mean_{e,g}(u) - mean_e(u), gamma(-,e,g) = r*mean_e(u) - mean_{e,g}(u) for all hard
   h in {0,1}^n (n <= 4 quick / 5 thorough; beyond: 0, 1, units, 3 seeded) and 3 seeded soft h in [0,1]^n
   (also returned as (n,1) ndarray / Series); the predictor is handed the caller's X.
 * loss_moments: BoundedGroupLoss(SquareLoss / AbsoluteLoss / ZeroOneLoss with several clip ranges): index == groups,
   gamma == per-group mean of loss(clip y, clip h), bound() == upper_bound; all label vectors over {-0.5,0.25,1,1.5} x group
   partitions n <= 3 (4) plus seeded; ErrorRate(costs): gamma == (c_fn*sum_{y>h}(y-h) + c_fp*sum_{y<h}(h-y))/n on index ['all'],
   all y in {0,1}^n, all hard and seeded soft h.
 * metricframe_agreement: r = 1: gamma(+,e,g) == MetricFrame(rate).by_group - overall (per stratum with a control feature) with
   rate = selection_rate / true_positive_rate / false_positive_rate / 1-accuracy, hard predictions, structures n <= 4 (5).
Oracle: plain Python loops over rows with Fractions; tolerance 1e-9. Only the MetricFrame part compares two fairlearn results (the
property states that agreement).
NOT checked: sample weights (moments take none), more than one control column, labels other than int 0/1, NaN in features,
predictions outside [0,1] for parity moments, 5+ groups, pos_basis/neg_basis (GridSearch internals).

Sensitivity self-test (scratch copies of a /repo worktree under /tmp/agent_C06, `VERIF_REPO=<copy> ./check C06 --tier quick --only X`);
edit -> key of the VIOLATION printed:
  1 revert of 33d47c5 (null event + control -> 'control=c,nan')                              C06:TruePositiveRateParity:index, C06:FalsePositiveRateParity:index
  2 U['+']: ratio moved to the event term (r*1[e]/P(e) - 1[e,g]/P(e,g))                       C06:<moment>:gamma (ratio configurations only)
  3 U['-']: group term divided by P(e) instead of P(e,g)                                      C06:<moment>:gamma
  4 TruePositiveRateParity: `.where(y_train == 1)` dropped (label-0 rows get an event)       C06:TruePositiveRateParity:index
  5 ErrorRateParity utilities swapped ([1-y, y]: accuracy instead of error)                  C06:ErrorRateParity:gamma, :metricframe
  6 ratio_bound with the default slack 0 gets eps = 0.01                                     C06:<moment>:bound
  7 np.squeeze of (n,1) predictions removed in UtilityParity.gamma                           C06:<moment>:gamma (only (n,1) soft predictions)
  8 `if control and ...` in _combine_event_and_control (control value 0 treated as absent)   C06:<moment>:index (only int control names containing 0)
  9 prob_event normalised by the number of rows that have an event instead of n             C06:TruePositiveRateParity:gamma, C06:FalsePositiveRateParity:gamma
 10 SquareLoss.eval: y_true not clipped                                                      C06:BoundedGroupLoss:gamma (labels outside the clip range)
 11 ErrorRate.gamma: fp/fn costs swapped                                                     C06:ErrorRate:gamma (asymmetric costs)
 12 ConditionalLossMoment.gamma keeps the first prediction (stale second call)               C06:BoundedGroupLoss:gamma
 13 P(e,g) computed from max(count, 2) (single-member (event, group) cells)                  C06:<moment>:gamma
 14 DemographicParity ignores a control feature that has a single stratum                   C06:DemographicParity:index, :metricframe
No edit tried was missed. (1-5, 8, 9 through ./check; the others through the same check functions on a seeded 250-case sample of each stand-in's case list.)
"""
import itertools

import numpy as np
import pandas as pd

from .. import speclib as S
from ..report import fingerprint
from . import _moments as M
from .harness import run_cases

Y_VALUES = (-0.5, 0.25, 1.0, 1.5)


def _hard_predictions(n, exhaustive_upto, rng):
    if n <= exhaustive_upto:
        return [list(b) for b in itertools.product((0, 1), repeat=n)]
    out = [[0] * n, [1] * n] + [[int(i == j) for j in range(n)] for i in range(n)]        # an affine map is determined by these
    return out + [[int(v) for v in rng.integers(0, 2, n)] for _ in range(3)]


def _as_pred(h, shape):
    import pandas as pd
    a = np.array(h, dtype=float)
    return a.reshape(-1, 1) if shape == 1 else pd.Series(a) if shape == 2 else a


# ------------------------------------------------------------------ parity moments
def _check_parity(case):
    struct, mom, bi, vseed, hard_upto = case
    d = M.materialize(struct, vseed)
    kw = M.BOUNDS[bi]
    eps, ratio = M.eps_ratio(kw)
    n = d["n"]
    spec = M.ParitySpec(mom, d["g"], d["y"], d["c"], ratio)
    fp = fingerprint(case)
    nontrivial = len(spec.index) >= 2
    rp = {"moment": mom, "kwargs": kw, **d["desc"]}

    def viol(which, what, got, exp, **extra):
        return (nontrivial, fp, (f"C06:{mom}:{which}", f"{mom}({kw}) {what}: got {got!r}, first-principles {exp!r} on y={d['y']} "
                                 f"sensitive={d['g']} control={d['c']}" + "".join(f" {k}={v}" for k, v in extra.items()),
                                 {**rp, **extra, "got": repr(got), "expected": repr(exp)}))
    try:
        m = M.make_moment(mom, kw)
        M.load(m, d)
        idx = [tuple(k) for k in m.index]
        b = m.bound()
        bidx = [tuple(k) for k in b.index]
        bvals = {k: float(v) for k, v in zip(bidx, b.values)}
    except Exception as ex:
        return viol("load_data:raises", f"load_data/index/bound raised {type(ex).__name__}", repr(ex)[:150], "no exception")
    if M.dups(idx) or set(idx) != set(spec.index):
        return viol("index", "index is not {+,-} x {(event, group) pairs occurring in the data}", sorted(map(repr, idx)), sorted(map(repr, spec.index)))
    if M.dups(bidx) or set(bidx) != set(spec.index):
        return viol("bound:index", "bound() index differs from the constraint index", sorted(map(repr, bidx)), sorted(map(repr, spec.index)))
    for k in spec.index:
        if not S.close(bvals[k], eps):
            return viol("bound", f"bound()[{k}]", bvals[k], eps)
    rng = np.random.default_rng(vseed + 1)
    preds = [(h, 0) for h in _hard_predictions(n, hard_upto, rng)]
    preds += [(h, j % 3) for j, h in enumerate(M.soft_predictions(rng, n, 3))]
    seen_X = []
    for h, shape in preds:
        hp = _as_pred(h, shape)

        def predictor(X):
            seen_X.append(X)
            return hp
        try:
            g = m.gamma(predictor)
            gidx = [tuple(k) for k in g.index]
            gv = {k: float(v) for k, v in zip(gidx, np.asarray(g.values).reshape(-1))} if len(gidx) else {}
        except Exception as ex:
            return viol("gamma:raises", f"gamma raised {type(ex).__name__}", repr(ex)[:150], "no exception", prediction=h)
        if M.dups(gidx) or set(gidx) != set(spec.index):
            return viol("gamma:index", "gamma index differs from the constraint index", sorted(map(repr, gidx)), sorted(map(repr, spec.index)), prediction=h)
        exp = spec.gamma(h)
        for k in spec.index:
            if not S.close(gv[k], exp[k]):
                return viol("gamma", f"gamma[{k}]", gv[k], float(exp[k]), prediction=h, pred_container=["(n,)", "(n,1)", "Series"][shape])
        if seen_X[-1] is not d["X"]:
            return viol("gamma:X", "predictor was not called with the caller's X", type(seen_X[-1]).__name__, "the X given to load_data")
    return (nontrivial, fp, None)


# ------------------------------------------------------------------ loss moments and the ErrorRate objective
def _check_loss(case):
    kind = case[0]
    fp = fingerprint(case)
    if kind == "bgl":
        _, gstruct, yvals, li, ub, vseed = case
        struct = tuple((g, 0, None) for g in gstruct)
        d = M.materialize(struct, vseed, y_values=list(yvals))
        lspec = M.LOSSES[li]
        rows = M.group_rows(d["g"])
        rp = {"moment": "BoundedGroupLoss", "loss": list(lspec), "upper_bound": ub, **d["desc"]}
        name = f"BoundedGroupLoss({lspec[0]}{tuple(lspec[1:])}, upper_bound={ub})"

        def viol(which, what, got, exp, **extra):
            return (True, fp, (f"C06:BoundedGroupLoss:{which}", f"{name} {what}: got {got!r}, first-principles {exp!r} on y={d['y']} sensitive={d['g']}"
                               + "".join(f" {k}={v}" for k, v in extra.items()), {**rp, **extra, "got": repr(got), "expected": repr(exp)}))
        import fairlearn.reductions as R
        try:
            m = R.BoundedGroupLoss(M.make_loss(lspec), upper_bound=ub)
            m.load_data(d["X"], d["y_in"], sensitive_features=d["sf_in"])
            idx = list(m.index)
            b = m.bound()
            bv = dict(zip(list(b.index), (float(v) for v in b.values)))
        except Exception as ex:
            return viol("load_data:raises", f"load_data/index/bound raised {type(ex).__name__}", repr(ex)[:150], "no exception")
        if M.dups(idx) or set(idx) != set(rows):
            return viol("index", "index is not the set of groups", idx, sorted(map(repr, rows)))
        if set(bv) != set(rows) or any(not S.close(bv[k], ub) for k in rows):
            return viol("bound", "bound()", bv, ub)
        rng = np.random.default_rng(vseed + 1)
        preds = [[float(v) for v in rng.choice([-1.0, 0.0, 0.3, 0.5, 1.0, 2.5], d["n"])] for _ in range(3)] + M.soft_predictions(rng, d["n"], 2)
        for h in preds:
            try:
                g = m.gamma(lambda X: np.array(h))
                gv = dict(zip(list(g.index), (float(v) for v in g.values)))
            except Exception as ex:
                return viol("gamma:raises", f"gamma raised {type(ex).__name__}", repr(ex)[:150], "no exception", prediction=h)
            if set(gv) != set(rows) or len(gv) != len(g):
                return viol("gamma:index", "gamma index is not the set of groups", list(g.index), sorted(map(repr, rows)), prediction=h)
            for k, r in rows.items():
                exp = sum(M.loss_value(lspec, d["y"][i], h[i]) for i in r) / len(r)
                if not S.close(gv[k], exp):
                    return viol("gamma", f"gamma[{k!r}] (per-group mean clipped loss)", gv[k], float(exp), prediction=h)
        return (True, fp, None)
    # ErrorRate(costs)
    _, y, ci, vseed = case
    costs = M.COSTS[ci]
    n = len(y)
    rng = np.random.default_rng(vseed)
    d = M.materialize(tuple((i % 2, yi, (i // 2) % 2 if vseed % 2 else None) for i, yi in enumerate(y)), vseed)   # groups/strata are irrelevant here
    rp = {"moment": "ErrorRate", "costs": costs, **d["desc"]}

    def viol(which, what, got, exp, **extra):
        return (True, fp, (f"C06:ErrorRate:{which}", f"ErrorRate(costs={costs}) {what}: got {got!r}, first-principles {exp!r} on y={d['y']}"
                           + "".join(f" {k}={v}" for k, v in extra.items()), {**rp, **extra, "got": repr(got), "expected": repr(exp)}))
    import fairlearn.reductions as R
    try:
        m = R.ErrorRate() if costs is None else R.ErrorRate(costs=dict(costs))
        M.load(m, d)
        idx = list(m.index)
    except Exception as ex:
        return viol("load_data:raises", f"load_data raised {type(ex).__name__}", repr(ex)[:150], "no exception")
    if idx != ["all"]:
        return viol("index", "index", idx, ["all"])
    preds = [(h, 0) for h in _hard_predictions(n, 5, rng)] + [(h, j % 2) for j, h in enumerate(M.soft_predictions(rng, n, 4))]
    for h, shape in preds:
        try:
            g = m.gamma(lambda X: _as_pred(h, shape))
            got = [float(v) for v in g.values]
        except Exception as ex:
            return viol("gamma:raises", f"gamma raised {type(ex).__name__}", repr(ex)[:150], "no exception", prediction=h)
        exp = M.error_rate(d["y"], h, costs)
        if list(g.index) != ["all"] or len(got) != 1 or not S.close(got[0], exp):
            return viol("gamma", "gamma (cost-weighted error)", got, float(exp), prediction=h)
    return (True, fp, None)


# ------------------------------------------------------------------ r = 1: '+' entries == MetricFrame by_group - overall
def _check_mf(case):
    import fairlearn.metrics as fm
    from sklearn.metrics import accuracy_score
    struct, mom, vseed = case
    d = M.materialize(struct, vseed)
    d["cf_in"] = d["c"]                       # MetricFrame and the moment get the same plain lists (containers are C01's business)
    d["sf_in"] = d["g"] if not d["desc"]["two_sensitive_columns"] else d["sf_in"]
    kw = M.BOUNDS[(vseed % 2) * 4]            # difference bound or default: r = 1
    fp = fingerprint(case)
    rng = np.random.default_rng(vseed + 2)
    h = [int(v) for v in rng.integers(0, 2, d["n"])]
    spec = M.ParitySpec(mom, d["g"], d["y"], d["c"], 1)
    nontrivial = len(spec.index) >= 2
    rp = {"moment": mom, "kwargs": kw, "prediction": h, **d["desc"]}

    def viol(which, what, got, exp):
        return (nontrivial, fp, (f"C06:{mom}:{which}", f"{mom}({kw}) {what}: got {got!r}, expected {exp!r} on y={d['y']} sensitive={d['g']} "
                                 f"control={d['c']} prediction={h}", {**rp, "got": repr(got), "expected": repr(exp)}))
    try:
        m = M.make_moment(mom, kw)
        M.load(m, d)
        g = m.gamma(lambda X: np.array(h))
        gv = {tuple(k): float(v) for k, v in zip(g.index, g.values)}
    except Exception as ex:
        return viol("load_data:raises", f"load_data/gamma raised {type(ex).__name__}", repr(ex)[:150], "no exception")
    metrics = {"all": (lambda yt, yp: 1 - accuracy_score(yt, yp)) if mom == "ErrorRateParity" else fm.selection_rate,
               "label=1": fm.true_positive_rate, "label=0": fm.false_positive_rate}
    try:
        mf = fm.MetricFrame(metrics=metrics, y_true=d["y"], y_pred=h, sensitive_features={"sf": d["g"]},
                            control_features=None if d["c"] is None else {"cf": d["c"]})
        by, ov = mf.by_group, mf.overall
    except Exception as ex:
        return viol("metricframe:raises", f"MetricFrame raised {type(ex).__name__}", repr(ex)[:150], "no exception")
    for (e, gg), rows in spec.rows_eg.items():
        i = rows[0]
        base = e.split(",")[-1] if d["c"] is not None else e
        if d["c"] is None:
            exp = float(by.loc[gg, base]) - float(ov[base])
        else:
            exp = float(by.loc[(d["c"][i], gg), base]) - float(ov.loc[d["c"][i], base])
        got = gv.get(("+", e, gg))
        if got is None or not S.close(got, exp):
            return viol("metricframe", f"gamma[('+', {e!r}, {gg!r})] vs MetricFrame by_group - overall of the matching rate", got, exp)
    return (nontrivial, fp, None)


def _check_label_dtype(case):
    """the label container dtype must not matter: gamma / bound / signed weights with labels stored as uint8, int8, bool or float equal those with plain int labels"""
    import fairlearn.reductions as R
    mom, dtype, seed = case
    rng = np.random.default_rng(seed)
    n = int(rng.integers(4, 10))
    y = rng.integers(0, 2, n); y[:2] = (0, 1)
    sf = rng.integers(0, 2, n); sf[:4] = (0, 0, 1, 1); y[2:4] = (0, 1)
    X = np.zeros((n, 1))
    h = rng.integers(0, 2, n).astype(float)
    fp = fingerprint(case)
    out = []
    for lab in (y.astype(int), y.astype(dtype)):
        m = getattr(R, mom)()
        m.load_data(X, lab, sensitive_features=sf)
        lam = pd.Series(np.linspace(0.1, 1.0, len(m.index)), index=m.index)
        out.append((m.gamma(lambda X_: h).to_numpy(dtype=float), np.asarray(m.signed_weights(lam), dtype=float)))
    same_shape = out[0][0].shape == out[1][0].shape and out[0][1].shape == out[1][1].shape
    if not same_shape or not (np.allclose(out[0][0], out[1][0], atol=1e-12) and np.allclose(out[0][1], out[1][1], atol=1e-12)):
        return (True, fp, (f"C06:{mom}:label-dtype", f"{mom} with labels {y.tolist()} stored as {np.dtype(dtype).name}: gamma {out[1][0].round(4).tolist()} / signed weights differ from the values "
                           f"with int labels {out[0][0].round(4).tolist()} (groups {sf.tolist()}, predictions {h.tolist()})",
                           {"moment": mom, "label_dtype": np.dtype(dtype).name, "y": y.tolist(), "sensitive_features": sf.tolist(), "h": h.tolist(),
                            "gamma": out[1][0].tolist(), "gamma_int_labels": out[0][0].tolist()}))
    return (True, fp, None)


def run_bounded(rep):
    rep.assume("A1", "A2")
    import itertools
    dcases = [(mom, dt, rep.seed * 977 + i) for i, (mom, dt) in enumerate(itertools.product(("DemographicParity", "TruePositiveRateParity", "FalsePositiveRateParity", "EqualizedOdds", "ErrorRateParity"),
                                                                                          (np.uint8, np.int8, np.uint16, np.float32, np.float64, bool))) for _ in range(2 if rep.tier == "quick" else 10)]
    run_cases(rep, "label_dtypes", rule="5 parity moments x labels stored as uint8/int8/uint16/float32/float64/bool: gamma and signed weights equal those with int labels (seeded small datasets)",
              bound="n <= 9", cases=dcases, check_case=_check_label_dtype, exhaustive=False)
    quick = rep.tier == "quick"
    nmax, hard_upto, n_rand = (5, 4, 400) if quick else (6, 5, 4000)
    structs = []
    for n in range(2, nmax + 1):
        structs += M.structures(n, 3, 0) + M.structures(n, 3, 3)
    rng = np.random.default_rng(rep.seed)
    cases = []
    for si, st in enumerate(structs):
        for mi, mom in enumerate(M.MOMENTS):
            k = (2 if len(st) < nmax else 1) if quick else (5 if len(st) < nmax else 3)
            bis = [(si + mi + 2 * j) % 5 for j in range(k)]
            for bi in bis:
                cases.append((st, mom, int(bi), int(rng.integers(0, 2**31)), hard_upto))
    for _ in range(n_rand):
        st = M.random_structure(rng, 4, 9, 4, int(rng.integers(0, 4)))
        cases.append((st, M.MOMENTS[int(rng.integers(0, 5))], int(rng.integers(0, 5)), int(rng.integers(0, 2**31)), hard_upto))
    run_cases(rep, "parity_moments",
              rule="every multiset of n rows (group,label[,stratum]) up to renaming, 2-3 groups, without / with one control feature of 1-3 strata, "
                   "x 5 parity moments x %s of 5 bound configurations (rotating), materialised with a seeded container/naming/row-order variant; all hard predictions "
                   "for n <= %d (else 0,1,units,3 seeded) + 3 seeded soft; plus %d seeded structures with <= 4 groups, n <= 9; "
                   "non-trivial = at least two constraints; distinct by full case" % ("2 (n = 5: 1)" if quick else "5 (n = 6: 3)", hard_upto, n_rand),
              bound=f"n <= {nmax} exhaustive structures, groups <= 3 (seeded: 4), strata <= 3", cases=cases, check_case=_check_parity, exhaustive=False)

    # loss moments / ErrorRate
    lmax, l_rand = (3, 300) if quick else (4, 2500)
    lcases = []
    for n in range(2, lmax + 1):
        for gs in itertools.product(range(3), repeat=n):
            if len(set(gs)) < 2 or list(dict.fromkeys(gs)) != list(range(len(set(gs)))):
                continue                      # restricted-growth strings: group partitions up to renaming
            for yv in itertools.product(Y_VALUES, repeat=n):
                for li in range(len(M.LOSSES)):
                    lcases.append(("bgl", gs, yv, li, (0.1, 0.0, 0.75)[(li + n) % 3], int(rng.integers(0, 2**31))))
    for _ in range(l_rand):
        n = int(rng.integers(lmax + 1, 9))
        gs = tuple(int(v) for v in rng.integers(0, 4, n))
        if len(set(gs)) < 2:
            gs = (gs[0], (gs[0] + 1) % 4) + gs[2:]
        yv = tuple(float(v) for v in rng.choice([-0.5, 0.0, 0.25, 0.6, 1.0, 1.5], n))
        lcases.append(("bgl", gs, yv, int(rng.integers(0, len(M.LOSSES))), float(rng.choice([0.1, 0.5])), int(rng.integers(0, 2**31))))
    for n in range(1, nmax + 1):
        for y in itertools.product((0, 1), repeat=n):
            for ci in range(len(M.COSTS)):
                lcases.append(("err", y, ci, int(rng.integers(0, 2**31))))
    run_cases(rep, "loss_moments",
              rule="BoundedGroupLoss: all group partitions (2-3 groups) x label vectors over {-0.5,.25,1,1.5}^n x 5 losses, 5 predictions each, plus "
                   "%d seeded (<= 4 groups, n <= 8); ErrorRate: all y in {0,1}^n x 6 cost settings, all hard + 4 soft predictions; distinct by full case" % l_rand,
              bound=f"BoundedGroupLoss n <= {lmax} exhaustive; ErrorRate n <= {nmax}", cases=lcases, check_case=_check_loss, exhaustive=False)

    mmax = 4 if quick else 5
    mcases = [(st, mom, int(rng.integers(0, 2**31))) for st in structs if len(st) <= mmax for mom in M.MOMENTS for _ in range(1 if quick else 2)]
    run_cases(rep, "metricframe_agreement",
              rule="structures as in parity_moments with n <= %d x 5 moments with r = 1, one seeded hard prediction (thorough: two): every '+' entry "
                   "equals MetricFrame by_group - overall of selection_rate / TPR / FPR / error rate (per stratum); non-trivial = at least two constraints" % mmax,
              bound=f"n <= {mmax}, groups <= 3, strata <= 3", cases=mcases, check_case=_check_mf, exhaustive=False)
