"""C18 bounded stand-in (labelled bounded, never counted as proved).

X: real `MetricFrame(..., n_boot=, ci_quantiles=, random_state=int)` on the full grid
     layout (1-2 sensitive features x 0-1 control feature) x metric specification (callable count | callable selection_rate | dict of one (accuracy with prediction = label in every row, i.e. constant over rows) |
     dict of four incl. a constant function and a weighted row count | callable mean_prediction over a constant prediction column) x
     n_boot in {1,5,30} x quantile list (length 1..4, one of them not sorted),
   with `reps` seeded datasets of 4..12 rows per grid point (2-3 values per feature, so groups and control levels vanish from some resamples).
   Checked for overall_ci, by_group_ci, group_min_ci(), group_max_ci(), difference_ci(method), ratio_ci(method), both methods:
     * a list with one entry per requested quantile, in request order;
     * each entry has the type of the point estimate (scalar / Series / DataFrame), the same name/columns, and the same index
       (by_group: index a subset of the point-estimate index in the same order; equal when n_boot = 30 and every group has >= 2 rows);
     * entries are element-wise non-decreasing in the quantile (NaN cells skipped; 1e-12 slack);
     * a second MetricFrame with the same integer random_state gives identical lists;
     * without control features the overall `count` (and the weighted row count 2n) equals n at every quantile; per control level the
       counts at the median quantile never exceed n;
     * constant metrics (constant function; mean_prediction of a constant column; accuracy when prediction = label in every row): every
       quantile of overall / by_group / group_min / group_max equals the point estimate, difference 0, ratio 1;
     * the last entry of a multi-quantile list equals the single entry obtained with ci_quantiles=[that quantile] and the same seed;
     * count without control features: group_max_ci >= n/#groups and group_min_ci <= group_max_ci at every quantile.
   The 'positive width' clause of the statement is not decided (observation only, see DESIGN); nothing fails on it.
   No oracle replicates the seed stream: values of the quantiles are only constrained by the clauses above.

NOT checked: RandomState / None as random_state, values of the quantiles for non-constant metrics, argument validation (C20).

Sensitivity self-test (scratch worktrees under /tmp/agent_C15, quick tier; keys C18:<...> that fired):
  1 resamples of n/2 rows (`frac=0.5`)                                   -> overall_ci:row-count
  2 integer random_state ignored (`default_rng()`)                       -> *_ci:reproducible
  3 Series quantiles returned in reverse order                           -> overall_ci/group_min_ci/group_max_ci:order
  4 DataFrame quantiles: every entry is the first quantile               -> *_ci:entry-per-quantile (missed before that check was added)
  5 (not run) Series name dropped                                        -> would hit *_ci:name
  6 resamples of n+1 rows                                                -> overall_ci:row-count
  7 group_max_ci computed with "min"                                     -> group_max_ci:row-count (count: max group size >= n/#groups)
  9 first data column resampled independently of the other columns       -> overall_ci:constant-metric (accuracy with prediction = label)
 10 difference_ci / ratio_ci swapped                                     -> difference_ci:constant-metric
 13 resample indices aligned by intersection instead of union            -> by_group_ci:index, MetricFrame:raises
 Not detectable by this stand-in (no oracle for the seed stream): by_group_ci computed from n_boot-1 of the resamples; a wrong quantile
 method that stays monotone.
"""
import itertools

import numpy as np

from ..report import fingerprint
from .harness import run_cases

LAYOUTS = ((1, 0), (2, 0), (1, 1), (2, 1))
METRICS = ("count", "selection_rate", "dict1", "dict4", "constcol")
NBOOT = (1, 5, 30)
QLISTS = ((0.5,), (0.1, 0.9), (0.05, 0.5, 0.95), (0.2, 0.4, 0.6, 0.8), (0.9, 0.1, 0.5))
CONST = 3.5


def _const_metric(y_true, y_pred):
    return CONST


def _weight_total(y_true, y_pred, sample_weight):
    return float(np.sum(sample_weight))


def _build(case):
    import pandas as pd
    (nsf, ncf), mname, n_boot, ql, seed = case
    rng = np.random.default_rng([seed, nsf, ncf, METRICS.index(mname), n_boot, len(ql)])
    n = int(rng.integers(4, 13))
    yt = rng.integers(0, 2, n)
    yp = rng.integers(0, 2, n)
    k1 = int(rng.integers(2, 4))
    sf = {"sf1": np.array(["a", "b", "c"])[np.concatenate([np.arange(k1), rng.integers(0, k1, n - k1)])[rng.permutation(n)]]}
    if nsf == 2:
        sf["sf2"] = rng.integers(0, 2, n)
    cf = {"cf": np.array(["x", "y"])[np.concatenate([[0, 1], rng.integers(0, 2, n - 2)])[rng.permutation(n)]]} if ncf else None
    import fairlearn.metrics as fm
    from sklearn.metrics import accuracy_score
    sp = None
    if mname == "count":
        metrics = fm.count
    elif mname == "selection_rate":
        metrics = fm.selection_rate
    elif mname == "dict1":
        metrics, yp = {"acc": accuracy_score}, yt.copy()       # prediction = label in every row: accuracy is 1 on every resample of ROWS
    elif mname == "dict4":
        metrics = {"count": fm.count, "sel": fm.selection_rate, "const": _const_metric, "wtotal": _weight_total}
        sp = {"wtotal": {"sample_weight": np.full(n, 2.0)}}
    else:
        metrics, yp = fm.mean_prediction, np.full(n, 0.7)
    kw = dict(metrics=metrics, y_true=yt, y_pred=yp, sensitive_features=pd.DataFrame(sf))
    if cf:
        kw["control_features"] = pd.DataFrame(cf)
    if sp:
        kw["sample_params"] = sp
    return kw, n


def _cells(obj):
    """flat list of (label, column or None, value) cells of a scalar / Series / DataFrame (positional access: labels may repeat or be NaN)."""
    import pandas as pd
    if isinstance(obj, pd.DataFrame):
        return [((i, c), c, obj.iloc[r, j]) for r, i in enumerate(obj.index) for j, c in enumerate(obj.columns)]
    if isinstance(obj, pd.Series):
        return [(i, None, obj.iloc[r]) for r, i in enumerate(obj.index)]
    return [((), None, obj)]


def _kind(obj):
    import pandas as pd
    return "DataFrame" if isinstance(obj, pd.DataFrame) else "Series" if isinstance(obj, pd.Series) else ("scalar" if np.ndim(obj) == 0 else type(obj).__name__)


def _same(a, b):
    import pandas as pd
    if isinstance(a, (pd.Series, pd.DataFrame)):
        return type(a) is type(b) and a.index.equals(b.index) and a.equals(b)
    return (a == b) or (a != a and b != b)


def _check(case):
    from fairlearn.metrics import MetricFrame
    (nsf, ncf), mname, n_boot, ql, seed = case
    kw, n = _build(case)
    fp = fingerprint(case)
    nontrivial = n_boot > 1
    rs = int(seed % 1000)
    desc = f"[{nsf} sensitive, {ncf} control, metrics={mname}, n={n}, n_boot={n_boot}, ci_quantiles={list(ql)}, random_state={rs}]"
    replay = {"y_true": kw["y_true"].tolist(), "y_pred": kw["y_pred"].tolist(), "sensitive_features": {k: v.tolist() for k, v in kw["sensitive_features"].items()},
              "control_features": {k: v.tolist() for k, v in kw["control_features"].items()} if "control_features" in kw else None,
              "metrics": mname, "n_boot": n_boot, "ci_quantiles": list(ql), "random_state": rs}

    def viol(which, what, got=None, exp=None):
        return (nontrivial, fp, (f"C18:{which}", f"{what}: got {repr(got)[:200]}, expected {repr(exp)[:200]} {desc}", dict(replay, got=repr(got)[:500], expected=repr(exp)[:500])))
    try:
        mf = MetricFrame(n_boot=n_boot, ci_quantiles=list(ql), random_state=rs, **kw)
        mf2 = MetricFrame(n_boot=n_boot, ci_quantiles=list(ql), random_state=rs, **kw)
        mf1 = MetricFrame(n_boot=n_boot, ci_quantiles=[ql[-1]], random_state=rs, **kw) if len(ql) > 1 else None
    except Exception as ex:
        return viol("MetricFrame:raises", f"MetricFrame with bootstrap raised {type(ex).__name__}", repr(ex)[:200], "a MetricFrame")
    acc = [("overall_ci", lambda m: m.overall_ci, lambda m: m.overall), ("by_group_ci", lambda m: m.by_group_ci, lambda m: m.by_group),
           ("group_min_ci", lambda m: m.group_min_ci(), lambda m: m.group_min()), ("group_max_ci", lambda m: m.group_max_ci(), lambda m: m.group_max())]
    for meth in ("between_groups", "to_overall"):
        acc.append((f"difference_ci[{meth}]", lambda m, meth=meth: m.difference_ci(method=meth), lambda m, meth=meth: m.difference(method=meth)))
        acc.append((f"ratio_ci[{meth}]", lambda m, meth=meth: m.ratio_ci(method=meth), lambda m, meth=meth: m.ratio(method=meth)))
    order = sorted(range(len(ql)), key=lambda i: ql[i])
    group_sizes = kw["sensitive_features"].assign(**({"cf": kw["control_features"]["cf"]} if ncf else {})).value_counts()
    for name, get_ci, get_pt in acc:
        short = name.split("[")[0]
        try:
            ci, ci2, pt = get_ci(mf), get_ci(mf2), get_pt(mf)
            single = get_ci(mf1) if mf1 is not None else None
        except Exception as ex:
            return viol(f"{short}:raises", f"{name} raised {type(ex).__name__}", repr(ex)[:200], "a list of results")
        if not isinstance(ci, list) or len(ci) != len(ql):
            return viol(f"{short}:list-length", f"{name} is not a list with one entry per quantile", (type(ci).__name__, len(ci) if hasattr(ci, "__len__") else None), len(ql))
        for qi, e in enumerate(ci):
            if _kind(e) != _kind(pt):
                return viol(f"{short}:type", f"{name}[{qi}] has another type than the point estimate", _kind(e), _kind(pt))
            if _kind(pt) == "DataFrame" and list(e.columns) != list(pt.columns):
                return viol(f"{short}:columns", f"{name}[{qi}] columns", list(e.columns), list(pt.columns))
            if _kind(pt) == "Series" and e.name != pt.name:
                return viol(f"{short}:name", f"{name}[{qi}] Series name", e.name, pt.name)
            if _kind(pt) != "scalar":
                ei, pi = list(e.index), list(pt.index)
                # statement: same index as the point estimate "for groups that occur in at least one resample" - a sensitive group or a control level that no
                # resample contains (possible for tiny n_boot / single-member levels) is absent; everything present keeps the point estimate's order
                sub = [x for x in pi if x in set(ei)]
                full = n_boot >= 30 and int(group_sizes.min()) >= 2
                if ei != sub or e.index.names != pt.index.names or (full and ei != pi):
                    return viol(f"{short}:index", f"{name}[{qi}] index is not the point-estimate index (restricted to groups / control levels seen in a resample)", ei, pi)
            if not _same(e, ci2[qi]):
                return viol(f"{short}:reproducible", f"{name}[{qi}] differs between two MetricFrames built with random_state={rs}",
                            [v for *_, v in _cells(e)], [v for *_, v in _cells(ci2[qi])])
        if single is not None and not (len(single) == 1 and _same(single[0], ci[-1])):
            return viol(f"{short}:entry-per-quantile", f"{name}[-1] (quantile {ql[-1]}) differs from the only entry obtained with ci_quantiles=[{ql[-1]}] and the same seed",
                        [v for *_, v in _cells(ci[-1])], [v for *_, v in _cells(single[0])] if len(single) == 1 else single)
        cells = [_cells(e) for e in ci]
        for a, b in zip(order, order[1:]):
            for (lab, _, va), (_, _, vb) in zip(cells[a], cells[b]):
                if va == va and vb == vb and float(va) > float(vb) + 1e-12 * max(1.0, abs(float(vb))):
                    return viol(f"{short}:order", f"{name} at {lab!r}: quantile {ql[a]} exceeds quantile {ql[b]}", float(va), f"<= {float(vb)}")
        # constant metrics and row counts
        ptc = dict((repr(k), v) for k, _, v in _cells(pt))
        is_dict = mname in ("dict1", "dict4")
        for qi, cl in enumerate(cells):
            for lab, col, v in cl:
                if col is None and is_dict and _kind(pt) == "Series":
                    col = lab            # dict metrics without control features: aggregates are Series indexed by the metric name
                is_const = mname == "constcol" or col in ("const", "acc")
                if v != v:
                    continue
                if is_const:
                    base = {"difference_ci": 0.0, "ratio_ci": 1.0}.get(short, CONST if col == "const" else 1.0 if col == "acc" else 0.7)
                    p = ptc.get(repr(lab), base)
                    if abs(float(v) - base) > 1e-9 or (p == p and abs(float(v) - float(p)) > 1e-9):
                        return viol(f"{short}:constant-metric", f"{name}[{qi}] at {lab!r}: a metric that is constant over the rows must have every quantile equal to the point estimate",
                                    float(v), float(p) if p == p else base)
                if short == "overall_ci" and not ncf and (mname == "count" or col in ("count", "wtotal")):
                    exp = 2.0 * n if col == "wtotal" else float(n)
                    if abs(float(v) - exp) > 1e-9:
                        return viol("overall_ci:row-count", f"{name}[{qi}] {col or 'count'}: every resample has exactly n rows", float(v), exp)
                if short in ("overall_ci", "by_group_ci", "group_max_ci", "group_min_ci") and (mname == "count" or col == "count") and float(v) > n + 1e-9:
                    return viol(f"{short}:row-count", f"{name}[{qi}] at {lab!r}: a count above the number of rows", float(v), f"<= {n}")
    # every resample has n rows in at most k groups: the largest group count is at least n/k; min <= max at every quantile
    if not ncf and mname in ("count", "dict4"):
        k = len(mf.by_group.index)
        for qi, (lo, hi) in enumerate(zip(mf.group_min_ci(), mf.group_max_ci())):
            lo, hi = (lo, hi) if mname == "count" else (lo["count"], hi["count"])
            if float(hi) < n / k - 1e-9 or float(lo) > float(hi) + 1e-9:
                return viol("group_max_ci:row-count", f"count: group_max_ci[{qi}] must be >= n/groups = {n}/{k} and >= group_min_ci[{qi}]", (float(lo), float(hi)), f">= {n / k}")
    return (nontrivial, fp, None)


def _check_single(case):
    """direct run-time contract of generate_single_bootstrap_sample: every resample has exactly n rows, each a row of the data, and over many seeds EVERY data
    row is drawn (first, middle and last alike) - also when some columns contain NaN; group rows keep their columns together (whole rows are drawn)"""
    import pandas as pd
    from fairlearn.metrics._annotated_metric_function import AnnotatedMetricFunction
    from fairlearn.metrics._bootstrap import generate_single_bootstrap_sample
    n, with_nan, seed0 = case[:3]
    with_cf = len(case) > 3 and bool(case[3])          # a control feature whose first level has a single member (it is absent from many resamples)
    fp = fingerprint(case)
    ids = np.arange(100, 100 + n)
    yp = ids.astype(float) * 2.0
    if with_nan:
        yp[[0, n - 1] if n > 1 else [0]] = np.nan
    df = pd.DataFrame({"y_true": ids, "y_pred": yp, "sf": ["g%d" % (i % 2) for i in range(n)]})
    if with_cf:
        df["cf"] = ["rare"] + ["c%d" % (i % 2) for i in range(1, n)]
    seen_rows, sizes, bad_pair = set(), [], []

    def rec(y_true, y_pred):
        for t, p in zip(y_true, y_pred):
            seen_rows.add(int(t))
            if not (p == 2.0 * t or (with_nan and p != p)):
                bad_pair.append((int(t), float(p)))
        return len(y_true)
    amf = AnnotatedMetricFunction(func=rec, name="rec", positional_argument_names=["y_true", "y_pred"])
    draws = 40 + 40 * n
    for s_ in range(seed0, seed0 + draws):
        seen_rows_before = len(seen_rows)
        try:
            r = generate_single_bootstrap_sample(random_state=s_, data=df, annotated_functions={"rec": amf}, sensitive_feature_names=["sf"],
                                                 control_feature_names=["cf"] if with_cf else None)
        except Exception as ex:
            return (True, fp, ("C18:single-sample:raises", f"generate_single_bootstrap_sample raised {type(ex).__name__}: {ex} [n={n} NaN cells={with_nan} seed={s_}]"[:300],
                               {"n": n, "with_nan": with_nan, "random_state": s_}))
        sizes.append(int(np.nansum(np.asarray(r.overall["rec"], dtype=float))))          # with a control feature: one row count per control level that was drawn
        if sizes[-1] != n:
            return (True, fp, ("C18:single-sample:row-count", f"a resample of {n} data rows has {sizes[-1]} rows (random_state={s_}, NaN cells in the data: {with_nan}, "
                               f"control feature with a single-member level: {with_cf})",
                               {"n": n, "with_nan": with_nan, "control_feature": with_cf, "random_state": s_, "rows_in_resample": sizes[-1]}))
    if bad_pair:
        return (True, fp, ("C18:single-sample:rows-not-kept-together", f"a resampled row pairs y_true with another row's y_pred: {bad_pair[:3]}", {"n": n, "pairs": bad_pair[:5]}))
    missing = sorted(set(int(i) for i in ids) - seen_rows)
    if missing:
        return (True, fp, ("C18:single-sample:row-never-drawn", f"data row(s) with id {missing} (positions {[m - 100 for m in missing]} of {n}) were never drawn in {draws} resamples "
                           f"(probability of that under uniform resampling < 1e-15)", {"n": n, "with_nan": with_nan, "never_drawn_positions": [m - 100 for m in missing], "resamples": draws}))
    return (True, fp, None)


def _check_distinct(case):
    """'the resamples differ': within one run of generate_bootstrap_samples (n_samples in 2..4, integer seed) the resamples handed to the metric are pairwise
    different multisets of rows (two equal resamples of 30 rows have probability < 1e-20 under independent uniform resampling)"""
    import pandas as pd
    from fairlearn.metrics._annotated_metric_function import AnnotatedMetricFunction
    from fairlearn.metrics._bootstrap import generate_bootstrap_samples
    n_samples, seed = case
    fp = fingerprint(case)
    n = 30
    df = pd.DataFrame({"y_true": np.arange(n), "y_pred": np.arange(n) % 2, "sf": ["g%d" % (i % 2) for i in range(n)]})
    drawn = []

    def rec(y_true, y_pred):
        if len(y_true) == n:          # the overall evaluation of one resample (the by-group evaluations see fewer rows)
            drawn.append(tuple(sorted(int(t) for t in y_true)))
        return len(y_true)
    amf = AnnotatedMetricFunction(func=rec, name="rec", positional_argument_names=["y_true", "y_pred"])
    try:
        generate_bootstrap_samples(n_samples=n_samples, random_state=seed, data=df, annotated_functions={"rec": amf}, sensitive_feature_names=["sf"],
                                   control_feature_names=None)
    except Exception as ex:
        return (True, fp, ("C18:bootstrap-samples:raises", f"generate_bootstrap_samples(n_samples={n_samples}, random_state={seed}) raised {type(ex).__name__}: {ex}"[:300],
                           {"n_samples": n_samples, "random_state": seed}))
    if len(drawn) != n_samples or len(set(drawn)) != len(drawn):
        return (True, fp, ("C18:bootstrap-samples:identical-resamples", f"generate_bootstrap_samples(n_samples={n_samples}, random_state={seed}) on {n} distinct rows evaluated "
                           f"{len(drawn)} resamples of which only {len(set(drawn))} are different", {"n_samples": n_samples, "random_state": seed, "rows": n,
                                                                                                   "resamples": [list(d) for d in drawn]}))
    return (True, fp, None)


def run_bounded(rep):
    rep.assume("A2", "A7")
    reps = 2 if rep.tier == "quick" else 16
    cases = [(lay, m, nb, ql, rep.seed * 1000 + r) for lay, m, nb, ql in itertools.product(LAYOUTS, METRICS, NBOOT, QLISTS) for r in range(reps)]
    single = [(n, nan, rep.seed * 7919 + 13 * n) for n in (1, 2, 3, 5, 8) for nan in (False, True)]
    single += [(n, False, rep.seed * 7919 + 13 * n, True) for n in (3, 5, 8)]
    run_cases(rep, "single_resample_rtc",
              rule="generate_single_bootstrap_sample called directly with a recording metric: n in {1,2,3,5,8} rows x (no NaN | NaN in the prediction column of the first and last row), "
                   "plus n in {3,5,8} with a control feature that has a single-member level; 40+40n integer seeds each: n rows per resample, rows kept together, every data row drawn at least once", bound="n <= 8, <= 360 seeds", cases=single,
              check_case=_check_single, exhaustive=False)
    dist = [(k, rep.seed * 101 + j) for k in (2, 3, 4) for j in range(12 if rep.tier == "quick" else 100)]
    run_cases(rep, "resamples_differ_rtc",
              rule="generate_bootstrap_samples called directly with a recording metric on 30 distinct rows, n_samples in {2,3,4} x integer seeds: the resamples of one run "
                   "are pairwise different multisets of rows", bound="30 rows, n_samples <= 4", cases=dist, check_case=_check_distinct, exhaustive=False)
    run_cases(rep, "bootstrap_ci_rtc",
              rule="full grid layout (sensitive,control) %s x metrics %s x n_boot %s x ci_quantiles %s, %d seeded datasets of 4..12 rows per grid point "
                   "(2-3 values per feature, groups vanish from resamples); checks: list/shape/type/index, order in q, reproducibility, row count, constant "
                   "metric; non-trivial = n_boot > 1; distinct by full case" % (list(LAYOUTS), list(METRICS), list(NBOOT), [list(q) for q in QLISTS], reps),
              bound="n <= 12 rows, <= 2 sensitive + 1 control feature, n_boot <= 30, <= 4 quantiles", cases=cases, check_case=_check, exhaustive=False)
