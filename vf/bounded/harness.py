"""Bounded stand-in harness: run-time contract checks of the REAL code over an enumerated scope, in parallel.

A stand-in is always labelled *bounded* in the evidence and is never counted as proved.

    run_cases(rep, name, rule, bound, cases, check_case, exhaustive=...)

`cases` is a list (materialised in the parent); `check_case(case)` runs the real code on one case and returns
    (nontrivial: bool, fingerprint, violation_or_None)      violation = (key, what, replay_dict)
Any unexpected exception raised inside check_case is a checker error unless check_case turns it into a violation itself
(code under test raising on valid input must be caught there and reported as a violation with its own key).
"""
import multiprocessing as mp
import os
import traceback

from ..report import fingerprint

_JOB = {}


def _work(rng):
    lo, hi = rng
    cases, fn = _JOB["cases"], _JOB["fn"]
    ev, fps, samples, viols, errors = 0, set(), [], {}, []
    for i in range(lo, hi):
        case = cases[i]
        try:
            nontrivial, fp, v = fn(case)
        except Exception as ex:
            # an exception escaping check_case: raised inside fairlearn (innermost frame in the repository) = the code under test failed on a
            # valid case -> violation; raised in the harness itself -> checker error (never reported as a violation)
            tb = traceback.extract_tb(ex.__traceback__)
            inner = tb[-1].filename if tb else ""
            in_repo = "/fairlearn/" in inner and "/verif/" not in inner
            text = traceback.format_exc()[-700:]
            if in_repo:
                key = f"{_JOB.get('name', 'standin')}:raises:{type(ex).__name__}:{os.path.basename(inner)}:{tb[-1].name}"
                if key not in viols and len(viols) < 20:
                    viols[key] = (key, f"fairlearn raised {type(ex).__name__} on a valid case of the stand-in: {str(ex)[:200]}", {"case": repr(case)[:1500], "traceback": text})
                ev += 1
                continue
            errors.append(f"case {i}: " + text)
            if len(errors) > 3:
                break
            continue
        ev += 1
        if nontrivial:
            fps.add(fp if fp is not None else fingerprint(case))
        if len(samples) < 2:
            samples.append(case)
        if v is not None and v[0] not in viols and len(viols) < 20:
            viols[v[0]] = v
    return ev, fps, samples, list(viols.values()), errors


def run_cases(rep, name, rule, bound, cases, check_case, exhaustive=False, workers=None, serial=False):
    rep.standin(name, rule, bound, exhaustive)
    cases = list(cases)
    if not cases:
        return
    workers = workers or int(os.environ.get("VF_WORKERS", "0") or 0) or min(16, os.cpu_count() or 4)
    _JOB["cases"], _JOB["fn"], _JOB["name"] = cases, check_case, f"{rep.pid}:{name}"
    n = len(cases)
    if serial or n < 32 or workers == 1:
        results = [_work((0, n))]
    else:
        step = max(1, n // (workers * 4))
        ranges = [(i, min(n, i + step)) for i in range(0, n, step)]
        with mp.get_context("fork").Pool(workers) as pool:
            results = pool.map(_work, ranges)
    for ev, fps, samples, viols, errors in results:
        rep.merge_cases(name, ev, fps, samples)
        for (key, what, replay) in viols:
            rep.violation(key, what, replay)
        for e in errors:
            rep.error(f"stand-in {name}: {e}")
    _JOB.clear()
