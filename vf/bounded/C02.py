"""C02 bounded stand-in (labelled bounded, never counted as proved): group_min / group_max / difference / ratio against the formulas of the statement.

Scope (X):
  tables_exhaustive  DisaggregatedResult(overall, by_group) fed directly: one sensitive feature, no control feature, every by_group column with
                     <= 3 groups over the grid {-2,-1,0,0.25,0.5,1,2,NaN}, one column per overall value in the grid (7 columns per frame)
  tables_sampled     seeded value tables: <= 4 groups (1-2 sensitive features) x <= 4 strata (0-2 control features), 1-3 metric columns, cells from
                     the grid (NaN = empty combination; whole strata may be empty), overall from the grid
  lookup_metric      MetricFrame (public accessors, bare callable and dict) with a lookup metric that returns the prescribed cell / overall value,
                     so that the same kind of tables is reached through by_group/overall, _populate_results, the result cache and _extract_result
  weighted_means     MetricFrame end to end with selection_rate / accuracy_score / mean_prediction (+/- sample_weight, 1-2 sensitive, 0-1 control
                     features): all of the above plus  difference(to_overall) <= difference(between_groups)
Oracle (per control combination c and metric, V = the non-NaN cells of the stratum, o = overall of the stratum; exact Fractions of the floats):
  group_min = min V, group_max = max V, difference(between) = max V - min V, difference(to_overall) = max |v - o|,
  ratio(between) = min V / max V, ratio(to_overall) = min_v min(r, 1/r) with r = v/o (r = 0 -> 0),
  errors='raise' == errors='coerce'; difference >= 0; ratio <= 1; ratio >= 0 if V >= 0 (and o > 0); between <= 2 * to_overall.
  In the MetricFrame scopes V and o are read from the frame's own by_group / overall (C01 is about those), never recomputed by fairlearn calls.
  Zero denominator of ratio(between): max V = 0 gives the floating-point quotient (0/0 = NaN, negative/0 = -inf).  Cells equal to +inf (family
  infinite_cells: non-negative cells, finite positive overall) follow the IEEE rules (inf - inf = NaN, finite/inf = 0, min(r, 1/r) = 0 for r = inf).
  Left to the code (statement undefined): strata without any non-empty group, o = 0 or NaN for the to_overall forms.
  Known finding D13 (key C02:ratio:negative-values) is reported only when (a) all of V is negative and ratio(between) = min/max > 1 or
  (b) some r < 0 and ratio(to_overall) equals min over ratio_sub_one(r) with ratio_sub_one(r) = r for r < 0; every other mismatch gets its own key.
NOT checked: non-scalar cells (errors='coerce' vs 'raise' differ there by design), bootstrap (_ci) variants, invalid method/errors strings,
  NaN returned by a metric on a non-empty group (covered only as a NaN cell of the direct tables).

Sensitivity self-test (edits applied to a copy of a scratch worktree of /repo; "check" = VIOLATION printed by
`VERIF_REPO=<copy> ./check C02 --tier quick --only X`, "pre" = same check functions over 600 shuffled quick cases in one process):
  DR = _disaggregated_result.py, MF = _metric_frame.py
  DR difference, no control: (mf - subtrahend).max() (abs dropped)          check  C02:difference:to_overall:value
  DR difference, control: .groupby(...).max().abs()                         check  C02:difference:to_overall:value
  DR difference, no control: .max().abs()                                   pre    C02:difference:to_overall:value
  DR difference to_overall: subtrahend = overall of the first stratum       check  C02:difference:to_overall:value (needs >= 2 strata)
  DR difference between: subtrahend = global min (control ignored)          pre    C02:difference:between_groups:value (needs >= 2 strata)
  DR difference: empty cells filled with 0                                  pre    C02:difference:between_groups:value / to_overall:value
  DR ratio between: max / min                                               check  C02:ratio:between_groups:value, C02:ratio:between_groups:gt-one
  DR ratio to_overall: ratios.max()                                         pre    C02:ratio:to_overall:value
  DR ratio to_overall: result = ratios.min().unstack(-1)                    pre    C02:ratio:layout
  DR ratio_sub_one: "if x > 1.5"                                            check  C02:ratio:to_overall:value
  DR ratio to_overall: overall.unstack(...).bfill(axis=1)                   pre    C02:ratio:raises
  DR ratio to_overall: overall.unstack(level=control_feature_names[::-1])   pre    not caught - equivalent (pandas aligns the levels by name)
  DR apply_grouping raise/control: groupby(level=control_feature_names[0])  pre    C02:group_min:layout (needs 2 control features)
  DR apply_grouping coerce/control: .agg("max") always                      check  C02:group_min:value
  DR apply_grouping coerce/no control: .agg("min") always                   pre    C02:group_max:value
  DR apply_grouping raise/no control: agg(..., skipna=False)                check  C02:group_min:value (needs an empty combination)
  DR overall computed with unit sample weights                              check  C02:difference:to_overall-gt-between (weighted_means scope only)
  MF group_min() reads the group_max cache entry                            pre    C02:group_min:value
  MF _populate_results: difference always method="between_groups"           pre    C02:difference:to_overall:value
  MF _populate_results: ratio(None, ...) (control levels ignored)           pre    C02:ratio:raises, C02:ratio:layout
  MF _group: _extract_result(result, no_control_levels=True)                pre    C02:group_min:raises
  MF ratio() reads the between_groups cache entry for every method          pre    C02:ratio:to_overall:value
"""
import itertools
import math

import numpy as np

from .. import speclib as S
from ..report import fingerprint
from . import _mframe as M
from .harness import run_cases

KNOWN_NEG = "C02:ratio:negative-values"
GRID = (-2.0, -1.0, 0.0, 0.25, 0.5, 1.0, 2.0, None)
KINDS = (("group_min", None), ("group_max", None), ("difference", "between_groups"), ("difference", "to_overall"),
         ("ratio", "between_groups"), ("ratio", "to_overall"))
SENS = ((2,), (3,), (4,), (2, 2), (1,), (1, 3))
CTRL = ((), (), (1,), (2,), (3,), (2, 2), (1, 2))
SLAB = (("a", "b", "c", "d"), (7, 3, 5, 1))
CLAB = (("x", "y", "z"), (1, 0, 2))
NAN = math.nan


def eq(a, b, tol=1e-9):
    if a != a or b != b:
        return a != a and b != b
    return a == b or abs(a - b) <= tol * max(1.0, abs(a), abs(b))


def sub_one(r, spec):
    """min(r, 1/r) of the statement (spec) / ratio_sub_one as described by known finding D13 (not spec)"""
    if r == 0:
        return r
    return min(r, 1 / r) if (spec or r > 0) else r


def check_tables(bg, ov, nc, names, agg, weighted_mean=False):
    """bg {(key, metric): float}, ov {(control key, metric): float}, agg(kind, method, errors) -> {(control key, metric): float}.
    Returns (key suffix, text, got, expected) of the first deviation from the statement, or None."""
    res = {}
    for kind, method in KINDS:
        for e in ("raise", "coerce"):
            try:
                res[(kind, method, e)] = agg(kind, method, e)
            except M.Layout as ex:
                return (f"{kind}:layout", f"{kind}(method={method}, errors={e}): {ex}", None, None)
            except Exception as ex:
                return (f"{kind}:raises", f"{kind}(method={method}, errors={e}) raised {type(ex).__name__}: {str(ex)[:100]}", None, None)
    strata, known = {}, None         # known: first occurrence of known finding D13; reported only if nothing else deviates
    for (k, nm), v in bg.items():
        strata.setdefault((k[:nc], nm), []).append(v)
    for (ck, nm), cells in sorted(strata.items(), key=repr):
        Vf = [v for v in cells if v == v]
        if not Vf:
            continue
        o = ov.get((ck, nm), NAN)
        o_ok = o == o and not math.isinf(o)
        where = f"stratum {ck} metric {nm}: cells {cells} overall {o}"
        if any(math.isinf(v) for v in Vf):
            # a metric may return +inf (e.g. odds of a group in which everybody is selected): the formulas are then the IEEE ones (inf - inf = NaN,
            # finite / inf = 0, 1 / inf = 0); this family only has non-negative cells and a finite positive overall
            V, oF = Vf, (float(o) if o_ok else None)
            lo, hi = min(V), max(V)
            exp = {("group_min", None): lo, ("group_max", None): hi, ("difference", "between_groups"): (hi - lo) if not (math.isinf(lo) and math.isinf(hi)) else NAN,
                   ("difference", "to_overall"): max(abs(v - oF) for v in V) if o_ok else None,
                   ("ratio", "between_groups"): (NAN if math.isinf(lo) else 0.0) if math.isinf(hi) else lo / hi,
                   ("ratio", "to_overall"): min((0.0 if math.isinf(v) else sub_one(v / oF, True)) for v in V) if o_ok and oF > 0 else None}
        else:
            V = [S.F(v) for v in Vf]
            lo, hi = min(V), max(V)
            oF = S.F(o) if o_ok else None
            # zero denominator (quantifier: "including zero denominators"): group_min / group_max is the floating-point quotient, 0/0 = NaN, negative/0 = -inf
            exp = {("group_min", None): lo, ("group_max", None): hi, ("difference", "between_groups"): hi - lo,
                   ("difference", "to_overall"): max(abs(v - oF) for v in V) if o_ok else None,
                   ("ratio", "between_groups"): lo / hi if hi != 0 else (NAN if lo == 0 else -math.inf),
                   ("ratio", "to_overall"): min(sub_one(v / oF, True) for v in V) if o_ok and oF != 0 else None}
        for e in ("raise", "coerce"):
            got = {}
            for km in KINDS:
                if (ck, nm) not in res[km + (e,)]:
                    return (f"{km[0]}:index", f"{km[0]}(method={km[1]}, errors={e}) has no entry for {where}", None, None)
                got[km] = res[km + (e,)][(ck, nm)]
            for km in KINDS:
                g, x = got[km], exp[km]
                tag = f"{km[0]}:{km[1]}" if km[1] else km[0]
                call = f"{km[0]}({'method=' + km[1] + ', ' if km[1] else ''}errors={e})"
                if x is not None and not eq(g, float(x)):
                    if km == ("ratio", "to_overall") and any(v / oF < 0 for v in V) and eq(g, float(min(sub_one(v / oF, False) for v in V))):
                        known = known or ("ratio:negative-values", f"{call} is not min(r, 1/r) for a negative r, {where}", g, float(x))
                        continue
                    return (f"{tag}:value", f"{call}, {where}", g, float(x))
                if g != g:
                    continue
                if km[0] == "difference" and g < -1e-12:
                    return (f"{tag}:negative", f"{call} is negative, {where}", g, ">= 0")
                if km[0] == "ratio" and g > 1 + 1e-9:
                    if km[1] == "between_groups" and hi < 0:
                        known = known or ("ratio:negative-values", f"{call} exceeds 1 (all group values negative), {where}", g, "<= 1")
                        continue
                    return (f"{tag}:gt-one", f"{call} exceeds 1, {where}", g, "<= 1")
                if km[0] == "ratio" and g < -1e-12 and lo >= 0 and (km[1] == "between_groups" or (o_ok and o > 0)):
                    return (f"{tag}:negative", f"{call} is negative for a non-negative metric, {where}", g, ">= 0")
            db, do = got[("difference", "between_groups")], got[("difference", "to_overall")]
            if o_ok and db == db and do == do:
                if db > 2 * do + 1e-9 * max(1.0, abs(db)):
                    return ("difference:between-gt-twice-to_overall", f"difference between_groups > 2 * to_overall (errors={e}), {where}", db, 2 * do)
                if weighted_mean and do > db + 1e-9 * max(1.0, abs(db)):
                    return ("difference:to_overall-gt-between", f"difference to_overall > between_groups for a weighted-mean metric (errors={e}), {where}", do, db)
        for km in KINDS:
            a, b = res[km + ("raise",)][(ck, nm)], res[km + ("coerce",)][(ck, nm)]
            if not eq(a, b):
                return (f"{km[0]}:raise-vs-coerce", f"{km[0]}(method={km[1]}) differs between errors='raise' and 'coerce', {where}", a, b)
    return known


def _finish(case, nontrivial, r, desc):
    fp = fingerprint(case)
    if r is None:
        return (nontrivial, fp, None)
    which, text, got, exp = r
    return (nontrivial, fp, (f"C02:{which}", f"{text}" + (f": got {got!r}, statement gives {exp!r}" if exp is not None else "") + f" [{desc}]",
                             {"case": list(case), "desc": desc, "got": repr(got), "expected": repr(exp)}))


def _levels(sens, ctrl, lab):
    sl = [list(SLAB[(lab + j) % 2][:k]) for j, k in enumerate(sens)]
    cl = [list(CLAB[(lab + j) % 2][:k]) for j, k in enumerate(ctrl)]
    return sl, cl, [f"s{j}" for j in range(len(sens))], [f"c{j}" for j in range(len(ctrl))]


def _index(levels, names):
    import pandas as pd
    return pd.MultiIndex.from_product(levels, names=names) if len(levels) > 1 else pd.Index(levels[0], name=names[0])


def _nontrivial(cells):
    """some stratum has two different non-NaN cells"""
    return any(len({v for v in st if v is not None}) >= 2 for col in cells for st in col)


# ---------------------------------------------------------------------------------------------- value tables fed to DisaggregatedResult
def _check_table(case):
    import pandas as pd
    from fairlearn.metrics._disaggregated_result import DisaggregatedResult
    _, sens, ctrl, lab, cells, overall = case          # cells[metric][stratum][group], overall[metric][stratum]
    sl, cl, sn, cn = _levels(sens, ctrl, lab)
    names = [f"m{j}" for j in range(len(cells))]
    skeys, gkeys = list(itertools.product(*cl)), list(itertools.product(*sl))
    fl = lambda v: NAN if v is None else float(v)
    bg = {(ck + gk, nm): fl(cells[m][i][j]) for m, nm in enumerate(names) for i, ck in enumerate(skeys) for j, gk in enumerate(gkeys)}
    ov = {(ck, nm): fl(overall[m][i]) for m, nm in enumerate(names) for i, ck in enumerate(skeys)}
    keys = [ck + gk for ck in skeys for gk in gkeys]
    bgf = pd.DataFrame({nm: [bg[(k, nm)] for k in keys] for nm in names}, index=_index(cl + sl, cn + sn))
    ovf = pd.DataFrame({nm: [ov[(ck, nm)] for ck in skeys] for nm in names}, index=_index(cl, cn)) if ctrl else pd.Series({nm: ov[((), nm)] for nm in names})
    dr = DisaggregatedResult(ovf, bgf)
    cf = cn or None

    def agg(kind, method, errors):
        if method is None:
            r = dr.apply_grouping(kind[6:], cf, errors=errors)
        else:
            r = getattr(dr, kind)(cf, method=method, errors=errors)
        return M.table(r, False, names, cf)
    return _finish(case, _nontrivial(cells), check_tables(bg, ov, len(ctrl), names, agg),
                   f"DisaggregatedResult(overall, by_group) with control levels {cn}: by_group={ {str(k): v for k, v in bg.items()} } overall={ {str(k): v for k, v in ov.items()} }")


def _overall_for(col, rng, grid):
    """overall per stratum: free unless the stratum has <= 1 non-empty group (then it is that group's value / NaN: same rows, same value)"""
    out = []
    for st in col:
        v = [x for x in st if x is not None]
        out.append(None if not v else v[0] if len(v) == 1 else grid[int(rng.integers(0, len(grid)))])
    return tuple(out)


def _table_cases(tier, seed):
    exh, vals = [], [v for v in GRID if v is not None]
    for g in (1, 2, 3):
        for i, col in enumerate(itertools.product(GRID, repeat=g)):
            v = [x for x in col if x is not None]
            if v:
                ovs = [v[0]] if len(v) == 1 else vals
                exh.append(("table", (g,), (), i % 2, tuple((col,) for _ in ovs), tuple((o,) for o in ovs)))
    rng = np.random.default_rng(seed)
    sam = []
    for _ in range(1500 if tier == "quick" else 30000):
        sens, ctrl = SENS[int(rng.integers(0, len(SENS)))], CTRL[int(rng.integers(0, len(CTRL)))]
        ng, nst = int(np.prod(sens)), int(np.prod(ctrl)) if ctrl else 1
        grid = GRID if rng.random() < 0.6 else (0.0, 0.25, 0.5, 1.0, None) if rng.random() < 0.5 else (-2.0, -1.0, 0.5, None)
        cells = tuple(tuple(tuple(grid[int(x)] for x in rng.integers(0, len(grid), ng)) for _ in range(nst)) for _ in range(int(rng.integers(1, 4))))
        if not ctrl and any(all(x is None for x in col[0]) for col in cells):
            continue
        sam.append(("table", sens, ctrl, int(rng.integers(0, 2)), cells, tuple(_overall_for(col, rng, [g for g in grid if g is not None]) for col in cells)))
    return exh, sam


# ---------------------------------------------------------------------------------------------- MetricFrame with a lookup metric
def make_lookup(cv, ovv, name):
    def lookup(y_true, y_pred):
        ids = {int(v) for v in y_true}
        return cv[ids.pop()] if len(ids) == 1 else ovv[int(y_pred[0])]
    lookup.__name__ = name
    return lookup


def _mf_agg(mf, bare, names, cl):
    def agg(kind, method, errors):
        r = getattr(mf, kind)(errors=errors) if method is None else getattr(mf, kind)(method=method, errors=errors)
        return M.table(r, bare, names, cl)
    return agg


def _check_lookup(case):
    import pandas as pd
    import fairlearn.metrics as fm
    _, sens, ctrl, lab, cells, overall, bare, dup = case
    sl, cl, sn, cn = _levels(sens, ctrl, lab)
    names = ["lookup0"] if bare else [f"m{j}" for j in range(len(cells))]
    skeys, gkeys = list(itertools.product(*cl)), list(itertools.product(*sl))
    rows = []                                       # (cell id, stratum id, control key, group key); emptiness taken from metric 0
    for i, ck in enumerate(skeys):
        for j, gk in enumerate(gkeys):
            if cells[0][i][j] is not None:
                rows += [(i * len(gkeys) + j, i, ck, gk)] * (1 + (dup + i + j) % 2)
    fns = {}
    for m, nm in enumerate(names):
        cv = {i * len(gkeys) + j: float(cells[m][i][j] if cells[m][i][j] is not None else 0.0) for i in range(len(skeys)) for j in range(len(gkeys))}
        fns[nm] = make_lookup(cv, {i: float(o if o is not None else 0.0) for i, o in enumerate(overall[m])}, nm)
    kw = dict(metrics=fns[names[0]] if bare else fns, y_true=[r[0] for r in rows], y_pred=[r[1] for r in rows],
              sensitive_features=pd.DataFrame({nm: [r[3][j] for r in rows] for j, nm in enumerate(sn)}))
    if ctrl:
        kw["control_features"] = pd.DataFrame({nm: [r[2][j] for r in rows] for j, nm in enumerate(cn)})
    desc = f"MetricFrame(lookup metric{'' if bare else 's ' + str(names)}), rows (cell, stratum, control, group) = {rows}, cell values {cells}, overall {overall}"
    try:
        mf = fm.MetricFrame(**kw)
        bg = M.table(mf.by_group, bare, names, cn + sn)
        ov = M.table(mf.overall, bare, names, cn or None)
    except Exception as ex:     # C01 territory; still a failure of a valid call
        return _finish(case, True, ("MetricFrame:raises", f"MetricFrame/by_group/overall: {type(ex).__name__}: {str(ex)[:100]}", None, None), desc)
    return _finish(case, _nontrivial(cells), check_tables(bg, ov, len(ctrl), names, _mf_agg(mf, bare, names, cn or None)), desc)


def _lookup_cases(tier, seed):
    rng = np.random.default_rng(seed + 1)
    out = []
    while len(out) < (1500 if tier == "quick" else 20000):
        sens, ctrl = SENS[int(rng.integers(0, len(SENS)))], CTRL[int(rng.integers(0, len(CTRL)))]
        ng, nst = int(np.prod(sens)), int(np.prod(ctrl)) if ctrl else 1
        grid = GRID if rng.random() < 0.6 else (0.0, 0.25, 0.5, 1.0, None) if rng.random() < 0.5 else (-2.0, -1.0, 0.5, None)
        vals = [g for g in grid if g is not None]
        bare = bool(rng.random() < 0.5)
        empty = rng.random(size=(nst, ng)) < (0.25 if len(sens) + len(ctrl) > 1 else 0.1)
        if empty.all():
            continue
        cells = tuple(tuple(tuple(None if empty[i, j] else vals[int(rng.integers(0, len(vals)))] for j in range(ng)) for i in range(nst))
                      for _ in range(1 if bare else int(rng.integers(1, 4))))
        out.append(("lookup", sens, ctrl, int(rng.integers(0, 2)), cells, tuple(_overall_for(col, rng, vals) for col in cells), bare, int(rng.integers(0, 2))))
    return out


INF_GRID = (0.5, 1.0, 2.0, math.inf, None)


def _inf_cases(tier, seed):
    """value tables and lookup MetricFrames with +inf cells (non-negative cells, finite positive overall wherever it is free)"""
    rng = np.random.default_rng(seed + 7)
    tab, lk = [], []
    vals, fin = [g for g in INF_GRID if g is not None], [0.5, 1.0, 2.0]
    while len(lk) < (120 if tier == "quick" else 2000):
        sens, ctrl = SENS[int(rng.integers(0, len(SENS)))], CTRL[int(rng.integers(0, len(CTRL)))]
        ng, nst = int(np.prod(sens)), int(np.prod(ctrl)) if ctrl else 1
        bare = bool(rng.random() < 0.5)
        empty = rng.random(size=(nst, ng)) < 0.15
        if empty.all() or (not ctrl and empty[0].all()):
            continue
        cells = tuple(tuple(tuple(None if empty[i, j] else vals[int(rng.integers(0, len(vals)))] for j in range(ng)) for i in range(nst))
                      for _ in range(1 if bare else int(rng.integers(1, 3))))
        if not any(v is not None and math.isinf(v) for col in cells for st in col for v in st):
            continue
        overall = tuple(_overall_for(col, rng, fin) for col in cells)
        lk.append(("lookup", sens, ctrl, int(rng.integers(0, 2)), cells, overall, bare, int(rng.integers(0, 2))))
        if not any(all(all(x is None for x in st) for st in col) for col in cells) or ctrl:
            tab.append(("table", sens, ctrl, int(rng.integers(0, 2)), cells, overall))
    return tab, lk


# ---------------------------------------------------------------------------------------------- end to end, weighted-mean metrics
def _check_e2e(case):
    import pandas as pd
    import fairlearn.metrics as fm
    from sklearn.metrics import accuracy_score
    _, yt, yp, w, sf, cf, which = case
    allm = {"selection_rate": fm.selection_rate, "accuracy_score": accuracy_score, "mean_prediction": fm.mean_prediction}
    bare = which is not None
    names = [which] if bare else list(allm)
    sn, cn = [f"s{j}" for j in range(len(sf))], [f"c{j}" for j in range(len(cf))]
    kw = dict(metrics=allm[which] if bare else allm, y_true=list(yt), y_pred=list(yp),
              sensitive_features=pd.DataFrame({nm: list(c) for nm, c in zip(sn, sf)}))
    if cf:
        kw["control_features"] = pd.DataFrame({nm: list(c) for nm, c in zip(cn, cf)})
    if w is not None:
        kw["sample_params"] = {"sample_weight": list(w)} if bare else {nm: {"sample_weight": list(w)} for nm in names}
    desc = f"MetricFrame({names}) y_true={list(yt)} y_pred={list(yp)} sample_weight={w and list(w)} sensitive={[list(c) for c in sf]} control={[list(c) for c in cf]}"
    try:
        mf = fm.MetricFrame(**kw)
        bg = M.table(mf.by_group, bare, names, cn + sn)
        ov = M.table(mf.overall, bare, names, cn or None)
    except Exception as ex:
        return _finish(case, True, ("MetricFrame:raises", f"MetricFrame/by_group/overall: {type(ex).__name__}: {str(ex)[:100]}", None, None), desc)
    nontrivial = len({v for v in bg.values() if v == v}) >= 2
    return _finish(case, nontrivial, check_tables(bg, ov, len(cf), names, _mf_agg(mf, bare, names, cn or None), weighted_mean=True), desc)


def _e2e_cases(tier, seed):
    rng = np.random.default_rng(seed + 2)
    out = []
    for _ in range(1000 if tier == "quick" else 12000):
        n = int(rng.integers(2, 11))
        which = (None, "selection_rate", "accuracy_score", "mean_prediction")[int(rng.integers(0, 4))]
        yt = tuple(int(x) for x in rng.integers(0, 2, n))
        yp = tuple(float(x) for x in rng.choice([0, 0.5, 1, 3], n)) if which == "mean_prediction" else tuple(int(x) for x in rng.integers(0, 2, n))
        w = None if rng.random() < 0.3 else tuple(float(x) for x in rng.choice([0.5, 1, 2, 3], n))
        sf = tuple(tuple(int(x) for x in rng.integers(0, int(rng.integers(2, 4)), n)) for _ in range(int(rng.integers(1, 3))))
        cf = tuple(tuple("xyz"[int(x)] for x in rng.integers(0, int(rng.integers(1, 4)), n)) for _ in range(int(rng.integers(0, 2))))
        out.append(("e2e", yt, yp, w, sf, cf, which))
    return out


def replay(data):
    return M.replay_case(data, {"table": _check_table, "lookup": _check_lookup, "e2e": _check_e2e})


def run_bounded(rep):
    rep.assume("A1", "A2")
    exh, sam = _table_cases(rep.tier, rep.seed)
    nt = "non-trivial = some stratum has two different non-NaN group values; distinct by full case"
    run_cases(rep, "aggregates_tables_exhaustive",
              rule="DisaggregatedResult fed directly: every by_group column with 1-3 groups over {-2,-1,0,.25,.5,1,2,NaN} (not all NaN), one column per "
                   f"overall value of the grid; group_min/group_max/difference/ratio x both methods x errors in (raise, coerce); {nt}",
              bound="<= 3 groups, no control feature, 8-value grid", cases=exh, check_case=_check_table, exhaustive=True)
    run_cases(rep, "aggregates_tables_sampled",
              rule=f"{len(sam)} seeded value tables fed to DisaggregatedResult: 1-2 sensitive features (<= 4 groups) x 0-2 control features (<= 4 strata, "
                   f"empty strata allowed) x 1-3 metric columns, cells/overall from the grid or its non-negative / mostly negative part; {nt}",
              bound="<= 4 groups x <= 4 strata x <= 3 metrics", cases=sam, check_case=_check_table, exhaustive=False)
    lk = _lookup_cases(rep.tier, rep.seed)
    run_cases(rep, "aggregates_metricframe_lookup",
              rule=f"{len(lk)} seeded MetricFrames (bare callable or dict of 1-3) whose lookup metric returns prescribed cell/overall values; groups with 1-2 "
                   f"rows, empty combinations; public group_min/group_max/difference/ratio checked against the frame's own by_group/overall; {nt}",
              bound="<= 4 groups x <= 4 strata x <= 3 metrics", cases=lk, check_case=_check_lookup, exhaustive=False)
    itab, ilk = _inf_cases(rep.tier, rep.seed)
    run_cases(rep, "aggregates_infinite_cells",
              rule=f"{len(itab)} value tables + {len(ilk)} lookup MetricFrames whose cells come from {{.5,1,2,+inf,empty}} (at least one +inf), overall from "
                   f"{{.5,1,2}}: the aggregates follow the IEEE rules (an infinite group value is reported, never turned into NaN); {nt}",
              bound="<= 4 groups x <= 4 strata x <= 2 metrics", cases=itab + ilk,
              check_case=lambda c: (_check_table if c[0] == "table" else _check_lookup)(c), exhaustive=False)
    e2e = _e2e_cases(rep.tier, rep.seed)
    run_cases(rep, "aggregates_weighted_means_e2e",
              rule=f"{len(e2e)} seeded datasets (n in 2..10, 1-2 sensitive features with 2-3 values, 0-1 control feature, weights None or from "
                   "{.5,1,2,3}) through MetricFrame with selection_rate/accuracy_score/mean_prediction (bare or dict): all formulas plus "
                   "difference(to_overall) <= difference(between_groups); non-trivial = two different by_group values",
              bound="n <= 10, <= 9 groups, <= 3 strata", cases=e2e, check_case=_check_e2e, exhaustive=False)
