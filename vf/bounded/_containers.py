"""Shared helpers of the C12 / C13 / C20 stand-ins: container builders with adversarial index labels, canonical forms of pandas
results, deterministic learners.  Nothing here calls into fairlearn."""
import math

import numpy as np
import pandas as pd
from sklearn.base import BaseEstimator, ClassifierMixin

INDEX_STYLES = ("shuffled", "shuffled", "shuffled", "offset", "dup_all", "dup_pairs", "str", "reversed")
VEC_KINDS = ("list", "ndarray", "ndarray_col", "series", "series_named", "frame")
TABLE_KINDS_EST = ("ndarray2d", "frame", "list_of_lists")             # accepted by _validate_and_reformat_input for >= 2 columns
TABLE_KINDS_MF = ("dict_list", "dict_array", "frame", "ndarray2d")    # accepted by MetricFrame for >= 2 columns


def odd_index(n, rng, style=None):
    """index labels that differ from the positional 0..n-1 (a permutation of 0..n-1 is the dangerous one: it aligns silently)"""
    style = style or INDEX_STYLES[int(rng.integers(len(INDEX_STYLES)))]
    if style == "shuffled":
        p = rng.permutation(n)
        if n > 1 and (p == np.arange(n)).all():
            p = np.roll(p, 1)
        return pd.Index(p), style
    if style == "offset":
        return pd.Index(range(100, 100 + n)), style
    if style == "dup_all":
        return pd.Index([5] * n), style
    if style == "dup_pairs":
        return pd.Index([i // 2 for i in range(n)]), style
    if style == "str":
        return pd.Index(["r%d" % i for i in rng.permutation(n)]), style
    return pd.Index(range(n - 1, -1, -1)), "reversed"


def vec(values, kind, rng, name="col", style=None):
    """one-dimensional data in container `kind`; returns (object, description)"""
    values = list(values)
    n = len(values)
    if kind == "list":
        return values, "list"
    if kind == "ndarray":
        return np.array(values), "ndarray"
    if kind == "ndarray_col":
        return np.array(values).reshape(-1, 1), "ndarray(n,1)"
    idx, st = odd_index(n, rng, style)
    if kind == "series":
        return pd.Series(values, index=idx), f"Series[index {st}]"
    if kind == "series_named":
        return pd.Series(values, index=idx, name=name), f"Series(name={name!r})[index {st}]"
    if kind == "frame":
        return pd.DataFrame({name: values}, index=idx), f"DataFrame(column {name!r})[index {st}]"
    if kind == "frame0":
        return pd.DataFrame(values, index=idx), f"DataFrame(column 0)[index {st}]"
    raise ValueError(kind)


def table(cols, kind, rng, names=None, style=None):
    """feature table given as a list of columns (each a list) in container `kind`; returns (object, description)"""
    k, n = len(cols), len(cols[0])
    names = names or ["f%d" % j for j in range(k)]
    if k == 1 and kind in VEC_KINDS + ("frame0",):
        return vec(cols[0], kind, rng, names[0], style)
    if kind == "dict_list":
        return {nm: list(c) for nm, c in zip(names, cols)}, "dict of lists"
    if kind == "dict_array":
        return {nm: np.array(c) for nm, c in zip(names, cols)}, "dict of ndarrays"
    rows = [[c[i] for c in cols] for i in range(n)]
    if kind == "ndarray2d":
        return np.array(rows, dtype=object), "ndarray(n,%d) object" % k
    if kind == "list_of_lists":
        return rows, "list of lists"
    if kind == "frame":
        idx, st = odd_index(n, rng, style)
        return pd.DataFrame({nm: list(c) for nm, c in zip(names, cols)}, index=idx), f"DataFrame(columns {names})[index {st}]"
    raise ValueError(kind)


def matrix(X, kind, rng, style=None):
    """feature matrix X (list of rows) as ndarray or DataFrame with named columns and odd index"""
    A = np.array(X, dtype=float)
    if kind == "ndarray":
        return A, "ndarray"
    idx, st = odd_index(len(A), rng, style)
    return pd.DataFrame(A, columns=["x%d" % j for j in range(A.shape[1])], index=idx), f"DataFrame[index {st}]"


def pick(rng, seq):
    return seq[int(rng.integers(len(seq)))]


# ------------------------------------------------------------------ canonical forms
def py(x):
    if isinstance(x, np.generic):
        x = x.item()
    return x


def _key(i):
    return tuple(py(v) for v in i) if isinstance(i, tuple) else (py(i),)


def flat(obj):
    """scalar / Series / DataFrame -> {(index entry, column): python value}; level and column-axis names are ignored"""
    if isinstance(obj, pd.DataFrame):
        return {(_key(i), str(c)): py(obj.iloc[r, k]) for r, i in enumerate(obj.index) for k, c in enumerate(obj.columns)}
    if isinstance(obj, pd.Series):
        return {(_key(i),): py(obj.iloc[r]) for r, i in enumerate(obj.index)}
    if isinstance(obj, np.ndarray):
        return {(r,): py(v) for r, v in enumerate(obj.reshape(-1))}
    if isinstance(obj, (list, tuple)):
        return {(r,): py(v) for r, v in enumerate(obj)}
    return {(): py(obj)}


def _isnan(v):
    return v is None or (isinstance(v, float) and math.isnan(v))


def val_close(a, b, tol=1e-9):
    if _isnan(a) or _isnan(b):
        return _isnan(a) and _isnan(b)
    if isinstance(a, (int, float, bool)) and isinstance(b, (int, float, bool)):
        a, b = float(a), float(b)
        if math.isinf(a) or math.isinf(b):
            return a == b
        return abs(a - b) <= tol * max(1.0, abs(a), abs(b))
    return a == b


def first_diff(a, b, tol=1e-9, rename=None):
    """None when the two flat dicts agree, else a short description of the first difference. `rename` maps keys of a to keys of b."""
    if rename is not None:
        a = {rename(k): v for k, v in a.items()}
    ka, kb = set(a), set(b)
    if ka != kb:
        return f"index entries differ: only in first {sorted(map(repr, ka - kb))[:3]}, only in second {sorted(map(repr, kb - ka))[:3]}"
    for k in a:
        if not val_close(a[k], b[k], tol):
            return f"at {k!r}: {a[k]!r} vs {b[k]!r}"
    return None


# ------------------------------------------------------------------ deterministic learners
class Stump(ClassifierMixin, BaseEstimator):
    """exact weighted decision stump: deterministic, positional (np.asarray on every argument), first minimiser wins"""

    def fit(self, X, y, sample_weight=None):
        X = np.asarray(X, dtype=float)
        y = np.asarray(y).reshape(-1).astype(int)
        w = np.ones(len(y)) if sample_weight is None else np.asarray(sample_weight, dtype=float).reshape(-1)
        if not (len(X) == len(y) == len(w)):
            raise ValueError("Stump: inconsistent lengths")
        best = None
        for j in range(X.shape[1]):
            vals = np.unique(X[:, j])
            for t in [-np.inf] + [float((a + b) / 2) for a, b in zip(vals[:-1], vals[1:])]:
                for pol in (0, 1):
                    err = float(w[((X[:, j] > t).astype(int) ^ pol) != y].sum())
                    if best is None or err < best[0] - 1e-12:
                        best = (err, j, t, pol)
        self.rule_ = best[1:]
        self.classes_ = np.array([0, 1])
        return self

    def predict(self, X):
        j, t, pol = self.rule_
        return (np.asarray(X, dtype=float)[:, j] > t).astype(int) ^ pol

    def predict_proba(self, X):
        p = self.predict(X).astype(float)
        return np.stack([1 - p, p], axis=1)


class ColScore(ClassifierMixin, BaseEstimator):
    """'estimator' whose score is the first feature column (ties on purpose); ignores the labels"""

    def fit(self, X, y=None, **kw):
        self.fitted_ = True
        self.classes_ = np.array([0, 1])
        return self

    def predict(self, X):
        return np.asarray(X, dtype=float)[:, 0].copy()


def interpolation_as_dict(to):
    """ThresholdOptimizer result as plain data {group key: {field: value}}"""
    out = {}
    for k, b in to.interpolated_thresholder_.interpolation_dict.items():
        d = {}
        for f, v in b.items():
            if hasattr(v, "threshold"):
                d[f] = (v.operator, float(v.threshold))
            else:
                d[f] = float(v)
        out[py(k)] = d
    return out
