"""C19 bounded stand-in (labelled bounded, never counted as proved).

X: every call sequence of length 1..L (quick L=3, thorough L=4) over the alphabet
     F1 = fit(D1), F2 = fit(D2), P = predict(seed), K = pickle round trip (continue with the restored object), C = sklearn.clone (continue
     with the clone)
   for each estimator class and configuration (K is not in the alphabet of the adversarial estimators: the statement claims pickling only
   for the other four):
     ThresholdOptimizer   DP + LogisticRegression | EO + decision tree (predict) | prefit estimator, false_negative_rate_parity
     ExponentiatedGradient DP, nu=None, logistic regression | EO, nu given, decision tree, no LP step | BoundedGroupLoss regression
     GridSearch           DP, grid_size 5 | EO, grid_size 4, constraint_weight .3
     CorrelationRemover   one id, ndarray | two ids, alpha .5, D2 of another width | DataFrame with named ids
     AdversarialFairnessClassifier (torch, [3]/[2], SGD, 2 epochs, warm_start=False, random_state) | equalized odds, batches of 5, Adam
   Along a sequence, at every step:
     fit   - returns the estimator itself; get_params(deep=False) before/after: same objects (identity, for non-primitive values) and same
             values (primitives by ==, estimators by get_params + attribute names, so an inner estimator fitted in place is a change);
             predictions (all predict-like entry points, fixed seed, 10 probe rows) equal those of a FRESH identically configured
             estimator fitted once on the same data;
     predict - two calls with the same seed agree, agree with the answer recorded right after the last fit, and add no attribute;
     pickle  - restored estimator predicts exactly like the original, same parameter values;
     clone   - clone has the same parameter values; a later fit of the clone must again equal a fresh fit.
   A valid call raising is a violation (`...:raises`).
   Known findings are reported with exactly the keys of known_findings.json: EG overwrites nu; a second fit of EG/GridSearch with the same
   (or a cloned/pickled, i.e. already loaded) constraints object raises AssertionError "data can be loaded only once"; an adversarial refit
   continues from the trained weights; CorrelationRemover refit rejects data of another width.  A sequence stops at a raising fit; when a
   sequence shows both known and new deviations the new one is reported.

NOT checked: deep parameter mutation inside moment objects (only its consequence, the refit assertion), warm_start=True, TensorFlow,
pickling of adversarial estimators, histories longer than L.

Sensitivity self-test (scratch worktrees under /tmp/agent_C15, quick tier; keys C19:<...> that fired besides the five known ones):
  1 revert df42a4d (GridSearch.fit returns None)                          -> GridSearch.fit:F4_returns_self
  2 ThresholdOptimizer.fit fits the user's estimator instead of a clone   -> ThresholdOptimizer.fit:overwrites-param-estimator
  3 CorrelationRemover.fit without `return self`                          -> CorrelationRemover.fit:F4_returns_self
  4 ThresholdOptimizer.predict stores an attribute                        -> ThresholdOptimizer.predict:writes-attribute (missed until the
                                                                             attribute check also covered the predictions made right after fit)
  5 ExponentiatedGradient.predict ignores random_state                    -> ExponentiatedGradient.predict:not-repeatable, .fit:differs-from-fresh
  6 CorrelationRemover.fit averages the new mean with the previous one    -> CorrelationRemover.refit:differs-from-fresh
  7 ThresholdOptimizer fits the inner estimator only at the first fit     -> ThresholdOptimizer.refit:differs-from-fresh
  8 adversarial fit writes self.batch_size                                -> AdversarialFairness.fit:overwrites-param-batch_size
  9 GridSearch.fit stores a local closure on the estimator                -> GridSearch.pickle:raises
"""
import itertools
import pickle

import numpy as np

from ..report import fingerprint
from .harness import run_cases

OPS = ("F1", "F2", "P", "K", "C")
CONFIGS = {"ThresholdOptimizer": 3, "ExponentiatedGradient": 3, "GridSearch": 2, "CorrelationRemover": 3, "AdversarialFairness": 2}
KNOWN = {"C19:ExponentiatedGradient.fit:overwrites-param-nu", "C19:ExponentiatedGradient.refit:data-loaded-assertion",
         "C19:GridSearch.refit:data-loaded-assertion", "C19:AdversarialFairness.refit:continues-from-trained-weights",
         "C19:CorrelationRemover.refit:rejects-other-width"}
SEED_PREDICT = 7
_REF = {}


# ------------------------------------------------------------------ data
def _data(cls, cfg, which, seed):
    """D1 / D2 / probe rows for the configuration (deterministic in (cls, cfg, which, seed))."""
    rng = np.random.default_rng([seed, sorted(CONFIGS).index(cls), cfg, {"F1": 1, "F2": 2, "probe": 3}[which]])
    n = 10 if which == "probe" else 16
    if cls == "CorrelationRemover":
        width = 5 if (cfg == 1 and which in ("F2", "probe")) else 4      # probe rows: the first 4 or all 5 columns are used (see _predict)
        X = np.round(rng.normal(size=(n, width)), 2) + np.arange(width)
        if cfg == 2:
            import pandas as pd
            X = pd.DataFrame(X, columns=["s", "u", "t", "v"])
        return {"X": X}
    X = np.round(rng.normal(size=(n, 3)), 2)
    sf = np.array(["a", "a", "b", "b"] * (n // 4 + 1))[:n]
    y = np.concatenate([[0, 1, 0, 1, 1, 0, 1, 0], (X[8:, 0] + 0.5 * rng.normal(size=n - 8) + 0.4 * (sf[8:] == "a") > 0).astype(int)])
    if cls == "ExponentiatedGradient" and cfg == 2:
        y = np.clip(np.round(0.5 + 0.3 * X[:, 0] + 0.1 * (sf == "a") + 0.05 * rng.normal(size=n), 3), 0, 1)
    return {"X": X, "y": y, "sf": sf}


# ------------------------------------------------------------------ estimators
def _factory(cls, cfg):
    from sklearn.linear_model import LinearRegression, LogisticRegression
    from sklearn.tree import DecisionTreeClassifier
    if cls == "ThresholdOptimizer":
        from fairlearn.postprocessing import ThresholdOptimizer
        if cfg == 0:
            return ThresholdOptimizer(estimator=LogisticRegression(), constraints="demographic_parity", predict_method="predict_proba", grid_size=20)
        if cfg == 1:
            return ThresholdOptimizer(estimator=DecisionTreeClassifier(max_depth=2, random_state=0), constraints="equalized_odds",
                                      objective="accuracy_score", predict_method="predict", flip=True)
        D = _data(cls, cfg, "F1", 0)
        return ThresholdOptimizer(estimator=LogisticRegression().fit(D["X"], D["y"]), constraints="false_negative_rate_parity", prefit=True,
                                  predict_method="decision_function", grid_size=10)
    if cls == "ExponentiatedGradient":
        from fairlearn.reductions import BoundedGroupLoss, DemographicParity, EqualizedOdds, ExponentiatedGradient, SquareLoss
        if cfg == 0:
            return ExponentiatedGradient(LogisticRegression(), DemographicParity(), max_iter=5)
        if cfg == 1:
            return ExponentiatedGradient(DecisionTreeClassifier(max_depth=2, random_state=0), EqualizedOdds(difference_bound=0.05), eps=0.05, nu=1e-6,
                                         max_iter=4, run_linprog_step=False)
        return ExponentiatedGradient(LinearRegression(), BoundedGroupLoss(SquareLoss(0, 1), upper_bound=0.05), nu=1e-6, max_iter=4)
    if cls == "GridSearch":
        from fairlearn.reductions import DemographicParity, EqualizedOdds, GridSearch
        if cfg == 0:
            return GridSearch(LogisticRegression(), DemographicParity(), grid_size=5)
        return GridSearch(DecisionTreeClassifier(max_depth=2, random_state=0), EqualizedOdds(), grid_size=4, constraint_weight=0.3)
    if cls == "CorrelationRemover":
        from fairlearn.preprocessing import CorrelationRemover
        return [CorrelationRemover(sensitive_feature_ids=[0]), CorrelationRemover(sensitive_feature_ids=[0, 2], alpha=0.5),
                CorrelationRemover(sensitive_feature_ids=["t", "s"], alpha=0.8)][cfg]
    from fairlearn.adversarial import AdversarialFairnessClassifier
    if cfg == 0:
        return AdversarialFairnessClassifier(backend="torch", predictor_model=[3], adversary_model=[2], predictor_optimizer="SGD", adversary_optimizer="SGD",
                                             learning_rate=0.3, epochs=2, batch_size=-1, warm_start=False, random_state=11)
    return AdversarialFairnessClassifier(backend="torch", predictor_model=[2, "sigmoid"], adversary_model=[], constraints="equalized_odds", learning_rate=0.05,
                                         alpha=0.5, epochs=1, batch_size=5, warm_start=False, random_state=5)


def _fit(cls, e, D):
    if cls == "CorrelationRemover":
        return e.fit(D["X"])
    return e.fit(D["X"], D["y"], sensitive_features=D["sf"])


def _predict(cls, e, P, seed, width=None):
    """all predict-like outputs on the probe rows (list of arrays)."""
    if cls == "CorrelationRemover":
        X = P["X"]
        return [np.asarray(e.transform(X if not isinstance(X, np.ndarray) else X[:, :width]))]
    if cls == "ThresholdOptimizer":
        return [np.asarray(e.predict(P["X"], sensitive_features=P["sf"], random_state=seed)), np.asarray(e._pmf_predict(P["X"], sensitive_features=P["sf"]))]
    if cls == "ExponentiatedGradient":
        return [np.asarray(e.predict(P["X"], random_state=seed)), np.asarray(e._pmf_predict(P["X"]))]
    if cls == "GridSearch":
        out = [np.asarray(e.predict(P["X"]))]
        if hasattr(e.estimator, "predict_proba"):
            out.append(np.asarray(e.predict_proba(P["X"])))
        return out
    return [np.asarray(e.predict(P["X"])), np.asarray(e._raw_predict(P["X"]))]


def _equal(a, b):
    if len(a) != len(b):
        return False
    for x, y in zip(a, b):
        if x.shape != y.shape:
            return False
        if x.dtype.kind == "f" or y.dtype.kind == "f":
            if not np.allclose(x.astype(float), y.astype(float), rtol=1e-9, atol=1e-12, equal_nan=True):
                return False
        elif not np.array_equal(x, y):
            return False
    return True


def _val(v):
    """comparable value of a constructor parameter."""
    from sklearn.base import BaseEstimator
    if v is None or isinstance(v, (bool, int, float, str)):
        return v
    if isinstance(v, (list, tuple)):
        return repr(v)
    if isinstance(v, BaseEstimator):
        return (type(v).__name__, repr(sorted((k, repr(x)) for k, x in v.get_params().items())), tuple(sorted(vars(v))))
    return type(v).__name__


def _params(e):
    p = e.get_params(deep=False)
    return {k: (v, _val(v)) for k, v in p.items()}


def _params_diff(before, after, identity=True):
    if set(before) != set(after):
        return "parameter-names", sorted(set(before) ^ set(after)), None
    for k in before:
        (o0, v0), (o1, v1) = before[k], after[k]
        prim = o0 is None or isinstance(o0, (bool, int, float, str))
        if v0 != v1 and not (v0 != v0 and v1 != v1):
            return k, v1, v0
        if identity and not prim and o0 is not o1:
            return k, f"another object ({type(o1).__name__})", f"the object passed to the constructor ({type(o0).__name__})"
    return None


def _reference(cls, cfg, which, seed):
    """predictions of a fresh, identically configured estimator fitted once on the data (cached per worker process)."""
    key = (cls, cfg, which, seed)
    if key not in _REF:
        e = _factory(cls, cfg)
        D = _data(cls, cfg, which, seed)
        _fit(cls, e, D)
        _REF[key] = _predict(cls, e, _data(cls, cfg, "probe", seed), SEED_PREDICT, _width(D))
    return _REF[key]


def _width(D):
    return np.asarray(D["X"]).shape[1]


def _check(case):
    import logging
    logging.disable(logging.CRITICAL)
    from sklearn.base import clone
    cls, cfg, seq, seed = case
    if cls == "AdversarialFairness":
        import torch
        torch.set_num_threads(1)
    fp = fingerprint(case)
    nontrivial = len(seq) >= 2 and any(o in ("F1", "F2") for o in seq)
    probe = _data(cls, cfg, "probe", seed)
    viols = []

    def add(key, what, got=None, exp=None, step=None):
        viols.append((f"C19:{key}", f"{what}: got {repr(got)[:160]}, expected {repr(exp)[:160]} [{cls} configuration {cfg}, sequence {'-'.join(seq)}"
                      f"{'' if step is None else ', step ' + str(step + 1)}, data seed {seed}]",
                      {"class": cls, "configuration": cfg, "sequence": list(seq), "failing_step": step, "data_seed": seed, "got": repr(got)[:500], "expected": repr(exp)[:500],
                       "how": "vf.bounded.C19._factory(class, configuration), _data(class, configuration, 'F1'|'F2'|'probe', data_seed)"}))

    def done():
        new = [v for v in viols if v[0] not in KNOWN]
        return (nontrivial, fp, (new or viols or [None])[0])
    e = _factory(cls, cfg)
    fitted, lineage_fits, loaded, last_width, ref = False, 0, False, None, None
    for i, op in enumerate(seq):
        if op in ("F1", "F2"):
            D = _data(cls, cfg, op, seed)
            before = _params(e)
            try:
                r = _fit(cls, e, D)
            except Exception as ex:
                msg = repr(ex)[:200]
                if cls in ("ExponentiatedGradient", "GridSearch") and isinstance(ex, AssertionError) and "loaded only once" in msg and loaded:
                    add(f"{cls}.refit:data-loaded-assertion", "fit with a constraints object that an earlier fit has loaded raised", msg, "a fitted estimator", i)
                elif cls == "CorrelationRemover" and isinstance(ex, ValueError) and lineage_fits and last_width != _width(D):
                    add("CorrelationRemover.refit:rejects-other-width", f"refit on data with {_width(D)} columns after a fit on {last_width} columns raised", msg, "a refitted estimator", i)
                else:
                    add(f"{cls}.fit:raises", f"fit raised {type(ex).__name__}", msg, "a fitted estimator", i)
                return done()
            loaded = True
            if r is not e:
                add(f"{cls}.fit:F4_returns_self", "fit did not return the estimator itself", type(r).__name__, "self", i)
            d = _params_diff(before, _params(e))
            if d:
                add(f"{cls}.fit:overwrites-param-{d[0]}", f"fit changed the constructor parameter {d[0]!r} reported by get_params", d[1], d[2], i)
            names = set(vars(e))
            try:
                got = _predict(cls, e, probe, SEED_PREDICT, _width(D))
            except Exception as ex:
                add(f"{cls}.predict:raises", f"predict after fit raised {type(ex).__name__}", repr(ex)[:200], "predictions", i)
                return done()
            if set(vars(e)) != names:
                add(f"{cls}.predict:writes-attribute", "predict added/removed attributes of the estimator", sorted(set(vars(e)) ^ names), [], i)
            want = _reference(cls, cfg, op, seed)
            if not _equal(got, want):
                if cls == "AdversarialFairness" and lineage_fits:
                    add("AdversarialFairness.refit:continues-from-trained-weights", "refit (warm_start=False) differs from a fresh estimator fitted on the same data",
                        [x.tolist() for x in got], [x.tolist() for x in want], i)
                else:
                    add(f"{cls}.{'refit:differs-from-fresh' if lineage_fits else 'fit:differs-from-fresh'}", "fitted model differs from a fresh identically configured "
                        "estimator fitted on the same data" + (" (estimator had been fitted before)" if lineage_fits else " (history: " + "-".join(seq[:i]) + ")"),
                        [x.tolist() for x in got], [x.tolist() for x in want], i)
            fitted, lineage_fits, last_width, ref = True, lineage_fits + 1, _width(D), got
        elif op == "P":
            if not fitted:
                continue
            names = set(vars(e))
            try:
                a, b = _predict(cls, e, probe, SEED_PREDICT, last_width), _predict(cls, e, probe, SEED_PREDICT, last_width)
            except Exception as ex:
                add(f"{cls}.predict:raises", f"predict raised {type(ex).__name__}", repr(ex)[:200], "predictions", i)
                return done()
            if not _equal(a, b):
                add(f"{cls}.predict:not-repeatable", "two predictions with the same seed differ", [x.tolist() for x in a], [x.tolist() for x in b], i)
            elif not _equal(a, ref):
                add(f"{cls}.predict:alters-state", "prediction differs from the one made right after fit (same seed)", [x.tolist() for x in a], [x.tolist() for x in ref], i)
            if set(vars(e)) != names:
                add(f"{cls}.predict:writes-attribute", "predict added/removed attributes of the estimator", sorted(set(vars(e)) ^ names), [], i)
        elif op == "K":
            try:
                e2 = pickle.loads(pickle.dumps(e))
            except Exception as ex:
                add(f"{cls}.pickle:raises", f"pickle round trip raised {type(ex).__name__}", repr(ex)[:200], "a restored estimator", i)
                return done()
            d = _params_diff(_params(e), _params(e2), identity=False)
            if d:
                add(f"{cls}.pickle:params", f"restored estimator reports another value for parameter {d[0]!r}", d[1], d[2], i)
            if fitted:
                try:
                    a, b = _predict(cls, e2, probe, SEED_PREDICT, last_width), _predict(cls, e, probe, SEED_PREDICT, last_width)
                except Exception as ex:
                    add(f"{cls}.pickle:predict-raises", f"predict of the restored estimator raised {type(ex).__name__}", repr(ex)[:200], "predictions", i)
                    return done()
                if not _equal(a, b):
                    add(f"{cls}.pickle:predicts-differently", "restored estimator predicts differently from the original", [x.tolist() for x in a], [x.tolist() for x in b], i)
            e = e2
        else:
            try:
                e2 = clone(e)
            except Exception as ex:
                add(f"{cls}.clone:raises", f"sklearn.clone raised {type(ex).__name__}", repr(ex)[:200], "an unfitted copy", i)
                return done()
            d = _params_diff({k: v for k, v in _params(e).items()}, _params(e2), identity=False)
            if d and not (cls in ("ThresholdOptimizer",) and d[0] == "estimator" and cfg == 2):     # clone of a prefit estimator is unfitted by sklearn's definition
                add(f"{cls}.clone:params", f"clone reports another value for parameter {d[0]!r}", d[1], d[2], i)
            if cls == "ThresholdOptimizer" and cfg == 2:
                e2.set_params(estimator=e.estimator)      # prefit=True needs the fitted inner estimator (sklearn.clone resets it)
            e, fitted, lineage_fits, ref = e2, False, 0, None
    return done()


def run_bounded(rep):
    rep.assume("A2", "A7")
    L = 3 if rep.tier == "quick" else 4
    cases = []
    for cls, ncfg in CONFIGS.items():
        ops = tuple(o for o in OPS if not (cls == "AdversarialFairness" and o == "K"))
        for cfg in range(ncfg):
            for n in range(1, L + 1):
                for seq in itertools.product(ops, repeat=n):
                    if any(o in ("F1", "F2") for o in seq):
                        cases.append((cls, cfg, seq, rep.seed))
    order = np.random.default_rng(rep.seed).permutation(len(cases))      # spread the expensive classes over the worker chunks
    cases = [cases[i] for i in order]
    run_cases(rep, "life_cycle_sequences_rtc",
              rule="every call sequence of length 1..%d over {fit(D1), fit(D2), predict(seed), pickle round trip, clone} containing a fit, per estimator class and "
                   "configuration %s (no pickle op for the adversarial class); data from the seed; oracle: fresh identically configured estimator fitted once; "
                   "non-trivial = length >= 2; distinct by full case" % (L, dict(CONFIGS)),
              bound=f"sequences of <= {L} calls, 16 training rows, 10 probe rows", cases=cases, check_case=_check, exhaustive=True)
