"""Shared helpers of the C08 / C09 stand-ins: exact learners over an enumerable hypothesis class and first-principles moment values.

Hypothesis class H_k = all functions {0..k-1} -> {0,1} of the single discrete feature (2^k tables).  `Exact` is an exact cost-sensitive
learner over H_k (per feature value: the weighted majority label minimises the weighted 0/1 cost cell by cell).  `CellMeans` is the exact
weighted least-squares learner over all real functions of the feature (per value: the weighted mean).

First-principles values (plain loops, no fairlearn): error rate, and for the five parity moments the constraint values
    gamma[+,e,g] = r*u(e,g) - u(e)      gamma[-,e,g] = r*u(e) - u(e,g)          (r = ratio_bound, 1 for difference bounds)
with u(.) the mean utility of the rows of event e (and group g); utility = prediction (DemographicParity 'all', TruePositiveRateParity
'label=1', FalsePositiveRateParity 'label=0', EqualizedOdds both labels) or |prediction - label| (ErrorRateParity 'all').  Only (event, group)
cells with at least one row carry a constraint.  Bound of every constraint: difference_bound (default 0.01) or ratio_bound_slack.
"""
import itertools

import numpy as np
from sklearn.base import BaseEstimator

MOMENTS = ("DemographicParity", "EqualizedOdds", "TruePositiveRateParity", "FalsePositiveRateParity", "ErrorRateParity")
BOUNDS = ({}, {"difference_bound": 0.1}, {"ratio_bound": 0.8, "ratio_bound_slack": 0.05}, {"difference_bound": 0.02}, {"ratio_bound": 0.6, "ratio_bound_slack": 0.0})


def _codes(X):
    return np.asarray(X)[:, 0].astype(int)


class Exact(BaseEstimator):
    """argmin over H_k of sum_i w_i [h(x_i) != y_i] (ties -> 0)."""

    def __init__(self, k=3):
        self.k = k

    def fit(self, X, y, sample_weight=None):
        x, y = _codes(X), np.asarray(y).astype(int)
        w = np.ones(len(y)) if sample_weight is None else np.asarray(sample_weight, dtype=float)
        self.table_ = np.array([1 if w[(x == v) & (y == 1)].sum() > w[(x == v) & (y == 0)].sum() else 0 for v in range(self.k)])
        self.classes_ = np.array([0, 1])
        return self

    def predict(self, X):
        return self.table_[_codes(X)]

    def predict_proba(self, X):
        p = self.predict(X).astype(float)
        return np.column_stack([1 - p, p])


class CellMeans(BaseEstimator):
    """argmin over all real functions f of the feature of sum_i w_i (y_i - f(x_i))^2 (cells without weight -> 0.5)."""

    def __init__(self, k=3):
        self.k = k

    def fit(self, X, y, sample_weight=None):
        x, y = _codes(X), np.asarray(y, dtype=float)
        w = np.ones(len(y)) if sample_weight is None else np.asarray(sample_weight, dtype=float)
        self.table_ = np.array([(w[x == v] * y[x == v]).sum() / w[x == v].sum() if w[x == v].sum() > 0 else 0.5 for v in range(self.k)])
        return self

    def predict(self, X):
        return self.table_[_codes(X)]

    def predict_proba(self, X):
        p = self.predict(X)
        return np.column_stack([1 - p, p])


def all_tables(k):
    return [tuple(t) for t in itertools.product((0, 1), repeat=k)]


def moment_cls(name):
    import fairlearn.reductions as R
    return getattr(R, name)


# ---------------------------------------------------------------------------------------------- first-principles values
def error_rate(y, pred):
    """Expected 0/1 error of (possibly fractional = randomised) predictions."""
    return sum((1 - p) if yi == 1 else p for yi, p in zip(y, pred)) / len(y)


def _events(moment, yi):
    if moment in ("DemographicParity", "ErrorRateParity"):
        return "all"
    if moment == "TruePositiveRateParity":
        return 1 if yi == 1 else None
    if moment == "FalsePositiveRateParity":
        return 0 if yi == 0 else None
    return int(yi)       # EqualizedOdds


def parity_gamma(moment, ratio, y, sf, pred):
    """dict (sign, event, group) -> constraint value; event is 'all' or the label value (int)."""
    util = [(yi + (1 - 2 * yi) * p) if moment == "ErrorRateParity" else p for yi, p in zip(y, pred)]
    ev = [_events(moment, yi) for yi in y]
    out = {}
    for e in sorted({e for e in ev if e is not None}, key=str):
        rows_e = [i for i in range(len(y)) if ev[i] == e]
        u_e = sum(util[i] for i in rows_e) / len(rows_e)
        for g in sorted({sf[i] for i in rows_e}, key=str):
            rows = [i for i in rows_e if sf[i] == g]
            u_eg = sum(util[i] for i in rows) / len(rows)
            out[("+", e, g)] = ratio * u_eg - u_e
            out[("-", e, g)] = ratio * u_e - u_eg
    return out


def bound_of(kw):
    """(ratio, bound) of a parity moment constructed with keyword arguments kw."""
    if "ratio_bound" in kw:
        return kw["ratio_bound"], kw.get("ratio_bound_slack", 0.0)
    return 1.0, kw.get("difference_bound", 0.01)


def parse_event(e):
    """fairlearn's event label ('all', 'label=1', 'label=0.0') -> 'all' / int label."""
    e = str(e)
    return "all" if e == "all" else int(float(e.split("=")[1]))


def series_to_dict(s, groups):
    """Multiplier / gamma Series indexed (sign, event, group_id) -> dict keyed like parity_gamma; groups maps str(group) -> group."""
    return {(str(k[0]), parse_event(k[1]), groups[str(k[2])]): float(v) for k, v in s.items()}


# ---------------------------------------------------------------------------------------------- data
def make_inputs(x, y, sf, fmt, strings):
    """(X, y, sensitive_features) in one of several container formats; group labels optionally strings in non-sorted order."""
    import pandas as pd
    names = ["m", "k", "z", "b"]
    g = [names[v] for v in sf] if strings else list(sf)
    if fmt == 0:
        return np.array(x, dtype=float).reshape(-1, 1), np.array(y), np.array(g), g
    if fmt == 1:
        return pd.DataFrame({"feat": np.array(x, dtype=float)}), pd.Series(list(y), name="lab"), pd.Series(g, name="grp"), g
    return pd.DataFrame({"feat": list(x)}), list(y), list(g), g


def random_dataset(rng, k, G, n, need="cells"):
    """x in {0..k-1}^n, y in {0,1}^n, sf in {0..G-1}^n.  need='cells': every (group,label) cell non-empty; 'groups': every group and both
    labels present (group x label cells may be empty); single-member groups happen naturally for small n."""
    for _ in range(10000):
        x, y, sf = rng.integers(0, k, n), rng.integers(0, 2, n), rng.integers(0, G, n)
        if need == "cells" and all(((sf == g) & (y == l)).any() for g in range(G) for l in (0, 1)):
            break
        if need == "groups" and len(set(sf.tolist())) == G and len(set(y.tolist())) == 2:
            break
    else:
        raise RuntimeError("no dataset")
    return tuple(int(v) for v in x), tuple(int(v) for v in y), tuple(int(v) for v in sf)
