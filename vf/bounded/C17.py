"""C17 bounded stand-in (labelled bounded, never counted as proved).

X1 schedule_recording (exhaustive): a recording BackendEngine subclass passed as backend= to AdversarialFairnessClassifier/Regressor
   (shuffle=False): every n in 1..7 x batch_size in {-1,1,2,3,5,7,10} x epochs in {-1,1,2,3} x max_iter in {-1,1,2,5} (not both -1) x
   stop point in {none,1,2,3,5} x callback layout (one callable | list of one | two, stopper first | two, stopper second; non-stopping
   callbacks return None or False).  Observed: the row slices handed to train_step (X, y and sensitive rows must be the same consecutive
   rows), the step numbers and n_iter_ seen by every callback, final n_iter_, fit returns self.  Oracle: plain loops from the statement:
   B = ceil(n/bs), E = epochs or ceil(max_iter/B); step k (1-based) trains rows [((k-1) mod B)*bs, min(.., n)); stop after step k if
   k = max_iter (no callbacks then), or after the callbacks of step k if some callback returned True; every callback is called once
   per completed step with step = k.
X2 fit_vs_partial_fit (seeded): real torch models (0-1 hidden layers), Adam and SGD, binary / 3-class / continuous targets and sensitive
   features, DP/EO, n <= 7 and the same geometry values: fit(...) against the same slices issued through partial_fit on an identically
   configured estimator; parameters of predictor and adversary must be bit-identical (torch.equal) and predictions equal.  Data are built so
   that the first slice contains every class (documented requirement of the first call) and every slice has the target type of the whole.
X3 predict_label_space (seeded): fitted classifiers/regressors with int labels ({0,1}, {-1,1}, {2,5,9}) and string labels, list models
   and a pre-built all-zero sigmoid model (raw output exactly 0.5 -> positive class): predict(X) is an (n,) array of members of the training
   label set; binary: larger label iff _raw_predict >= 0.5; multiclass: sorted labels[argmax of the raw row] (ties skipped); regression:
   predict == raw output.

NOT checked: shuffle=True, progress_updates logging, TensorFlow, cuda, callbacks returning truthy non-bool (RuntimeError is outside the
statement), warm_start.

Note: max_iter is a constructor parameter of the private base class only; the public classifier/regressor leave it at -1, so the stand-in
sets the attribute after construction to exercise the max_iter clauses of the statement.

Sensitivity self-test (scratch worktree /tmp/agent_C15/r, quick tier; keys C17:<...> that fired):
  1 upper slice bound n-1 (last row of the last batch dropped)         -> fit.schedule:slices, fit-vs-partial_fit:parameters
  2 batches = floor(n/batch_size)                                       -> fit.schedule:slices, fit-vs-partial_fit:parameters
  3 `n_iter_ > max_iter` instead of `>=`                                -> fit.schedule:callback-steps, :slices
  4 callback loop breaks at the first callback returning True           -> fit.schedule:callback-steps (two callbacks, stopper first)
  5 epochs = floor(max_iter/batches)                                    -> fit.schedule:slices
  6 callbacks receive step = n_iter_ - 1                                -> fit.schedule:callback-steps
  7 binary predictor function `>` instead of `>=`                       -> predict:binary-threshold (all-zero model, raw output exactly 0.5)
  8 binary predict skips the inverse label transform                    -> predict:label-space ({-1,1} and string labels)
  9 classifier threshold_value 0.4                                      -> predict:binary-threshold
 10 sensitive rows taken from slice(0, len) instead of the batch slice  -> fit.schedule:rows-misaligned
 11 shuffle applied although shuffle=False                              -> fit.schedule:rows-not-consecutive
 12 n_iter_ reset at every epoch                                        -> fit.schedule:n_iter_
 13 regression predictor function rounds                               -> predict:regression-raw
 14 multiclass argmax of the negated scores                             -> predict:multiclass-argmax
 15 partial_fit performs two training steps                             -> fit-vs-partial_fit:parameters
 16 callbacks skipped after the last batch of an epoch                  -> fit.schedule:callback-steps
 17 fit returns None when a callback stops it                           -> fit.schedule:returns-self
"""
import itertools
import math

import numpy as np

from ..report import fingerprint
from .harness import run_cases

BATCH = (-1, 1, 2, 3, 5, 7, 10)
EPOCHS = (-1, 1, 2, 3)
MAXIT = (-1, 1, 2, 5)
STOPS = (None, 1, 2, 3, 5)
LAYOUTS = ("callable", "list1", "two-first", "two-second")


def spec_schedule(n, bs, epochs, max_iter, stop_at):
    """first-principles schedule: list of (lo, hi) slices and the step numbers at which callbacks are invoked."""
    bs = n if bs == -1 else bs
    B = math.ceil(n / bs)
    E = epochs if epochs != -1 else math.ceil(max_iter / B)
    slices, cb_steps = [], []
    for k in range(1, E * B + 1):
        b = (k - 1) % B
        slices.append((b * bs, min((b + 1) * bs, n)))
        if max_iter != -1 and k >= max_iter:
            break
        cb_steps.append(k)
        if stop_at is not None and k == stop_at:
            break
    return slices, cb_steps


# ------------------------------------------------------------------ X1
def _recording_engine():
    from fairlearn.adversarial._backend_engine import BackendEngine

    class Rec(BackendEngine):
        model_class = list
        optim_class = type(None)

        def __init__(self, base, X, Y, A):
            self.base = base
            self.calls = []

        def train_step(self, X, Y, A):
            self.calls.append((np.asarray(X)[:, 0].tolist(), np.asarray(Y).reshape(len(Y), -1)[:, 0].tolist(), np.asarray(A).reshape(len(A), -1)[:, 0].tolist()))
            return (0.0, 0.0)

        def evaluate(self, X):
            return np.zeros((len(X), 1))
    return Rec


def _check_schedule(case):
    import logging
    logging.disable(logging.CRITICAL)
    from fairlearn.adversarial import AdversarialFairnessClassifier, AdversarialFairnessRegressor
    n, bs, epochs, max_iter, stop_at, layout, reg, ret_none = case[:8]
    fp = fingerprint(case)
    X = np.arange(n, dtype=float).reshape(-1, 1)
    A = np.arange(n, dtype=float) + 0.5                       # continuous: passed through unchanged, identifies the row
    y = (np.arange(n, dtype=float) + 0.25) if reg else (np.arange(n) % 2)
    exp_slices, exp_cb = spec_schedule(n, bs, epochs, max_iter, stop_at)
    nontrivial = len(exp_slices) >= 2
    seen = [[], []]

    def mk(idx, stopper):
        def cb(est, step=None, **kw):
            seen[idx].append((step, getattr(est, "n_iter_", None)))
            if stopper and stop_at is not None and step == stop_at:
                return True
            return None if ret_none else False
        return cb
    cbs = {"callable": mk(0, True), "list1": [mk(0, True)], "two-first": [mk(0, True), mk(1, False)], "two-second": [mk(0, False), mk(1, True)]}[layout]
    ncb = 2 if layout.startswith("two") else 1
    cls = AdversarialFairnessRegressor if reg else AdversarialFairnessClassifier
    est = cls(backend=_recording_engine(), predictor_model=[], adversary_model=[], epochs=epochs, batch_size=bs, shuffle=False, callbacks=cbs)
    est.max_iter = max_iter      # max_iter is a parameter of the base class only; the public classes leave it at -1, so it is set as attribute
    replay = {"history": ("fit once before, warm_start=%s" % (case[8] == "warm")) if len(case) > 8 and case[8] else "fresh estimator",
              "n": n, "batch_size": bs, "epochs": epochs, "max_iter": max_iter, "stop_at_step": stop_at, "callbacks": layout,
              "estimator": cls.__name__, "X": X.tolist(), "y": y.tolist(), "sensitive_features": A.tolist()}

    def viol(which, what, got, exp):
        return (nontrivial, fp, (f"C17:fit.schedule:{which}", f"{what}: got {repr(got)[:200]}, first-principles {repr(exp)[:200]} "
                                 f"[{cls.__name__} n={n} batch_size={bs} epochs={epochs} max_iter={max_iter} stop_at={stop_at} callbacks={layout}{' refit:' + str(case[8]) if len(case) > 8 and case[8] else ''}]",
                                 dict(replay, got=repr(got)[:500], expected=repr(exp)[:500])))
    refit = len(case) > 8 and case[8]
    try:
        if refit:
            # history: the same estimator object was fitted before (warm_start on/off); the schedule of THIS fit must be the documented one again
            est.warm_start = (refit == "warm")
            est.fit(X, y, sensitive_features=A)
            est.backendEngine_.calls = []
            seen[0].clear(), seen[1].clear()
        r = est.fit(X, y, sensitive_features=A)
    except Exception as ex:
        return viol("raises", f"fit raised {type(ex).__name__}", repr(ex)[:200], "a fitted estimator")
    calls = est.backendEngine_.calls
    got_slices = []
    for xs, ys, as_ in calls:
        rows = [int(v) for v in xs]
        if rows != list(range(rows[0], rows[0] + len(rows))) if rows else True:
            return viol("rows-not-consecutive", "a training step received rows that are not a consecutive slice", rows, "consecutive rows")
        if [v - 0.5 for v in as_] != [float(v) for v in rows] or (reg and [v - 0.25 for v in ys] != [float(v) for v in rows]):
            return viol("rows-misaligned", "X, y and sensitive rows of one training step are not the same rows", (xs, ys, as_), "same rows")
        got_slices.append((rows[0], rows[-1] + 1))
    if got_slices != exp_slices:
        return viol("slices", "row slices of the training steps", got_slices, exp_slices)
    if getattr(est, "n_iter_", None) != len(exp_slices):
        return viol("n_iter_", "n_iter_ after fit", getattr(est, "n_iter_", None), len(exp_slices))
    for j in range(ncb):
        if [s for s, _ in seen[j]] != exp_cb:
            return viol("callback-steps", f"step numbers passed to callback {j}", [s for s, _ in seen[j]], exp_cb)
        if [k for _, k in seen[j]] != exp_cb:
            return viol("callback-n_iter_", f"n_iter_ visible to callback {j}", [k for _, k in seen[j]], exp_cb)
    if r is not est:
        return viol("returns-self", "fit return value", type(r).__name__, "the estimator")
    return (nontrivial, fp, None)


# ------------------------------------------------------------------ shared data builders for X2 / X3
LABELSETS = {"binary": [(0, 1), (-1, 1), ("no", "yes")], "multiclass": [(0, 1, 2), (2, 5, 9), ("a", "b", "c")]}


def _values(rng, kind, n, labels=None):
    if kind == "continuous":
        return np.round(rng.normal(size=n), 2) + 0.013
    k = 2 if kind == "binary" else 3
    idx = np.arange(n) % k if kind == "multiclass" else np.concatenate([[0, 1], rng.integers(0, 2, max(0, n - 2))])[:n]
    labels = labels or LABELSETS[kind][0]
    return np.array([labels[int(i)] for i in idx])


def _estimator(torch, kind, cfg, callbacks=None):
    from fairlearn.adversarial import AdversarialFairnessClassifier, AdversarialFairnessRegressor
    cls = AdversarialFairnessRegressor if kind == "continuous" else AdversarialFairnessClassifier
    est = cls(backend="torch", predictor_model=list(cfg["p_arch"]), adversary_model=list(cfg["a_arch"]), predictor_optimizer=cfg["optim"],
              adversary_optimizer=cfg["optim"], constraints=cfg["constraints"], learning_rate=0.1, alpha=cfg["alpha"], epochs=cfg["epochs"],
              batch_size=cfg["bs"], shuffle=False, callbacks=callbacks, random_state=cfg["seed"])
    est.max_iter = cfg["max_iter"]
    return est


# ------------------------------------------------------------------ X2
def _pf_config(case):
    kind, akind, seed = case
    rng = np.random.default_rng([seed, ("binary", "multiclass", "continuous").index(kind), ("binary", "multiclass", "continuous").index(akind)])
    need = max(3 if "multiclass" in (kind, akind) else 1, 2 if "binary" in (kind, akind) else 1)    # rows the first slice needs to show every class
    if need == 3:
        n, bs = (3, 6)[int(rng.integers(2))], (3, -1, 6, 10)[int(rng.integers(4))]
    else:
        n = int(rng.integers(need, 8))
        bs = [b for b in BATCH if b == -1 or b >= need][int(rng.integers(len([b for b in BATCH if b == -1 or b >= need])))]
    epochs, max_iter = EPOCHS[int(rng.integers(4))], MAXIT[int(rng.integers(4))]
    if epochs == -1 and max_iter == -1:
        epochs = 2
    cfg = {"n": n, "bs": bs, "epochs": epochs, "max_iter": max_iter, "stop_at": (None, None, 1, 2, 3)[int(rng.integers(5))],
           "optim": ("Adam", "SGD")[int(rng.integers(2))], "constraints": ("demographic_parity", "equalized_odds")[int(rng.integers(2))],
           "alpha": (0.5, 1.0)[int(rng.integers(2))], "p_arch": [[], [3], [2, "sigmoid"]][int(rng.integers(3))], "a_arch": [[], [2]][int(rng.integers(2))],
           "seed": int(seed), "d": int(rng.integers(1, 4))}
    X = np.round(rng.normal(size=(n, cfg["d"])), 2)
    y = _values(rng, kind, n, LABELSETS[kind][int(rng.integers(3))] if kind != "continuous" else None)
    a = _values(rng, akind, n, LABELSETS[akind][int(rng.integers(3))] if akind != "continuous" else None)
    return cfg, X, y, a


def _check_pf(case):
    import logging
    logging.disable(logging.CRITICAL)
    import torch
    torch.set_num_threads(1)
    kind, akind, seed = case
    cfg, X, y, a = _pf_config(case)
    fp = fingerprint(case)
    slices, _ = spec_schedule(cfg["n"], cfg["bs"], cfg["epochs"], cfg["max_iter"], cfg["stop_at"])
    nontrivial = len(slices) >= 2
    replay = dict(cfg, target=kind, sensitive=akind, X=X.tolist(), y=y.tolist(), sensitive_features=a.tolist(), slices=slices)

    def viol(which, what, got, exp):
        return (nontrivial, fp, (f"C17:fit-vs-partial_fit:{which}", f"{what}: got {repr(got)[:200]}, expected {repr(exp)[:200]} "
                                 f"[target={kind} sensitive={akind} {({k: cfg[k] for k in cfg if k != 'seed'})}]", dict(replay, got=repr(got)[:500], expected=repr(exp)[:500])))
    stop_at = cfg["stop_at"]
    cb = (lambda est, step=None, **kw: bool(step == stop_at)) if stop_at is not None else None
    e_fit, e_pf = _estimator(torch, kind, cfg, cb), _estimator(torch, kind, cfg, None)
    try:
        e_fit.fit(X, y, sensitive_features=a)
    except Exception as ex:
        return viol("fit-raises", f"fit raised {type(ex).__name__}", repr(ex)[:200], "a fitted estimator")
    try:
        for i, (lo, hi) in enumerate(slices):
            # `classes` at the first call, and - for every second case - again at every later call (the usual scikit-learn partial_fit loop idiom)
            kw = {"classes": np.unique(y)} if (kind != "continuous" and (i == 0 or cfg["seed"] % 2)) else {}
            e_pf.partial_fit(X[lo:hi], y[lo:hi], sensitive_features=a[lo:hi], **kw)
    except Exception as ex:
        return viol("partial_fit-raises", f"partial_fit on slice {slices[i]} raised {type(ex).__name__}", repr(ex)[:200], "a training step")
    for name in ("predictor_model", "adversary_model"):
        P = [p.detach() for p in getattr(e_fit.backendEngine_, name).parameters()]
        Q = [p.detach() for p in getattr(e_pf.backendEngine_, name).parameters()]
        if len(P) != len(Q) or not all(torch.equal(p, q) for p, q in zip(P, Q)):
            d = max((float((p - q).abs().max()) for p, q in zip(P, Q) if p.shape == q.shape), default=float("nan"))
            return viol("parameters", f"{name} after fit differs from the same {len(slices)} slices through partial_fit (max abs difference {d:.3g})",
                        [p.tolist() for p in P], [q.tolist() for q in Q])
    p1, p2 = e_fit.predict(X), e_pf.predict(X)
    if not np.array_equal(p1, p2):
        return viol("predictions", "predictions of the two estimators", p1.tolist(), p2.tolist())
    return (nontrivial, fp, None)


# ------------------------------------------------------------------ X3
def _check_predict(case):
    import logging
    logging.disable(logging.CRITICAL)
    import torch
    torch.set_num_threads(1)
    kind, li, model, seed = case
    rng = np.random.default_rng([seed, ("binary", "multiclass", "continuous").index(kind), li, ("list", "zero").index(model)])
    fp = fingerprint(case)
    n, d = int(rng.integers(3, 8)), int(rng.integers(1, 4))
    labels = LABELSETS[kind][li] if kind != "continuous" else None
    X = np.round(rng.normal(size=(n, d)), 2) * 2
    y = _values(rng, kind, n, labels)
    if kind == "binary":
        y = y[rng.permutation(n)]
    a = _values(rng, ("binary", "continuous")[int(rng.integers(2))], n)
    cfg = {"p_arch": [[], [4], [3, "leaky_relu"]][int(rng.integers(3))], "a_arch": [], "optim": "SGD", "constraints": "demographic_parity", "alpha": 0.3,
           "epochs": int(rng.integers(1, 4)), "bs": (-1, 2, 3)[int(rng.integers(3))], "max_iter": -1, "seed": int(seed)}
    est = _estimator(torch, kind, cfg)
    if model == "zero":      # pre-built predictor with all-zero parameters and no-op optimisers: the raw output is exactly sigmoid(0) = 0.5 for every row
        lin = torch.nn.Linear(d, 1)
        with torch.no_grad():
            lin.weight.zero_(), lin.bias.zero_()

        class Frozen(torch.optim.SGD):
            def step(self, closure=None):
                return None
        est.set_params(predictor_model=torch.nn.Sequential(lin, torch.nn.Sigmoid()), adversary_model=torch.nn.Sequential(torch.nn.Linear(1, 1), *([torch.nn.Sigmoid()] if len(set(a.tolist())) == 2 else [])),
                       predictor_optimizer=lambda m: Frozen(m.parameters(), lr=0.1), adversary_optimizer=lambda m: Frozen(m.parameters(), lr=0.1))
    Xt = np.vstack([X, np.round(rng.normal(size=(6, d)), 2) * 3])
    replay = {"target": kind, "labels": repr(labels), "model": model, "X": X.tolist(), "y": y.tolist(), "sensitive_features": a.tolist(), "X_test": Xt.tolist(),
              **{k: cfg[k] for k in ("p_arch", "epochs", "bs", "seed")}}

    def viol(which, what, got, exp):
        return (True, fp, (f"C17:predict:{which}", f"{what}: got {repr(got)[:200]}, first-principles {repr(exp)[:200]} [target={kind} labels={labels} model={model} "
                           f"p_arch={cfg['p_arch']} n={n}]", dict(replay, got=repr(got)[:500], expected=repr(exp)[:500])))
    try:
        est.fit(X, y, sensitive_features=a)
        raw = np.asarray(est._raw_predict(Xt))
        pred = est.predict(Xt)
    except Exception as ex:
        return viol("raises", f"fit/predict raised {type(ex).__name__}", repr(ex)[:200], "predictions")
    pred = np.asarray(pred)
    if pred.shape != (len(Xt),):
        return viol("shape", "shape of predict(X)", pred.shape, (len(Xt),))
    if kind == "continuous":
        if not np.array_equal(pred.astype(float), raw.reshape(-1).astype(float), equal_nan=True):
            return viol("regression-raw", "regressor predict differs from the raw predictor output", pred.tolist(), raw.reshape(-1).tolist())
        return (True, fp, None)
    cats = sorted(set(y.tolist()))
    if not set(pred.tolist()) <= set(cats):
        return viol("label-space", "predict returned values outside the training label set", sorted(set(pred.tolist()), key=repr), cats)
    if kind == "binary":
        if model == "zero" and not np.all(raw == 0.5):
            raise AssertionError("harness: zero model does not give raw output 0.5")
        exp = [cats[1] if float(r) >= 0.5 else cats[0] for r in raw.reshape(-1)]
        if pred.tolist() != exp:
            return viol("binary-threshold", "binary predict is not 'larger label iff raw output >= 0.5'", pred.tolist(), exp)
    else:
        for i, row in enumerate(raw):
            top = np.flatnonzero(row == row.max())
            if len(top) == 1 and pred[i] != cats[int(top[0])]:
                return viol("multiclass-argmax", f"row {i}: predicted class is not the arg-max of the raw output {row.tolist()}", pred[i].item() if hasattr(pred[i], "item") else pred[i], cats[int(top[0])])
    return (True, fp, None)


def run_bounded(rep):
    rep.assume("A2", "A7")
    quick = rep.tier == "quick"
    sched = []
    for i, (n, bs, ep, mi, st, lay) in enumerate(itertools.product(range(1, 8), BATCH, EPOCHS, MAXIT, STOPS, LAYOUTS)):
        if ep == -1 and mi == -1:
            continue
        for reg in ((bool(i % 2),) if quick else (False, True)):
            sched.append((n, bs, ep, mi, st, lay, reg, bool((i // 2) % 2)))
    # refit histories (every 7th configuration, with warm_start on and off): the step counter, callbacks and slices start afresh
    sched += [c + (("warm", "cold")[j % 2],) for j, c in enumerate(sched[::7])]
    run_cases(rep, "schedule_recording_rtc",
              rule="every n in 1..7 x batch_size %s x epochs %s x max_iter %s (not both -1) x stop step %s x callback layout %s, %s; recording "
                   "BackendEngine; oracle: loop schedule from the statement; non-trivial = at least 2 steps; distinct by full case"
                   % (list(BATCH), list(EPOCHS), list(MAXIT), list(STOPS), list(LAYOUTS), "classifier/regressor alternating" if quick else "classifier and regressor"),
              bound="n <= 7, epochs <= 3, max_iter <= 5, <= 2 callbacks", cases=sched, check_case=_check_schedule, exhaustive=True)
    kinds = ("binary", "multiclass", "continuous")
    reps = 12 if quick else 150
    pf = [(k, ak, rep.seed * 100000 + r) for k, ak in itertools.product(kinds, kinds) for r in range(reps)]
    run_cases(rep, "fit_vs_partial_fit_rtc",
              rule="target kind x sensitive kind in %s^2, %d seeded draws each of n<=7, batch_size, epochs, max_iter, callback stop step, Adam/SGD, DP/EO, "
                   "0-1 hidden layers, label sets (ints/strings); first slice shows every class; bit-identical parameters required; non-trivial = at least 2 steps"
                   % (list(kinds), reps), bound="n <= 7, <= 15 steps, hidden width <= 3", cases=pf, check_case=_check_pf, exhaustive=False)
    reps = 6 if quick else 60
    pr = [(k, li, m, rep.seed * 100000 + r) for k in kinds for li in range(3 if k != "continuous" else 1)
          for m in (("list", "zero") if k == "binary" else ("list",)) for r in range(reps)]
    run_cases(rep, "predict_label_space_rtc",
              rule="target kind %s x label set (ints {0,1}/{-1,1}/{2,5,9}, strings) x model (list | all-zero sigmoid model with raw output exactly 0.5), %d seeded "
                   "fits each; oracle: threshold 0.5 / argmax / identity on _raw_predict and sorted training labels" % (list(kinds), reps),
              bound="n <= 7 training rows + 6 fresh rows, <= 3 features", cases=pr, check_case=_check_predict, exhaustive=False)
