"""C16 bounded stand-in (labelled bounded, never counted as proved; torch engine only - tensorflow is not installed).

X: real training steps of AdversarialFairnessClassifier / AdversarialFairnessRegressor (backend="torch") observed through plain SGD:
   grid target kind {binary, 3-class, continuous} x sensitive kind {binary, 3-class, continuous, 2-column continuous} x
   {demographic_parity, equalized_odds} x alpha {0, .7, 3}, and per grid point `reps` seeded draws of
     predictor / adversary architecture (0..2 hidden layers, widths 1..6, optional activations "sigmoid"/"leaky_relu"/Tanh()/"relu"),
     model API (list of nodes | pre-built torch.nn.Module), optimiser API (constructor callable | "SGD" + learning_rate | pre-initialised
     instance), learning rate {1, .5, .25}, entry point of the first step (partial_fit | fit with batch_size=-1, epochs=1),
     1..3 consecutive steps on fresh batches of 3..7 rows (labels int or str), 1..4 input features.
   Per step the parameters W0 before and W1 after are read from backendEngine_.{predictor,adversary}_model and (W0-W1)/lr is compared,
   per parameter tensor, with the first-principles update computed on a deep copy of the model in state W0:
        gP = dLP/dW, gA = dLA/dW by torch.autograd.grad (two separate graphs), LP / LA written out here (mean NLL / mean square loss,
        labels encoded here: indicator of the larger label, one-hot in sorted order, raw floats), adversary input = predictor output
        (+ encoded y for equalized odds);
        g = gP - (<gA,gP>_F / <gA,gA>_F) gA - alpha gA     (float64 combination; g = gP - alpha gA if gA = 0)
   checks: <(W0-W1)/lr + alpha gA, gA>_F = 0 (orthogonality), (W0-W1)/lr = g, adversary (U0-U1)/lr = dLA/dU, every step of the sequence.
   The state before the first step comes from an identically configured twin (same random_state / identically seeded modules) whose optimisers
   have a no-op step().  A sequence ends early when the first-principles gradients stop being finite or a sigmoid output leaves [1e-6, 1-1e-6] (diverged/saturated
   state, where torch's BCELoss clamps and is no longer the exact negative log-likelihood).
Tolerance 2e-5*(1+|W0|+|gP|+(1+alpha)|gA|) (float32 models).

NOT checked: TensorFlow engine (not installed), Adam/other stateful optimisers (the update direction is observed through SGD only, A2),
cuda, shuffle=True, the `tiny` regulariser for vanishing gA (A1), user-supplied losses.

Finding of this stand-in (own key `C16:torch.train_step:zero-adversary-gradient:nan`): when dLA/dW is exactly zero for a predictor
tensor (e.g. every ReLU unit of the adversary inactive: adversary_model=[2,"relu"] with negative first-layer weights), the projection on
the zero vector is zero and g = dLP/dW, but the engine divides by ||dLA|| + torch.finfo(float).tiny, which is 0 in float32 arithmetic, and
every predictor weight becomes NaN after one step.

Sensitivity self-test (scratch worktree /tmp/agent_C15/r, quick tier; keys C16:torch.train_step:<...> that fired, besides the finding):
  1 revert 80e7ec2 (torch.sum(torch.inner(u, v)))                          -> frobenius_projection
  2 projection term dropped                                                -> frobenius_projection
  3 `+ alpha*dLA` instead of `- alpha*dLA`                                 -> frobenius_projection, predictor-update
  4 alpha multiplies the unit vector instead of dLA                        -> frobenius_projection
  5 no zero_grad between the LP and LA backward passes                     -> predictor-update, frobenius_projection
  6 equalized odds: y not passed to the adversary                          -> raises (shape mismatch)
  7 equalized odds: cat((Y, Y_hat)) instead of cat((Y_hat, Y))             -> predictor-update, frobenius_projection, adversary-update
  8 adversary fed with Y_hat.detach()                                      -> raises (no gradient reaches the predictor)
  9 one projection coefficient summed over all tensors                     -> frobenius_projection
 10 adversary optimiser step skipped when alpha == 0                       -> adversary-update
 11 row-wise instead of Frobenius normalisation                            -> frobenius_projection
 12 adversary gradient scaled by (1+alpha)                                 -> adversary-update
 13 first zero_grad removed (gradients accumulate over steps)              -> predictor-update (second step of a sequence)
 14 "SGD" string optimiser ignores learning_rate (lr=1)                    -> predictor-update, frobenius_projection, adversary-update
 15 division by the squared norm                                           -> frobenius_projection
"""
import itertools

import numpy as np

from ..report import fingerprint
from .harness import run_cases

TARGETS = ("binary", "multiclass", "continuous")
SENS = ("binary", "multiclass", "continuous", "continuous2")
CONSTRAINTS = ("demographic_parity", "equalized_odds")
ALPHAS = (0.0, 0.7, 3.0)
ACTS = (None, None, "sigmoid", "leaky_relu", "tanh", "relu")


def _labels(rng, kind, n, as_str):
    """n labels of the kind; every class present (the estimator requires it in every batch)."""
    if kind == "binary":
        v = np.concatenate([[0, 1], rng.integers(0, 2, n - 2)])
    elif kind == "multiclass":
        v = np.concatenate([[0, 1, 2], rng.integers(0, 3, n - 3)])
    elif kind == "continuous":
        return np.round(rng.normal(size=n), 2) + 0.013
    else:
        return np.round(rng.normal(size=(n, 2)), 2) + 0.013
    v = v[rng.permutation(n)]
    return np.array([("lo", "mid", "zz")[int(i)] if kind == "multiclass" else ("neg", "pos")[int(i)] for i in v]) if as_str else v.astype(int)


def _arch(rng):
    """list-of-nodes description: 0..2 hidden layers of width 1..6 with optional activations."""
    out = []
    for _ in range(int(rng.integers(0, 3))):
        out.append(int(rng.integers(1, 7)))
        act = ACTS[int(rng.integers(len(ACTS)))]
        if act:
            out.append(act)
    return out


def _encode(v, kind):
    """first-principles encoding of labels as the float matrix the networks are trained on."""
    v = np.asarray(v)
    if kind in ("continuous", "continuous2"):
        return v.astype(float).reshape(len(v), -1)
    cats = sorted(set(v.tolist()))
    if kind == "binary":
        return np.array([[1.0 if x == cats[1] else 0.0] for x in v.tolist()])
    return np.array([[1.0 if x == c else 0.0 for c in cats] for x in v.tolist()])


def _loss(torch, out, target, kind):
    if kind == "binary":          # out = probability of the larger label
        return -(target * torch.log(out) + (1 - target) * torch.log(1 - out)).mean()
    if kind == "multiclass":      # out = scores; mean negative log-likelihood under softmax
        return -(target * torch.log_softmax(out, dim=1)).sum(dim=1).mean()
    return ((out - target) ** 2).mean()


def _module(torch, nodes, n_in, n_out, kind, seed):
    """pre-built torch module equivalent to the list description (final sigmoid for a binary output), own random initialisation."""
    g = torch.Generator().manual_seed(seed)
    layers, width = [], n_in
    acts = {"sigmoid": torch.nn.Sigmoid, "leaky_relu": torch.nn.LeakyReLU, "tanh": torch.nn.Tanh, "relu": torch.nn.ReLU}
    for item in list(nodes) + [n_out]:
        if isinstance(item, int):
            lin = torch.nn.Linear(width, item)
            with torch.no_grad():
                lin.weight.copy_(torch.rand(lin.weight.shape, generator=g) * 1.6 - 0.8)
                lin.bias.copy_(torch.rand(lin.bias.shape, generator=g) * 0.6 - 0.3)
            layers.append(lin)
            width = item
        else:
            layers.append(acts[item]())
    if kind == "binary":
        layers.append(torch.nn.Sigmoid())
    return torch.nn.Sequential(*layers)


def _make(torch, cfg, lr, frozen=False):
    """the estimator of the case; frozen=True: same configuration, but optimisers whose step() does nothing (twin that keeps the initial state)."""
    from fairlearn.adversarial import AdversarialFairnessClassifier, AdversarialFairnessRegressor
    tk, sk = cfg["target"], cfg["sens"]
    ny = 3 if tk == "multiclass" else 1
    na = {"binary": 1, "multiclass": 3, "continuous": 1, "continuous2": 2}[sk]
    as_list = lambda nodes: [torch.nn.Tanh() if x == "tanh" else x for x in nodes]
    if cfg["model_api"] == "list":
        pm, am = as_list(cfg["p_arch"]), as_list(cfg["a_arch"])
    else:
        pm = _module(torch, cfg["p_arch"], cfg["d"], ny, tk, cfg["seed"] + 1)
        am = _module(torch, cfg["a_arch"], ny * (2 if cfg["constraints"] == "equalized_odds" else 1), na, sk, cfg["seed"] + 2)
    class Frozen(torch.optim.SGD):
        def step(self, closure=None):
            return None
    if frozen:
        kw = dict(predictor_optimizer=lambda m: Frozen(m.parameters(), lr=lr), adversary_optimizer=lambda m: Frozen(m.parameters(), lr=lr))
    elif cfg["optim_api"] == "callable":
        kw = dict(predictor_optimizer=lambda m: torch.optim.SGD(m.parameters(), lr=lr), adversary_optimizer=lambda m: torch.optim.SGD(m.parameters(), lr=lr))
    elif cfg["optim_api"] == "string":
        kw = dict(predictor_optimizer="SGD", adversary_optimizer="sgd", learning_rate=lr)
    else:                          # pre-initialised optimiser instances (needs pre-built modules)
        kw = dict(predictor_optimizer=torch.optim.SGD(pm.parameters(), lr=lr), adversary_optimizer=torch.optim.SGD(am.parameters(), lr=lr))
    cls = AdversarialFairnessRegressor if tk == "continuous" else AdversarialFairnessClassifier
    return cls(backend="torch", predictor_model=pm, adversary_model=am, constraints=cfg["constraints"], alpha=cfg["alpha"],
               epochs=1, batch_size=-1, shuffle=False, random_state=cfg["seed"], **kw)


def _config(case):
    tk, sk, cons, alpha, seed = case
    rng = np.random.default_rng([seed, TARGETS.index(tk), SENS.index(sk), CONSTRAINTS.index(cons), int(alpha * 10)])
    cfg = {"target": tk, "sens": sk, "constraints": cons, "alpha": alpha, "seed": int(seed),
           "p_arch": _arch(rng), "a_arch": _arch(rng), "d": int(rng.integers(1, 5)),
           "model_api": ("list", "list", "module")[int(rng.integers(3))], "lr": (1.0, 1.0, 0.5, 0.25)[int(rng.integers(4))],
           "entry": ("partial_fit", "fit")[int(rng.integers(2))], "steps": int(rng.integers(1, 4)),
           "y_str": bool(rng.integers(2)), "a_str": bool(rng.integers(2))}
    cfg["optim_api"] = ("callable", "string", "instance")[int(rng.integers(3))] if cfg["model_api"] == "module" else ("callable", "string")[int(rng.integers(2))]
    batches = []
    for _ in range(cfg["steps"]):
        n = int(rng.integers(3, 8))
        batches.append((np.round(rng.normal(size=(n, cfg["d"])), 2), _labels(rng, tk, n, cfg["y_str"]), _labels(rng, sk, n, cfg["a_str"])))
    return cfg, batches


def _step(est, entry, X, y, a, first, classifier):
    if entry == "fit" and first:
        return est.fit(X, y, sensitive_features=a)
    if first and classifier:
        return est.partial_fit(X, y, classes=np.unique(y), sensitive_features=a)
    return est.partial_fit(X, y, sensitive_features=a)


def _check(case):
    import copy

    import torch
    torch.set_num_threads(1)
    cfg, batches = _config(case)
    tk, sk, alpha, lr = cfg["target"], cfg["sens"], cfg["alpha"], cfg["lr"]
    eo = cfg["constraints"] == "equalized_odds"
    fp = fingerprint(case)
    desc = {k: cfg[k] for k in ("target", "sens", "constraints", "alpha", "p_arch", "a_arch", "d", "model_api", "optim_api", "lr", "entry", "steps")}
    replay = dict(desc, seed=cfg["seed"], batches=[{"X": X.tolist(), "y": y.tolist(), "sensitive_features": a.tolist()} for X, y, a in batches])
    state = {"nontrivial": False}

    def viol(which, what, got=None, exp=None):
        return (state["nontrivial"], fp, (f"C16:torch.train_step:{which}", f"{what}: got {repr(got)[:200]}, first-principles {repr(exp)[:200]} [{desc}]",
                                          dict(replay, got=repr(got)[:600], expected=repr(exp)[:600])))

    est, twin = _make(torch, cfg, lr), _make(torch, cfg, lr, frozen=True)
    X0, y0, a0 = batches[0]
    try:
        _step(twin, cfg["entry"], X0, y0, a0, True, tk != "continuous")
    except Exception as ex:
        return viol("raises", f"first {cfg['entry']} (twin with no-op optimisers) raised {type(ex).__name__}", repr(ex)[:200], "a training step")
    before_p = copy.deepcopy(twin.backendEngine_.predictor_model)
    before_a = copy.deepcopy(twin.backendEngine_.adversary_model)
    for k, (X, y, a) in enumerate(batches):
        try:
            r = _step(est, cfg["entry"], X, y, a, k == 0, tk != "continuous")
        except Exception as ex:
            return viol("raises", f"step {k + 1} ({cfg['entry'] if k == 0 else 'partial_fit'}) raised {type(ex).__name__}", repr(ex)[:200], "a training step")
        if r is not est:
            return viol("returns-self", f"step {k + 1} did not return the estimator", type(r).__name__, "self")
        pm, am = est.backendEngine_.predictor_model, est.backendEngine_.adversary_model
        # ---- first-principles update from the state before the step
        Xt = torch.from_numpy(np.asarray(X, dtype=float)).float()
        Yt = torch.from_numpy(_encode(y, tk)).float()
        At = torch.from_numpy(_encode(a, sk)).float()
        before_p.train(), before_a.train()
        W = list(before_p.parameters())
        U = list(before_a.parameters())
        out = before_p(Xt)
        gP = torch.autograd.grad(_loss(torch, out, Yt, tk), W, allow_unused=True)
        out2 = before_p(Xt)
        a_hat = before_a(torch.cat((out2, Yt), dim=1) if eo else out2)
        sat = [t for t, kind in ((out, tk), (a_hat, sk)) if kind == "binary" and (float(t.min()) < 1e-6 or float(t.max()) > 1 - 1e-6)]
        if sat:
            break                         # saturated sigmoid (diverged state): torch's BCELoss clamps there and is no longer the exact NLL (A1)
        LA = _loss(torch, a_hat, At, "continuous" if sk == "continuous2" else sk)
        gA = torch.autograd.grad(LA, W, retain_graph=True, allow_unused=True)
        gU = torch.autograd.grad(LA, U, allow_unused=True)
        if not all(bool(torch.isfinite(t).all()) for t in list(gP) + list(gA) + list(gU) + W + U if t is not None):
            break                         # saturated / diverged state: the first-principles gradients are not finite, nothing to compare (A1)
        W1, U1 = list(pm.parameters()), list(am.parameters())
        if len(W1) != len(W) or len(U1) != len(U):
            return viol("parameter-list", "number of parameter tensors changed", (len(W1), len(U1)), (len(W), len(U)))
        for i, (w0, w1) in enumerate(zip(W, W1)):
            z = torch.zeros_like(w0)
            gp = (gP[i] if gP[i] is not None else z).double()
            ga = (gA[i] if gA[i] is not None else z).double()
            nn2 = float((ga * ga).sum())
            g = gp - alpha * ga - ((float((ga * gp).sum()) / nn2) * ga if nn2 > 0 else 0.0 * ga)
            got = (w0.detach().double() - w1.detach().double()) / lr
            tol = 2e-5 * (1 + float(w0.abs().max()) + float(gp.abs().max()) + (1 + alpha) * float(ga.abs().max())) / min(1.0, lr)
            if min(w0.shape) > 1 or (w0.dim() == 2 and w0.shape[0] > 1):
                state["nontrivial"] = True
            where = f"step {k + 1}, predictor parameter {i} of shape {tuple(w0.shape)}"
            if nn2 == 0.0 and not bool(torch.isfinite(got).all()):
                # dLA/dW is exactly zero (e.g. all ReLU units of the adversary inactive): the projection on the zero vector is zero and g = dLP;
                # the engine divides by ||dLA|| + finfo(float64).tiny, which is 0 in float32, and writes NaN into every predictor weight
                return viol("zero-adversary-gradient:nan", f"{where}: dLA/dW = 0, expected update dLP/dW, but the parameters became non-finite",
                            w1.detach().tolist(), (w0.detach().double() - lr * g).tolist())
            if 0.0 < nn2 < 1e-30:
                continue                  # ||dLA||^2 underflows in float32: conditioning of the normalisation is not probed (A1)
            if nn2 > 0.0:
                orth = float(((got + alpha * ga) * ga).sum())
                if not abs(orth) <= tol * float(ga.abs().sum()):
                    return viol("frobenius_projection", f"{where}: update + alpha*dLA/dW is not orthogonal to dLA/dW (Frobenius product)", orth, 0.0)
            if not float((got - g).abs().max()) <= tol:
                return viol("predictor-update", f"{where}: (W_before-W_after)/lr differs from dLP - proj_dLA(dLP) - alpha*dLA", got.tolist(), g.tolist())
        for i, (u0, u1) in enumerate(zip(U, U1)):
            gu = (gU[i] if gU[i] is not None else torch.zeros_like(u0)).double()
            got = (u0.detach().double() - u1.detach().double()) / lr
            tol = 2e-5 * (1 + float(u0.abs().max()) + float(gu.abs().max())) / min(1.0, lr)
            if not float((got - gu).abs().max()) <= tol:
                return viol("adversary-update", f"step {k + 1}, adversary parameter {i} of shape {tuple(u0.shape)}: (U_before-U_after)/lr differs from dLA/dU",
                            got.tolist(), gu.tolist())
        before_p, before_a = copy.deepcopy(pm), copy.deepcopy(am)
    return (state["nontrivial"], fp, None)


def run_bounded(rep):
    rep.assume("A1", "A2")
    reps = 10 if rep.tier == "quick" else 120
    cases = [(tk, sk, cons, a, rep.seed * 100000 + r) for tk, sk, cons, a in itertools.product(TARGETS, SENS, CONSTRAINTS, ALPHAS) for r in range(reps)]
    run_cases(rep, "torch_train_step_rtc",
              rule="grid target kind %s x sensitive kind %s x constraints x alpha %s, %d seeded draws per grid point of predictor/adversary architecture "
                   "(0..2 hidden layers, width 1..6, activations), model API (list/module), optimiser API (callable/'SGD'+learning_rate/instance), "
                   "lr in {1,.5,.25}, first step through partial_fit or fit, 1..3 steps on fresh batches of 3..7 rows, 1..4 features; oracle: "
                   "torch.autograd.grad on a deep copy + g = dLP - proj_dLA(dLP) - alpha*dLA per tensor (Frobenius); non-trivial = some predictor "
                   "weight matrix has more than one row; distinct by full case" % (list(TARGETS), list(SENS), list(ALPHAS), reps),
              bound="<= 2 hidden layers of width <= 6, batches of <= 7 rows, <= 4 features, <= 3 consecutive steps",
              cases=cases, check_case=_check, exhaustive=False)
