"""C01 bounded stand-in (labelled bounded, never counted as proved): MetricFrame end to end with tracer metrics.

Tracer: row i carries the value tag*16+i in y_true (tag 1), y_pred (tag 2) and in every sample parameter (tag 3+2*metric+param), so a metric can
tell exactly which rows, in which order, of which column it was given in each argument.  It returns 4*sum((row_k+1)*16^k)+metric_no when all
arguments carry their own tag and the same row sequence, and a negative error code otherwise.  Values are therefore irrelevant; only the group
STRUCTURE is enumerated.

Scope (X):
  one_feature    every assignment of n <= 5 (quick) / 7 (thorough) rows to one sensitive feature with <= 3 values; quick: 4 of the 9 metric
                 layouts per assignment (rotating), thorough: all 9 (bare / dict of 1-3 metrics, 0-2 sample params each, parameter names shared
                 between metrics)
  multi_feature  1-3 sensitive x 0-2 control binary features, every assignment of n <= 3 (quick) / 4 (thorough; 3 for five features) rows with the
                 first row fixed to the first value of every feature (= up to relabelling; the labels actually used rotate), layout rotating
  sampled        seeded (1500 / 30000): n <= 10, 1-3 sensitive x 0-2 control features with <= 3 values, random layout
  collision      the one input of known finding D12 (key C01:sample-param-column-name-collision)
  Labels are ints or strings whose sorted order differs from the order of appearance; y_true / y_pred / parameter / feature containers rotate over
  list, ndarray (1-D, 2-D object), named Series / DataFrame / dict, and Series / DataFrames with a permuted (non-positional) index.
Oracle: speclib.groups (key -> ascending row list) and the code of that row list.  Checked: by_group values (NaN exactly for the empty
  combinations), by_group index = observed values / Cartesian product, no duplicates, level names = control_levels + sensitive_levels (= the
  user's names where given), overall (per observed control combination; an unobserved one, if listed, must be NaN), result layout (scalar /
  Series / DataFrame with the metric names as columns), rows handed over in their original order (own key C01:by_group:row-order).
NOT checked: metrics returning non-scalars, NaN/None feature or parameter values, spelling of generated level names, order of index entries,
  bootstrap, further column-name collisions (with y_true/y_pred/feature names; same root cause as D12, deliberately one case only).
Finding of this stand-in (key C01:MetricFrame:raises:single-row-ndarray-features): a one-row dataset whose sensitive/control features are an
  ndarray raises ValueError because _process_features squeezes the array.  The 1-D form (np.array([7]) -> 0-d, "too many dimensions") was
  repaired by /repo commit 8d3b55c while this file was written; the 2-D form is still open: sensitive_features=np.array([['b', 0]], dtype=object)
  (1 row x 2 features) is squeezed to one feature with 2 rows -> "inconsistent numbers of samples: [2, 1]".

Sensitivity self-test (edits applied to a copy of a scratch worktree of /repo; "check" = VIOLATION printed by
`VERIF_REPO=<copy> ./check C01 --tier quick --only X`, "pre" = same _check functions over 500 shuffled quick cases in one process):
  DR = _disaggregated_result.py, AM = _annotated_metric_function.py, MF = _metric_frame.py
  DR return temp (no reindex)                                               check  C01:by_group:index
  DR reindex(index=all_indices, fill_value=0)                               check  C01:by_group:empty-not-nan
  DR by_group grouped by sensitive + control (level order)                  pre    C01:by_group:layout
  DR overall grouped by control_feature_names[:1]                           check  C01:overall:layout
  DR reindex only if len(grouping_names) > 2                                pre    C01:by_group:index (1 sensitive x 1 control, empty combination)
  DR groupby on data.iloc[1:] (first row dropped)                           pre    C01:by_group:value, C01:by_group:index
  DR apply_to_dataframe: NaN for groups of a single row                     check  C01:by_group:value
  DR apply_to_dataframe: every name evaluated with the last metric          pre    C01:by_group:value (metric number)
  AM keyword arguments cached from the first call (whole frame)             check  C01:by_group:value (argument sliced differently from y_true)
  AM positional argument sorted descending                                  pre    C01:by_group:value, C01:overall:value, C01:by_group:row-order
  MF all_data[col] = param_value (index-aligned Series)                     check  C01:by_group:value (needs a parameter Series with permuted index)
  MF all_data[sf.name_] = sf.raw_feature_ (index-aligned Series)            check  C01:by_group:value, C01:by_group:empty-not-nan
  MF y_pred Series written index-aligned next to y_true                     check  C01:by_group:value (needs a y_pred Series with permuted index)
  MF col_name = param_name (shared between metrics)                         pre    C01:by_group:value (column of another metric)
  MF _extract_result: "if self.control_levels:"                             check  C01:by_group:layout
  MF metric without own sample_params gets those of the first metric       pre    C01:by_group:value (unexpected keyword parameters)
  MF every control column written from cf_list[0]                           check  C01:by_group:index (needs 2 control features)
  MF dict features: column = df.iloc[:, -1 - i]                             pre    C01:sensitive_levels / C01:control_levels
  MF 2-D ndarray features: col = f_arr[:, 0]                                pre    C01:by_group:index
  MF DataFrame({"y_true": list, "y_pred": Series}) (positions unchanged)    pre    not caught - equivalent (values stay positional)
"""
import itertools

import numpy as np

from .. import speclib as S
from ..report import fingerprint
from . import _mframe as M
from .harness import run_cases

KNOWN_COLLISION = "C01:sample-param-column-name-collision"

# (bare?, [(metric name, [param names])])
LAYOUTS = [
    (True, [("tracer0", [])]),
    (True, [("tracer0", ["pa"])]),
    (True, [("tracer0", ["pa", "pb"])]),
    (False, [("m0", [])]),
    (False, [("m0", ["pa"])]),
    (False, [("m0", ["pa"]), ("m1", [])]),
    (False, [("m0", ["pa", "pb"]), ("m1", ["pa"])]),
    (False, [("m0", []), ("m1", ["w"]), ("m2", ["pb", "pa"])]),
    (False, [("m0", ["pa", "pb"]), ("m1", ["pa", "pb"]), ("m2", ["pb", "pa"])]),
]
COLLISION_LAYOUT = (False, [("a", ["b_c"]), ("a_b", ["c"])])
LABELS = [(7, 3, 5), ("b", "a", "c"), (0, 1, 2), ("x", "z", "y"), (10, 9, 100), ("B", "a", "A")]
SHAPES = [(s, c) for c in (0, 1, 2) for s in (1, 2, 3)]
ERR = {1: "the keyword parameters are not the ones of this metric", 2: "argument is not one-dimensional",
       3: "argument holds the column of another argument/metric", 4: "argument is sliced differently from y_true"}


def seqcode(rows, m):
    return 4 * sum((r + 1) * 16 ** k for k, r in enumerate(rows)) + m


def rows_of(code):
    q, rows = int(code) // 4, []
    while q:
        rows.append(q % 16 - 1)
        q //= 16
    return rows


def decode(code):
    """tracer value -> text"""
    if code != code:
        return "NaN"
    if code < 0:
        pos, kind = divmod(-int(code), 10)
        return f"tracer error: {ERR.get(kind, kind)} (argument #{pos}; 0=y_true, 1=y_pred, 2..=sample params in sorted name order)"
    return f"metric #{int(code) % 4} on rows {rows_of(code)}"


def make_tracer(m, expect, name):
    def tracer(y_true, y_pred, **kw):
        if set(kw) != set(expect):
            return -1
        rows = None
        for pos, (arr, tag) in enumerate([(y_true, 1), (y_pred, 2)] + [(kw[k], expect[k]) for k in sorted(expect)]):
            arr = np.asarray(arr)
            if arr.ndim != 1:
                return -(10 * pos + 2)
            vals = [int(v) for v in arr]
            if any(v >> 4 != tag for v in vals):
                return -(10 * pos + 3)
            r = [v & 15 for v in vals]
            if rows is None:
                rows = r
            elif r != rows:
                return -(10 * pos + 4)
        return seqcode(rows, m)
    tracer.__name__ = name
    return tracer


def column(values, kind, name=None, salt=0):
    if kind == 0:
        return list(values)
    if kind == 1:
        return np.asarray(values)
    if kind == 2:
        return M.shuffled_series(values, name=name, salt=salt)
    import pandas as pd
    return pd.Series(list(values), name=name)


def features(vecs, prefix, kind):
    """feature vectors -> (container, names or None when fairlearn generates them)"""
    import pandas as pd
    names = [f"{prefix}{'ABC'[j]}" for j in range(len(vecs))]
    n = len(vecs[0])
    if len(vecs) == 1 and kind in (0, 1):
        return (list(vecs[0]) if kind == 0 else np.asarray(vecs[0])), None
    if len(vecs) == 1:
        return (M.shuffled_series(vecs[0], name=names[0]) if kind == 2 else pd.Series(list(vecs[0]), name=names[0])), names
    if kind == 0:
        return pd.DataFrame({nm: list(v) for nm, v in zip(names, vecs)}), names
    if kind == 1:
        arr = np.empty((n, len(vecs)), dtype=object)
        for j, v in enumerate(vecs):
            for i in range(n):
                arr[i, j] = v[i]
        return arr, None
    if kind == 2:
        return {nm: list(v) for nm, v in zip(names, vecs)}, names
    df = pd.DataFrame({nm: list(v) for nm, v in zip(names, vecs)})
    df.index = M.shuffled_series(range(n)).index
    return df, names


def build(case):
    """case -> kwargs of MetricFrame + oracle ingredients"""
    kind, n, ns, nc, cols, lab, cont, lay = case
    bare, metrics = COLLISION_LAYOUT if kind == "collision" else LAYOUTS[lay]
    fv = [[LABELS[(lab + j) % len(LABELS)][v] for v in col] for j, col in enumerate(cols)]
    sf, cf = fv[:ns], fv[ns:]
    sfc, sf_names = features(sf, "sf", cont % 4)
    cfc, cf_names = features(cf, "cf", (cont // 4) % 4) if cf else (None, None)
    fns, sp = {}, {}
    for m, (nm, params) in enumerate(metrics):
        expect = {p: 3 + 2 * m + j for j, p in enumerate(params)}
        fns[nm] = make_tracer(m, expect, nm)
        if params or (cont + m) % 2:
            sp[nm] = {p: column([16 * t + i for i in range(n)], (cont + m + t) % 4, salt=t) for p, t in expect.items()}
    kw = dict(metrics=fns[metrics[0][0]] if bare else fns, y_true=column([16 + i for i in range(n)], (cont // 2) % 4),
              y_pred=column([32 + i for i in range(n)], (cont // 3) % 4, salt=1), sensitive_features=sfc)
    if cf:
        kw["control_features"] = cfc
    if bare:
        if sp:
            kw["sample_params"] = sp[metrics[0][0]]
    elif sp or cont % 3 == 0:
        kw["sample_params"] = sp
    return kw, bare, [nm for nm, _ in metrics], sf, cf, sf_names, cf_names


def _check(case):
    import fairlearn.metrics as fm
    kind, n, ns, nc = case[:4]
    kw, bare, names, sf, cf, sf_names, cf_names = build(case)
    groups = S.groups(*(cf + sf))
    strata = S.groups(*cf) if cf else {(): list(range(n))}
    product = S.product_index(*(cf + sf))
    nontrivial = len(groups) >= 2 or len(product) > len(groups)
    fp = fingerprint(case)
    mno = {nm: m for m, nm in enumerate(names)}
    desc = (f"sensitive={sf} control={cf} metrics={'bare ' + names[0] if bare else LAYOUTS[case[7]][1] if kind != 'collision' else COLLISION_LAYOUT[1]} "
            f"containers={case[6]}")

    def viol(which, what, got=None, exp=None):
        key = f"C01:{which}"
        if kind == "collision" and got is not None and got < 0 and -int(got) % 10 == 3:
            key = KNOWN_COLLISION
        return (nontrivial, fp, (key, f"{what}" + (f": got {got!r} = {decode(got)}, expected {exp!r} = {decode(exp)}" if exp is not None else "")
                                 + f" on {desc}", {"case": list(case), "desc": desc, "got": repr(got), "expected": repr(exp)}))
    try:
        mf = fm.MetricFrame(**kw)
        bg, ov, sl, cl = mf.by_group, mf.overall, mf.sensitive_levels, mf.control_levels
    except Exception as ex:
        squeezed = n == 1 and (isinstance(kw["sensitive_features"], np.ndarray) or isinstance(kw.get("control_features"), np.ndarray))
        return viol("MetricFrame:raises:single-row-ndarray-features" if squeezed else "MetricFrame:raises",
                    f"MetricFrame raised {type(ex).__name__}: {str(ex)[:120]}")
    # level names
    if not (isinstance(sl, list) and len(sl) == ns and all(isinstance(x, str) for x in sl)) or (sf_names and sl != sf_names):
        return viol("sensitive_levels", f"sensitive_levels = {sl!r}, expected {sf_names or f'{ns} generated names'}")
    if (cl is not None or nc) and (not (isinstance(cl, list) and len(cl) == nc and all(isinstance(x, str) for x in cl)) or (cf_names and cl != cf_names)):
        return viol("control_levels", f"control_levels = {cl!r}, expected {cf_names or f'{nc} generated names'}")
    cl = cl or []
    if len(set(cl + sl)) != nc + ns:
        return viol("levels:duplicate-names", f"level names {cl + sl} are not distinct")
    # by_group
    try:
        t = M.table(bg, bare, names, cl + sl)
    except M.Layout as ex:
        return viol("by_group:layout", f"by_group: {ex}")
    keys = {k for k, _ in t}
    if keys != set(product):
        return viol("by_group:index", f"by_group index {sorted(keys, key=repr)} is not the product of the observed values {product}")
    for nm in names:
        for k in product:
            got, rows = t[(k, nm)], groups.get(k)
            if rows is None:
                if got == got:
                    return viol("by_group:empty-not-nan", f"by_group[{k}][{nm}] of an empty combination is {got!r}, expected NaN")
            elif got != seqcode(rows, mno[nm]):
                which = "by_group:row-order" if got >= 0 and int(got) % 4 == mno[nm] and sorted(rows_of(got)) == rows else "by_group:value"
                return viol(which, f"by_group[{k}][{nm}]", got, seqcode(rows, mno[nm]))
    # overall
    try:
        t = M.table(ov, bare, names, cl if nc else None)
    except M.Layout as ex:
        return viol("overall:layout", f"overall: {ex}")
    keys = {k for k, _ in t}
    if not set(strata) <= keys:
        return viol("overall:index", f"overall index {sorted(keys, key=repr)} lacks observed control combinations {sorted(strata, key=repr)}")
    for nm in names:
        for k in keys:
            got, rows = t[(k, nm)], strata.get(k)
            if rows is None:
                if got == got:
                    return viol("overall:empty-not-nan", f"overall[{k}][{nm}] of an unobserved control combination is {got!r}, expected NaN")
            elif got != seqcode(rows, mno[nm]):
                return viol("overall:value", f"overall[{k}][{nm}]", got, seqcode(rows, mno[nm]))
    return (nontrivial, fp, None)


def _cases(tier, seed):
    quick = tier == "quick"
    n1, n2, extra = (5, 3, 1500) if quick else (7, 4, 30000)
    one, multi, sampled = [], [], []
    for n in range(1, n1 + 1):
        for i, col in enumerate(itertools.product(range(3), repeat=n)):
            for lay in ([(i * 4 + r) % len(LAYOUTS) for r in range(4)] if quick else range(len(LAYOUTS))):
                one.append(("one", n, 1, 0, (col,), (i + lay) % len(LABELS), (i * 5 + lay * 7 + n) % 48, lay))
    i = 0
    for ns, nc in SHAPES[1:]:
        k = ns + nc
        for n in range(1, (n2 if k < 5 else 3) + 1):
            for rest in itertools.product(range(2), repeat=k * (n - 1)):
                i += 1
                cols = tuple((0,) + tuple(rest[r * k + j] for r in range(n - 1)) for j in range(k))
                multi.append(("multi", n, ns, nc, cols, i % len(LABELS), (i * 11) % 48, (i * 4) % len(LAYOUTS)))
    rng = np.random.default_rng(seed)
    for _ in range(extra):
        ns, nc = SHAPES[int(rng.integers(0, len(SHAPES)))]
        n = int(rng.integers(n2 + 1, 11))
        cols = tuple(tuple(int(x) for x in rng.integers(0, int(rng.integers(1, 4)), n)) for _ in range(ns + nc))
        sampled.append(("sampled", n, ns, nc, cols, int(rng.integers(0, len(LABELS))), int(rng.integers(0, 48)), int(rng.integers(0, len(LAYOUTS)))))
    return (n1, n2, extra), one, multi, sampled


def replay(data):
    return M.replay_case(data, dict.fromkeys(("one", "multi", "sampled", "collision"), _check))


def run_bounded(rep):
    rep.assume("A2", "A7")
    (n1, n2, extra), one, multi, sampled = _cases(rep.tier, rep.seed)
    nt = "non-trivial = at least two groups or an empty combination; distinct by full case"
    run_cases(rep, "metricframe_tracer_one_feature",
              rule=f"every assignment of n<={n1} rows to one sensitive feature with <=3 values x {len(LAYOUTS)} metric layouts (bare/dict of 1-3 tracer "
                   f"metrics, 0-2 sample params each), labels and containers rotating; {nt}",
              bound=f"n <= {n1}, 1 sensitive feature, <= 3 groups", cases=one, check_case=_check, exhaustive=True)
    run_cases(rep, "metricframe_tracer_multi_feature",
              rule=f"every assignment of n<={n2} rows to 1-3 sensitive x 0-2 control binary features (first row = first value of every feature, i.e. up "
                   f"to relabelling), metric layout/labels/containers rotating; {nt}",
              bound=f"n <= {n2}, 2..5 binary features", cases=multi, check_case=_check, exhaustive=False)
    run_cases(rep, "metricframe_tracer_sampled",
              rule=f"{extra} seeded cases: n in {n2 + 1}..10, 1-3 sensitive x 0-2 control features with <=3 values, random layout/labels/containers; {nt}",
              bound="n <= 10, <= 5 features with <= 3 values", cases=sampled, check_case=_check, exhaustive=False)
    run_cases(rep, "metricframe_colname_collision",
              rule="the single input of known finding D12: metrics {'a': {'b_c': w1}, 'a_b': {'c': w2}} (both sample parameters are stored in column 'a_b_c')",
              bound="1 case", cases=[("collision", 3, 1, 0, ((0, 1, 0),), 0, 0, 0)], check_case=_check, exhaustive=True)
