"""Shared scope + first-principles oracles for the ThresholdOptimizer stand-ins (C04, C05, C10a).

Scope: data sets are multisets of rows (group, label, score); every group holds both labels. `datasets_exhaustive` enumerates all of them up
to group symmetry for given group sizes / number of score levels, `datasets_seeded` draws larger ones (up to 5 groups, ties and tie-free).
A case = (rows, cfg, enc): cfg = (constraint, objective, flip, grid_size), enc = (predict_method, sf_encoding, container, perm_seed, junk).
The scorer is a pass-through estimator: column 0 of X is the score.

Oracles (no call into fairlearn): expected confusion matrix of a group under per-row positive probabilities (Fractions), the seven metrics
as ratios of that matrix, the list of all distinct threshold rules of a group (cut above the top score, between two neighbouring distinct
scores, below the bottom score; flipped versions), and the value of the per-group LP  max E[y] s.t. E[x] = x0  over mixtures of those rules
by enumeration of its basic solutions (one rule, or two rules bracketing x0)."""
import itertools
from fractions import Fraction

import numpy as np

SIMPLE = {"selection_rate_parity": "selection_rate", "demographic_parity": "selection_rate", "false_positive_rate_parity": "false_positive_rate",
          "false_negative_rate_parity": "false_negative_rate", "true_positive_rate_parity": "true_positive_rate",
          "true_negative_rate_parity": "true_negative_rate"}
SIMPLE_OBJECTIVES = ["accuracy_score", "balanced_accuracy_score", "selection_rate", "true_positive_rate", "true_negative_rate"]
EO_OBJECTIVES = ["accuracy_score", "balanced_accuracy_score"]
GRID_SIZES = [1, 2, 3, 7, 10, 1000]
CONFIGS = [(c, o, f, g) for c in SIMPLE for o in SIMPLE_OBJECTIVES for f in (False, True) for g in GRID_SIZES] + \
          [("equalized_odds", o, f, g) for o in EO_OBJECTIVES for f in (False, True) for g in GRID_SIZES]

SCORE_MAPS = {3: [(0.0, 0.5, 1.0), (-2.5, 0.1, 7.0), (0.2, 0.3, 0.9)],
              4: [(0.0, 1 / 3, 2 / 3, 1.0), (-2.5, -0.1, 0.1, 7.0), (0.1, 0.2, 0.7, 0.9)],
              5: [(0.0, 0.25, 0.5, 0.75, 1.0), (-3.0, -1.0, 0.0, 0.5, 4.0), (0.05, 0.1, 0.5, 0.6, 0.95)]}
SF_ENC = [(0, 1, 2, 3, 4), ("a", "b", "c", "d", "e"), (7, -1, 3, 0, 12), ("z", "B", "m", "A", "q")]
METHODS = ["predict_proba", "decision_function", "predict", "auto"]
CONTAINERS = ["np", "list", "pd"]


# ------------------------------------------------------------------ pass-through scorers
def scorer(method, out_dtype=None):
    """A fitted-on-demand estimator whose soft output is column 0 of X (predict_proba: columns (1-s, s)).  out_dtype: the numpy dtype in which
    predict / decision_function hand the (integer-valued) scores back, e.g. 'uint8' as a classifier trained on uint8 labels does."""
    from sklearn.base import BaseEstimator

    def cast(v):
        return v if out_dtype is None else v.astype(out_dtype)

    class _Base(BaseEstimator):
        def fit(self, X, y, **kw):
            self.classes_ = np.array([0, 1])
            self.fitted_ = True
            return self

        @staticmethod
        def _s(X):
            return np.asarray(X, dtype=float)[:, 0]

    class Proba(_Base):
        def predict_proba(self, X):
            s = self._s(X)
            return cast(np.c_[1 - s, s])

    class _Decoy(_Base):
        # an estimator usually offers several scoring methods; only the configured one may be consulted, at fit and at predict time
        def predict_proba(self, X):
            s = self._s(X)
            return np.c_[s, 1 - s]

    class Decision(_Decoy):
        def decision_function(self, X):
            return cast(self._s(X))

    class Predict(_Decoy):
        def predict(self, X):
            return cast(self._s(X))
    return {"predict_proba": Proba, "decision_function": Decision, "predict": Predict}[method]()


# ------------------------------------------------------------------ scope
def _profiles(k, levels):
    """all multisets of k rows (label, level) that contain both labels"""
    types = [(y, l) for y in (0, 1) for l in range(levels)]
    return [p for p in itertools.combinations_with_replacement(types, k) if {y for y, _ in p} == {0, 1}]


def datasets_exhaustive(size_tuples, levels):
    """all data sets with the given (sorted) group sizes over `levels` score levels, one representative per relabelling of the groups"""
    out = []
    for sizes in size_tuples:
        assert list(sizes) == sorted(sizes)
        profs = {k: _profiles(k, levels) for k in set(sizes)}
        idx = [range(len(profs[k])) for k in sizes]
        for combo in itertools.product(*idx):
            if any(sizes[i] == sizes[i + 1] and combo[i] > combo[i + 1] for i in range(len(sizes) - 1)):
                continue
            out.append(tuple((g, y, l) for g in range(len(sizes)) for (y, l) in profs[sizes[g]][combo[g]]))
    return out


def datasets_seeded(rng, count, max_groups=5, max_rows=14):
    """larger data sets: 2..max_groups groups, both labels per group, scores either tie-heavy (<= 5 levels) or continuous"""
    out = []
    for _ in range(count):
        G = int(rng.integers(2, max_groups + 1))
        n = int(rng.integers(2 * G, max(2 * G, max_rows) + 1))
        gs = [g for g in range(G) for _ in (0, 1)] + [int(x) for x in rng.integers(0, G, n - 2 * G)]
        ys = [y for _ in range(G) for y in (0, 1)] + [int(x) for x in rng.integers(0, 2, n - 2 * G)]
        mode = int(rng.integers(0, 4))
        if mode == 0:
            sc = [float(x) for x in np.round(rng.random(n), 3)]                       # (almost) tie free in [0, 1]
        elif mode == 1:
            sc = [float(x) for x in np.round(rng.normal(size=n) * 3, 2)]              # reals, any sign
        elif mode == 2:
            sc = [float(x) for x in rng.integers(0, 2, n)]                            # hard 0/1 scores
        else:
            sc = [float(x) / 4 for x in rng.integers(0, 5, n)]                        # 5 levels
        out.append((tuple(zip(gs, ys, sc)), "raw"))
    return out


SCORE_DTYPES = ("uint8", "uint16", "int8", "int32", "float32")


def integer_score_cases(rng, count, per_dataset, n_configs, max_groups=4, max_rows=12):
    """data sets whose scores are the integer levels 0..3 (incl. anti-ranked groups) handed back by predict / decision_function in a narrow or unsigned numpy
    dtype: the fitted rule must not depend on the container dtype of the scores"""
    out = []
    for _ in range(count):
        G = int(rng.integers(2, max_groups + 1))
        n = int(rng.integers(2 * G, max(2 * G, max_rows) + 1))
        gs = [g for g in range(G) for _ in (0, 1)] + [int(x) for x in rng.integers(0, G, n - 2 * G)]
        ys = [y for _ in range(G) for y in (0, 1)] + [int(x) for x in rng.integers(0, 2, n - 2 * G)]
        anti = set(int(g) for g in rng.integers(0, G, 1)) if rng.random() < 0.5 else set()          # groups whose scores rank the negatives first
        sc = [float(int(np.clip((3 * (y if g not in anti else 1 - y)) + int(rng.integers(-2, 3)), 0, 3))) for g, y in zip(gs, ys)]
        rows = tuple(zip(gs, ys, sc))
        for ci in rng.choice(n_configs, size=per_dataset, replace=False):
            enc = (("predict", "decision_function")[int(rng.integers(0, 2))], int(rng.integers(0, len(SF_ENC))), CONTAINERS[int(rng.integers(0, len(CONTAINERS)))],
                   int(rng.integers(0, 1 << 30)), False, SCORE_DTYPES[int(rng.integers(0, len(SCORE_DTYPES)))])
            out.append((rows, int(ci), enc))
    return out


def ulp_score_cases(rng, count, per_dataset, n_configs, max_groups=3, max_rows=12):
    """data sets whose score levels are NEIGHBOURING float32 numbers (0.5, 0.5 + 1 ulp, ...) handed back by the estimator as float32: the thresholds between
    two levels exist in float64 only, so a comparison that rounds the threshold to the scores' dtype puts it onto one of the two levels"""
    lv = [np.float32(0.5)]
    for _ in range(3):
        lv.append(np.nextafter(lv[-1], np.float32(1)))
    lv = [float(x) for x in lv]
    out = []
    for _ in range(count):
        G = int(rng.integers(2, max_groups + 1))
        n = int(rng.integers(2 * G, max(2 * G, max_rows) + 1))
        gs = [g for g in range(G) for _ in (0, 1)] + [int(x) for x in rng.integers(0, G, n - 2 * G)]
        ys = [y for _ in range(G) for y in (0, 1)] + [int(x) for x in rng.integers(0, 2, n - 2 * G)]
        sc = [lv[int(np.clip(3 * y + int(rng.integers(-2, 3)), 0, 3))] for y in ys]
        rows = tuple(zip(gs, ys, sc))
        for ci in rng.choice(n_configs, size=per_dataset, replace=False):
            enc = (("predict", "decision_function", "predict_proba")[int(rng.integers(0, 3))], int(rng.integers(0, len(SF_ENC))),
                   CONTAINERS[int(rng.integers(0, len(CONTAINERS)))], int(rng.integers(0, 1 << 30)), False, "float32")
            out.append((rows, int(ci), enc))
    return out


def random_enc(rng, scores_in_unit=True):
    m = METHODS[int(rng.integers(0, len(METHODS)))]
    return (m, int(rng.integers(0, len(SF_ENC))), CONTAINERS[int(rng.integers(0, len(CONTAINERS)))], int(rng.integers(0, 1 << 30)),
            bool(rng.integers(0, 2)))


def with_scores(rows, levels, map_id):
    """rows (g, y, level) -> rows (g, y, score)"""
    m = SCORE_MAPS[levels][map_id]
    return tuple((g, y, m[l]) for g, y, l in rows)


def materialise(rows, enc):
    """rows (g, y, score) + enc -> X, y, sf (in the requested containers, rows permuted) and the plain lists (groups, labels, scores)"""
    import pandas as pd
    method, sfe, container, perm_seed, junk = enc[:5]
    order = np.random.default_rng(perm_seed).permutation(len(rows))
    rows = [rows[i] for i in order]
    gl = [SF_ENC[sfe][g] for g, _, _ in rows]
    yl = [int(y) for _, y, _ in rows]
    sl = [float(s) for _, _, s in rows]
    X = np.array(sl).reshape(-1, 1)
    if junk:
        X = np.c_[X, np.arange(len(rows)) % 3]
    if container == "np":
        return X, np.array(yl), np.array(gl), gl, yl, sl
    if container == "list":
        return X, list(yl), list(gl), gl, yl, sl
    return pd.DataFrame(X, columns=["score", "junk"][:X.shape[1]]), pd.Series(yl, name="label"), pd.Series(gl, name="sf"), gl, yl, sl


def query_X(scores, enc, like):
    import pandas as pd
    X = np.array([float(s) for s in scores]).reshape(-1, 1)
    if enc[4]:
        X = np.c_[X, (np.arange(len(scores)) * 2 + 1) % 5]
    if enc[2] == "pd":
        return pd.DataFrame(X, columns=["score", "junk"][:X.shape[1]])
    return X


def make_optimizer(cfg, enc):
    from fairlearn.postprocessing import ThresholdOptimizer
    constraint, objective, flip, grid = cfg
    method = enc[0]
    est = scorer("predict_proba" if method == "auto" else method, out_dtype=enc[5] if len(enc) > 5 else None)        # 'auto' resolves to predict_proba when it exists
    prefit = (enc[3] % 2 == 0)
    if prefit:
        est.fit(None, None)
    return ThresholdOptimizer(estimator=est, constraints=constraint, objective=objective, flip=flip, grid_size=grid, prefit=prefit,
                              predict_method=method)


# ------------------------------------------------------------------ oracles
def confusion(ys, ps):
    """expected confusion matrix (Fractions) of rows with labels ys predicted positive with probabilities ps"""
    tp = fp = fn = tn = Fraction(0)
    for y, p in zip(ys, ps):
        p = Fraction(p)
        if y == 1:
            tp += p
            fn += 1 - p
        else:
            fp += p
            tn += 1 - p
    return tp, fp, fn, tn


def metric(name, c):
    tp, fp, fn, tn = c
    n = tp + fp + fn + tn
    if name == "selection_rate":
        return (tp + fp) / n
    if name == "false_positive_rate":
        return fp / (fp + tn)
    if name == "false_negative_rate":
        return fn / (fn + tp)
    if name == "true_positive_rate":
        return tp / (tp + fn)
    if name == "true_negative_rate":
        return tn / (tn + fp)
    if name == "accuracy_score":
        return (tp + tn) / n
    if name == "balanced_accuracy_score":
        return (tp / (tp + fn) + tn / (tn + fp)) / 2
    raise KeyError(name)


def by_group(gl):
    out = {}
    for i, g in enumerate(gl):
        out.setdefault(g, []).append(i)
    return out


def threshold_rules(scores, flip):
    """all distinct behaviours of `score > t` (and `score < t` when flip) on the given scores: list of 0/1 tuples"""
    lv = sorted(set(scores))
    cuts = [float("inf")] + [(a + b) / 2 for a, b in zip(lv[:-1], lv[1:])] + [float("-inf")]
    out = []
    for t in cuts:
        out.append(tuple(1 if s > t else 0 for s in scores))
        if flip:
            out.append(tuple(1 if s < t else 0 for s in scores))
    return out


def rule_points(ys, scores, flip, x_metric, y_metric):
    """(x, y) as floats for every threshold rule of the group"""
    pts = []
    for r in threshold_rules(scores, flip):
        c = confusion(ys, r)
        pts.append((float(metric(x_metric, c)), float(metric(y_metric, c))))
    return pts


def envelope(pts, grid, lower=False):
    """value of  max (min if lower) sum_k w_k y_k  s.t. sum_k w_k x_k = x, w in the simplex  for every x of `grid` (numpy array), by
    enumerating the basic solutions of that LP: a single rule with x_k = x or a pair of rules with x_i <= x <= x_j. -inf where infeasible."""
    sgn = -1.0 if lower else 1.0
    env = np.full(len(grid), -np.inf)
    tol = 1e-12
    for i, (xi, yi) in enumerate(pts):
        env = np.where(np.abs(grid - xi) <= tol, np.maximum(env, sgn * yi), env)
        for (xj, yj) in pts[i + 1:]:
            (xa, ya), (xb, yb) = ((xi, yi), (xj, yj)) if xi <= xj else ((xj, yj), (xi, yi))
            if xb - xa <= tol:
                continue
            val = sgn * (ya + (yb - ya) * (grid - xa) / (xb - xa))
            env = np.where((grid >= xa - tol) & (grid <= xb + tol), np.maximum(env, val), env)
    return sgn * env if lower else env


def pmf_of(model, X, sf):
    """positive probabilities reported by the fitted model, as a list of floats, plus the raw array"""
    raw = model._pmf_predict(X, sensitive_features=sf)
    return [float(v) for v in np.asarray(raw)[:, 1]], np.asarray(raw)


def bad_probability(ps):
    """index of the first entry that is not a probability (NaN or outside [0,1] by more than 1e-9), else None"""
    for i, p in enumerate(ps):
        if not (-1e-9 <= p <= 1 + 1e-9):          # False for NaN
            return i
    return None
