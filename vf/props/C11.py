from ._common import make, make_replay

LEVEL = "other"
run = make("C11")
replay = make_replay("C11")
