from ._common import make, make_replay

LEVEL = "other"
run = make("C17")
replay = make_replay("C17")
