"""A property check = deductive part (vf/deductive/<ID>.py: run_deductive) + bounded stand-in (vf/bounded/<ID>.py: run_bounded)."""
import importlib


def make(pid):
    def run(rep):
        parts = []
        for kind, modname, fn in (("P", f"vf.deductive.{pid}", "run_deductive"), ("X", f"vf.bounded.{pid}", "run_bounded")):
            try:
                mod = importlib.import_module(modname)
            except ModuleNotFoundError as ex:
                if ex.name != modname:
                    raise
                continue
            parts.append(kind)
            if rep.only and kind not in rep.only and not (rep.only - {"P", "X"}):
                continue
            getattr(mod, fn)(rep)
        rep.note("parts run: " + ",".join(parts))
    return run


def make_replay(pid):
    def replay(data):
        import json
        for modname in (f"vf.bounded.{pid}", f"vf.deductive.{pid}"):
            try:
                mod = importlib.import_module(modname)
            except ModuleNotFoundError:
                continue
            if hasattr(mod, "replay"):
                r = mod.replay(data)
                if r is not None:
                    return r
        print(json.dumps(data, indent=1))
        return 0
    return replay
