from ._common import make, make_replay

LEVEL = "other"
run = make("C01")
replay = make_replay("C01")
