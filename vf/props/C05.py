from ._common import make, make_replay

LEVEL = "other"
run = make("C05")
replay = make_replay("C05")
