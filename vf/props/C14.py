from ._common import make, make_replay

LEVEL = "other"
run = make("C14")
replay = make_replay("C14")
