from ._common import make, make_replay

LEVEL = "other"
run = make("C18")
replay = make_replay("C18")
