from ._common import make, make_replay

LEVEL = "other"
run = make("C19")
replay = make_replay("C19")
