from ._common import make, make_replay

LEVEL = "other"
run = make("C08")
replay = make_replay("C08")
