from ._common import make, make_replay

LEVEL = "other"
run = make("C20")
replay = make_replay("C20")
