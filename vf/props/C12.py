from ._common import make, make_replay

LEVEL = "other"
run = make("C12")
replay = make_replay("C12")
