from ._common import make, make_replay

LEVEL = "other"
run = make("C15")
replay = make_replay("C15")
