from ._common import make, make_replay

LEVEL = "other"
run = make("C02")
replay = make_replay("C02")
