from ._common import make, make_replay

LEVEL = "other"
run = make("C06")
replay = make_replay("C06")
