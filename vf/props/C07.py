from ._common import make, make_replay

LEVEL = "other"
run = make("C07")
replay = make_replay("C07")
