from ._common import make, make_replay

LEVEL = "other"
run = make("C04")
replay = make_replay("C04")
