from ._common import make, make_replay

LEVEL = "other"
run = make("C03")
replay = make_replay("C03")
