from ._common import make, make_replay

LEVEL = "other"
run = make("C10")
replay = make_replay("C10")
