from ._common import make, make_replay

LEVEL = "other"
run = make("C16")
replay = make_replay("C16")
