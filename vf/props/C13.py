from ._common import make, make_replay

LEVEL = "proof"
run = make("C13")
replay = make_replay("C13")
