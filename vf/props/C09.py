from ._common import make, make_replay

LEVEL = "other"
run = make("C09")
replay = make_replay("C09")
