"""Index-provenance type-state (C12): no caller-supplied row/column label reaches a label-aligning pandas operation.

Abstract values
  E  label-free (list / ndarray / scalar)           D  pandas object with a default RangeIndex made inside fairlearn
  U  pandas-or-unknown object that may still carry the CALLER's row/column labels
  ?  anything else (estimators, strings, ints ...)
Obligation at every label-sensitive pandas operation of an entry point: no operand is U
  * `x.loc[...]` (label lookup)   * `frame[col] = v` with v a pandas object (aligns v on the index)
  * arithmetic / comparison between two pandas objects   * `a.combine(b, f)`
Everything that erases labels makes an E: np.asarray, np.array, list(...), .values, check_array, np.squeeze, ...
The summary of `_validate_and_reformat_input` (results carry a default index) is the postcondition PROVED by vf/contracts/validation.py;
the other helper summaries are listed as trusted.  The analysis is intra-procedural and flow-insensitive (two passes); what it cannot
classify is '?', which never raises a flag (so it can miss, it cannot false-alarm on label-free code).
"""
import ast

from ..pyvc.core import Source

ERASERS = {"np.asarray", "np.array", "list", "np.squeeze", "np.atleast_1d", "check_array", "_convert_to_ndarray_and_squeeze",
           "np.unique", "np.vstack", "np.linspace", "np.zeros", "np.ones", "np.amin", "np.around", "len", "sum", "int", "float",
           "_get_soft_predictions", "range", "map"}
MAKE_DEFAULT = {"pd.Series", "pd.DataFrame", "pd.DataFrame.from_dict"}      # D if every data argument is E/D, else U
KEEP = {"astype", "copy", "reshape", "squeeze", "transpose", "sum", "abs", "max", "min", "apply", "where", "dropna", "unique",
        "groupby", "size", "mean", "sort_values", "reset_index", "iloc", "T", "dot"}
ERASE_ATTR = {"values", "shape", "size", "ndim", "columns_len"}

ATTR_PROV = {"raw_feature_": "U"}          # GroupFeature.raw_feature_ holds the caller's object as it was passed in

SUMMARIES = {  # helper -> abstract results (tuple aware)
    "_validate_and_reformat_input": ("?", "D", "D", "D"),     # X passthrough, y Series(ndarray), sf Series(ndarray), cf Series(ndarray)
    "_reformat_and_group_data": "D",                          # DataFrame built from .values / lists (checked separately below)
    "_tradeoff_curve": "D", "_interpolate_curve": "D", "_extend_confusion_matrix": "?",
}


def join(a, b):
    if a == b:
        return a
    if "U" in (a, b):
        return "U"
    return "?" if "?" in (a, b) else "D"


class Prov(ast.NodeVisitor):
    def __init__(self, fn, params):
        self.env = dict(params)
        self.flags = []
        self.fn = fn

    def name_of(self, f):
        try:
            return ast.unparse(f)
        except Exception:
            return ""

    def ev(self, e):
        if e is None:
            return "?"
        if isinstance(e, ast.Constant):
            return "E"
        if isinstance(e, ast.Name):
            return self.env.get(e.id, "?")
        if isinstance(e, (ast.List, ast.Tuple, ast.ListComp, ast.Dict, ast.DictComp, ast.GeneratorExp)):
            return "E"
        if isinstance(e, ast.Attribute):
            base = self.ev(e.value)
            if e.attr in ERASE_ATTR:
                return "E"
            if e.attr == "loc":
                if base == "U":
                    self.flags.append((e.lineno, "label lookup .loc on a caller-labelled object", self.name_of(e.value)))
                return base
            if self.name_of(e).startswith("self."):
                return self.env.get(self.name_of(e), "?")
            if e.attr in ("index", "columns"):
                return "U" if base == "U" else "E"          # the labels of a caller object are caller labels; labels of a default-index object are positions
            if e.attr in ATTR_PROV:
                return ATTR_PROV[e.attr]
            return base if e.attr in KEEP else "?"
        if isinstance(e, ast.Subscript):
            base = self.ev(e.value)
            self.ev(e.slice)
            return base if base in ("U", "D") else base
        if isinstance(e, ast.Call):
            fname = self.name_of(e.func)
            args = [self.ev(a) for a in e.args] + [self.ev(k.value) for k in e.keywords]
            if fname in ERASERS:
                return "E"
            if fname == "getattr" and len(e.args) >= 2 and isinstance(e.args[1], ast.Constant) and e.args[1].value in ("index", "columns"):
                return "U" if args and args[0] == "U" else "E"
            if fname in SUMMARIES:
                return SUMMARIES[fname]
            if fname in MAKE_DEFAULT:
                # a dict/list literal of E columns gives D ; a pandas argument keeps its labels
                inner = "E"
                if any(k.arg in ("index", "columns") and self.ev(k.value) == "U" for k in e.keywords):
                    return "U"          # built with the caller's labels
                for a in e.args + [k.value for k in e.keywords]:
                    if isinstance(a, ast.Dict):
                        for v in a.values:
                            inner = join(inner, self.ev(v)) if self.ev(v) in ("U",) else inner
                    else:
                        inner = "U" if self.ev(a) == "U" else inner
                return "D" if inner != "U" else "U"
            if isinstance(e.func, ast.Attribute):
                recv = self.ev(e.func.value)
                if e.func.attr == "combine":
                    other = args[0] if args else "?"
                    if "U" in (recv, other):
                        self.flags.append((e.lineno, "Series.combine aligns on labels", fname))
                    return recv
                if e.func.attr in KEEP:
                    return recv
                if e.func.attr in ("items", "values"):
                    return recv if recv in ("D", "U") else "?"      # the values of a caller-supplied mapping are caller objects (may be labelled Series)
                if e.func.attr in ("keys", "transpose", "idxmax", "itertuples"):
                    return recv if recv in ("D",) else "?"
            return "?"
        if isinstance(e, (ast.BinOp, ast.Compare)):
            ops = [e.left] + ([e.right] if isinstance(e, ast.BinOp) else e.comparators)
            vals = [self.ev(o) for o in ops]
            pandas_ops = [v for v in vals if v in ("U", "D")]
            if len(pandas_ops) >= 2 and "U" in pandas_ops:
                self.flags.append((e.lineno, "binary operation aligns a caller-labelled operand", self.name_of(e)[:60]))
            if "U" in vals and "D" in vals:
                return "U"
            for v in ("U", "D"):
                if v in vals:
                    return v
            return "E" if all(v == "E" for v in vals) else "?"
        if isinstance(e, ast.IfExp):
            return join(self.ev(e.body), self.ev(e.orelse))
        if isinstance(e, ast.Lambda):
            return "?"
        return "?"

    def assign(self, target, val, value_node=None):
        if isinstance(target, ast.Name):
            self.env[target.id] = val
        elif isinstance(target, ast.Attribute) and self.name_of(target).startswith("self."):
            self.env[self.name_of(target)] = val
        elif isinstance(target, ast.Tuple):
            for i, t in enumerate(target.elts):
                self.assign(t, val[i] if isinstance(val, tuple) and i < len(val) else ("U" if val == "U" else "?"))
        elif isinstance(target, ast.Subscript):
            base = self.ev(target.value)
            if base == "F" and val in ("D", "U"):
                self.flags.append((target.lineno, "a pandas object is stored into the dict that pd.DataFrame(...) later aligns by index label", self.name_of(target)))
            if base in ("D", "U") and val in ("D", "U"):
                if val == "U" or base == "U":
                    self.flags.append((target.lineno, "column/cell assignment aligns a pandas value on labels", self.name_of(target)))

    # isinstance narrowing: what a name is known to be inside `if isinstance(name, T):`
    NARROW = {"list": "E", "np.ndarray": "E", "numpy.ndarray": "E", "dict": "E", "tuple": "E"}

    def _narrowing(self, test):
        if isinstance(test, ast.Call) and self.name_of(test.func) == "isinstance" and len(test.args) == 2 and isinstance(test.args[0], ast.Name):
            tn = self.name_of(test.args[1])
            if tn in self.NARROW:
                return test.args[0].id, self.NARROW[tn]
        return None

    def visit_block(self, stmts):
        for st in stmts:
            if isinstance(st, ast.Assign):
                v = self.ev(st.value)
                for t in st.targets:
                    self.assign(t, v)
            elif isinstance(st, ast.AugAssign):
                v = self.ev(ast.BinOp(left=st.target, op=st.op, right=st.value, lineno=st.lineno, col_offset=0))
                self.assign(st.target, v)
            elif isinstance(st, ast.For):
                it = self.ev(st.iter)
                self.assign(st.target, "E" if it in ("E", "D") else "U" if it == "U" else "?")      # elements of a caller object may be caller pandas objects
                self.visit_block(st.body)
                self.visit_block(st.orelse)
            elif isinstance(st, ast.Expr):
                self.ev(st.value)
            elif isinstance(st, ast.If):
                self.ev(st.test)
                nar = self._narrowing(st.test)
                if nar:
                    old = self.env.get(nar[0])
                    self.env[nar[0]] = nar[1]
                    self.visit_block(st.body)
                    self.env[nar[0]] = old
                else:
                    self.visit_block(st.body)
                self.visit_block(st.orelse)
            elif isinstance(st, ast.While):
                self.ev(st.test)
                self.visit_block(st.body)
            elif isinstance(st, ast.Try):
                self.visit_block(st.body)
                for h in st.handlers:
                    self.visit_block(h.body)
                self.visit_block(st.orelse)
                self.visit_block(st.finalbody)
            elif isinstance(st, ast.With):
                self.visit_block(st.body)
            elif isinstance(st, ast.Return) and st.value is not None:
                self.ev(st.value)

    def run(self):
        for _ in range(2):          # two passes: values assigned later in the text reach earlier uses inside loops
            self.flags = []
            self.visit_block(self.fn.body)
        return sorted(set(self.flags))


TARGETS = [
    ("fairlearn/postprocessing/_threshold_optimizer.py", "ThresholdOptimizer.fit", {"X": "U", "y": "U", "sensitive_features": "U"}),
    ("fairlearn/postprocessing/_threshold_optimizer.py", "ThresholdOptimizer._threshold_optimization_for_equalized_odds",
     {"sensitive_features": "D", "labels": "U", "scores": "E"}),
    ("fairlearn/postprocessing/_threshold_optimizer.py", "ThresholdOptimizer._threshold_optimization_for_simple_constraints",
     {"sensitive_features": "D", "labels": "U", "scores": "E"}),
    ("fairlearn/postprocessing/_threshold_optimizer.py", "_reformat_data_into_dict", {"key": "E", "data_dict": "F", "additional_data": "U"}),
    ("fairlearn/postprocessing/_interpolated_thresholder.py", "InterpolatedThresholder._pmf_predict", {"X": "U", "sensitive_features": "U"}),
    ("fairlearn/metrics/_metric_frame.py", "MetricFrame.__init__", {"y_true": "U", "y_pred": "U", "sensitive_features": "U", "control_features": "U", "sample_params": "U"}),
    ("fairlearn/metrics/_metric_frame.py", "MetricFrame._construct_annotated_metric_function", {"sample_params": "U", "all_data": "D", "param_value": "U"}),
    ("fairlearn/reductions/_moments/utility_parity.py", "DemographicParity.load_data", {"X": "U", "y": "U", "sensitive_features": "U", "control_features": "U"}),
    ("fairlearn/reductions/_moments/utility_parity.py", "TruePositiveRateParity.load_data", {"X": "U", "y": "U", "sensitive_features": "U", "control_features": "U"}),
    ("fairlearn/reductions/_moments/utility_parity.py", "FalsePositiveRateParity.load_data", {"X": "U", "y": "U", "sensitive_features": "U", "control_features": "U"}),
    ("fairlearn/reductions/_moments/utility_parity.py", "EqualizedOdds.load_data", {"X": "U", "y": "U", "sensitive_features": "U", "control_features": "U"}),
    ("fairlearn/reductions/_moments/utility_parity.py", "ErrorRateParity.load_data", {"X": "U", "y": "U", "sensitive_features": "U", "control_features": "U"}),
    ("fairlearn/reductions/_moments/utility_parity.py", "UtilityParity.load_data", {"X": "U", "y": "D", "sensitive_features": "D", "event": "D", "utilities": "E"}),
    ("fairlearn/reductions/_moments/moment.py", "Moment.load_data", {"X": "U", "y": "D", "sensitive_features": "D"}),
    ("fairlearn/reductions/_moments/error_rate.py", "ErrorRate.load_data", {"X": "U", "y": "U", "sensitive_features": "U", "control_features": "U"}),
    ("fairlearn/reductions/_moments/error_rate.py", "ErrorRate.gamma", {"predictor": "?", "self.tags": "D"}),
    ("fairlearn/reductions/_moments/bounded_group_loss.py", "ConditionalLossMoment.load_data", {"X": "U", "y": "U", "sensitive_features": "U"}),
    ("fairlearn/utils/_input_validation.py", "_validate_and_reformat_input", {"X": "U", "y": "U", "kwargs": "U"}),
]


def report(rep, label="P", only=None):
    rep.trust("provenance summaries of _reformat_and_group_data / _tradeoff_curve / _interpolate_curve (frames built from .values / lists: default index)")
    for relpath, qualname, params in TARGETS:
        if only and not any(o in relpath for o in only):
            continue
        fnname = f"{relpath}::{qualname}"
        name = f"{qualname}.provenance.no_caller_label_reaches_an_aligning_operation"
        try:
            src = Source.load(relpath)
            fn = src.func(qualname)
            flags = Prov(fn, params).run()
            rep.add_function(relpath, qualname, fn.lineno, src.sha(qualname), role="under contract (index-provenance type-state)")
        except Exception as ex:
            rep.add_obligation(name, fnname, "undecided", "ast-typestate", 0.0, label, detail=repr(ex)[:200])
            continue
        if not flags:
            rep.add_obligation(name, fnname, "discharged", "ast-typestate", 0.0, label)
            continue
        rep.add_obligation(name, fnname, "failed", "ast-typestate", 0.0, label, detail=str(flags)[:300])
        for (line, why, expr) in flags:
            rep.violation(f"{rep.pid}:{qualname}:label-sensitive:{expr[:40]}", f"{qualname} line {line}: {why} [{expr}]",
                          replay={"obligation": name, "function": fnname, "line": line, "reason": why, "expression": expr,
                                  "analysis": "vf/static/provenance.py"}, obligation=name, no_input=True)
