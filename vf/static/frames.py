"""Frame conditions of the estimator life cycle (C19), decided by an effect analysis over the real ASTs (re-read every run).

For an estimator class C with constructor parameters P (read off __init__):
  F1  fit (and the self-methods / helper classes it calls) never assigns self.<p> for p in P
  F2  fit never calls a state-changing method (load_data, fit, partial_fit) on an object held by a constructor parameter, directly
      (self.<p>.m(...)) or through a repo helper class that receives self.<p> and calls m on it
  F3  every attribute fit reads before it has definitely written it in the same call is a constructor parameter (or a method);
      `hasattr(self, 'x')` counts as a read of x
  F4  every return statement of fit returns self
  F5  predict-like methods never assign an attribute of self
  F6  predict-like methods read only constructor parameters and attributes that some fit-like method assigns (no private caches that survive a refit)
The analysis is conservative: writes inside branches/loops are only *possible* writes (they do not license a later read), reads anywhere
count.  A reported effect is a failed obligation; the ones that are genuine, known defects of the tree carry the key of known_findings.json,
any other effect gets its own key (class, condition, attribute) and is a new violation.
"""
import ast

from ..pyvc.core import Source

MUTATORS = {"load_data", "fit", "partial_fit"}
PREDICT_LIKE = ("predict", "_pmf_predict", "predict_proba", "transform", "decision_function")

ESTIMATORS = [
    # (file, class, fit-like methods, helper classes followed: {ctor name: (file, class)})
    ("fairlearn/reductions/_exponentiated_gradient/exponentiated_gradient.py", "ExponentiatedGradient", ("fit",),
     {"_Lagrangian": ("fairlearn/reductions/_exponentiated_gradient/_lagrangian.py", "_Lagrangian")}),
    ("fairlearn/reductions/_grid_search/grid_search.py", "GridSearch", ("fit",), {}),
    ("fairlearn/postprocessing/_threshold_optimizer.py", "ThresholdOptimizer", ("fit",), {}),
    ("fairlearn/postprocessing/_interpolated_thresholder.py", "InterpolatedThresholder", ("fit",), {}),
    ("fairlearn/preprocessing/_correlation_remover.py", "CorrelationRemover", ("fit",), {}),
    ("fairlearn/adversarial/_adversarial_mitigation.py", "_AdversarialFairness", ("fit",), {}),
]

KNOWN_KEYS = {
    ("ExponentiatedGradient", "F1", "nu"): "C19:ExponentiatedGradient.fit:overwrites-param-nu",
    ("ExponentiatedGradient", "F2", "constraints"): "C19:ExponentiatedGradient.refit:data-loaded-assertion",
    ("ExponentiatedGradient", "F2", "objective"): "C19:ExponentiatedGradient.refit:data-loaded-assertion",
    ("GridSearch", "F2", "constraints"): "C19:GridSearch.refit:data-loaded-assertion",
    **{("_AdversarialFairness", "F3", a): "C19:AdversarialFairness.refit:continues-from-trained-weights"
       for a in ("classes_", "_sf_transform", "_y_transform", "backendEngine_", "backend_", "callbacks_")},
    ("CorrelationRemover", "F3", "_n_features_in_"): "C19:CorrelationRemover.refit:rejects-other-width",
}


def _methods(src, cls):
    c = src.classes[cls]
    return {f.name: f for f in c.body if isinstance(f, ast.FunctionDef)}


def _params(init):
    a = init.args
    return [x.arg for x in a.args[1:] + a.kwonlyargs]


def _unmangle(cls, name):
    return name


class Effects:
    def __init__(self):
        self.writes = []          # (attr, line, definite)
        self.reads_before_write = []      # (attr, line)
        self.param_calls = []     # (param attr, method, line, via)
        self.returns = []         # (expr src, line)
        self.definitely_written = set()
        self.alias = {}           # attribute -> constructor-parameter attribute it was bound to by `self.a = self.p` (same object, no copy)


def _self_attr(n):
    return isinstance(n, ast.Attribute) and isinstance(n.value, ast.Name) and n.value.id == "self"


def analyse_method(src, cls, mname, helpers, eff=None, seen=None, top=True, written=None):
    """flow-sensitive must-write analysis: `written` = attributes definitely assigned on every path reaching the current point"""
    ms = _methods(src, cls)
    eff = eff or Effects()
    seen = seen if seen is not None else set()
    written = set() if written is None else written
    if mname in seen or mname not in ms:
        return eff, written
    seen.add(mname)
    fn = ms[mname]

    def is_method(a):
        return a in ms or (a.startswith("__") and not a.endswith("__") and any(k.endswith(a) for k in ms))

    def visit_expr(e, written):
        nodes = sorted([n for n in ast.walk(e) if hasattr(n, "lineno")], key=lambda n: (n.lineno, n.col_offset))
        for n in nodes:
            if _self_attr(n) and isinstance(n.ctx, ast.Load):
                a = n.attr
                if a not in written and not is_method(a) and not (a.startswith("__") and a.endswith("__")):
                    eff.reads_before_write.append((a, n.lineno))
                if a in ms and a not in seen:
                    # a bound method that is only REFERENCED here (e.g. stored in a variable and called later): its effects are possible effects of this call -
                    # reads and parameter calls count, its writes do not license later reads
                    analyse_method(src, cls, a, helpers, eff, seen, top=False, written=set(written))
            if isinstance(n, ast.Call):
                f = n.func
                if isinstance(f, ast.Name) and f.id in ("hasattr", "getattr") and len(n.args) >= 2 and isinstance(n.args[0], ast.Name) \
                        and n.args[0].id == "self" and isinstance(n.args[1], ast.Constant):
                    a = n.args[1].value
                    if a not in written:
                        eff.reads_before_write.append((a, n.lineno))
                if isinstance(f, ast.Attribute):
                    v = f.value
                    if isinstance(v, ast.Name) and v.id == "self":
                        callee = f.attr
                        target = callee if callee in ms else next((k for k in ms if callee.startswith("__") and k == callee), None)
                        if target:
                            _, w2 = analyse_method(src, cls, target, helpers, eff, seen, top=False, written=set(written))
                            written |= w2
                    if _self_attr(v) and f.attr in MUTATORS:
                        eff.param_calls.append((v.attr, f.attr, n.lineno, "direct"))
                        if v.attr in eff.alias:          # the attribute holds the SAME object as a constructor parameter (assigned without clone/copy)
                            eff.param_calls.append((eff.alias[v.attr], f.attr, n.lineno, f"via the alias self.{v.attr} = self.{eff.alias[v.attr]}"))
                if isinstance(f, ast.Name) and f.id in helpers:
                    hfile, hcls = helpers[f.id]
                    hsrc = Source.load(hfile)
                    held = {}
                    for kw in n.keywords:
                        if _self_attr(kw.value):
                            held[kw.arg] = kw.value.attr
                    hinit = _methods(hsrc, hcls).get("__init__")
                    if hinit is not None and held:
                        alias = {}
                        for s2 in ast.walk(hinit):
                            if isinstance(s2, ast.Assign) and _self_attr(s2.targets[0]) and isinstance(s2.value, ast.Name) and s2.value.id in held:
                                alias[s2.targets[0].attr] = s2.value.id
                        for c in ast.walk(hinit):
                            if isinstance(c, ast.Call) and isinstance(c.func, ast.Attribute) and c.func.attr in MUTATORS:
                                r = c.func.value
                                if isinstance(r, ast.Name) and r.id in held:
                                    eff.param_calls.append((held[r.id], c.func.attr, n.lineno, f"via {hcls}.__init__ line {c.lineno}"))
                                if _self_attr(r) and r.attr in alias:
                                    eff.param_calls.append((held[alias[r.attr]], c.func.attr, n.lineno, f"via {hcls}.__init__ line {c.lineno}"))
        return written

    def visit_block(stmts, written):
        """-> (written after the block, terminated: the block never falls through)"""
        for s in stmts:
            if isinstance(s, (ast.FunctionDef, ast.ClassDef)):
                continue
            if isinstance(s, ast.Return):
                if s.value is not None:
                    visit_expr(s.value, written)
                if top:
                    eff.returns.append((ast.unparse(s.value) if s.value is not None else "None", s.lineno))
                return written, True
            if isinstance(s, ast.Raise):
                if s.exc is not None:
                    visit_expr(s.exc, written)
                return written, True
            if isinstance(s, ast.If):
                visit_expr(s.test, written)
                a0 = dict(eff.alias)
                w1, t1 = visit_block(s.body, set(written))
                a1, eff.alias = dict(eff.alias), dict(a0)
                w2, t2 = visit_block(s.orelse, set(written))
                a2 = dict(eff.alias)
                # after the join an alias may hold if either branch made it (possible effect: conservative for F2 reporting of later calls)
                eff.alias = {**a1, **a2} if not (t1 or t2) else (a2 if t1 else a1)
                if t1 and t2:
                    return written, True
                written = w2 if t1 else w1 if t2 else (w1 & w2)
                continue
            if isinstance(s, (ast.While, ast.For)):
                visit_expr(s.test if isinstance(s, ast.While) else s.iter, written)
                visit_block(s.body, set(written))
                visit_block(s.orelse, set(written))
                continue
            if isinstance(s, ast.Try):
                w1, _ = visit_block(s.body, set(written))
                for h in s.handlers:
                    visit_block(h.body, set(written))
                visit_block(s.orelse, set(w1))
                written, _ = visit_block(s.finalbody, written)
                continue
            if isinstance(s, ast.With):
                written, t = visit_block(s.body, written)
                if t:
                    return written, True
                continue
            if isinstance(s, (ast.Assign, ast.AugAssign, ast.AnnAssign)):
                if s.value is not None:
                    visit_expr(s.value, written)
                targets = s.targets if isinstance(s, ast.Assign) else [s.target]
                if isinstance(s, ast.Assign) and len(targets) == 1 and _self_attr(targets[0]):
                    if _self_attr(s.value) and isinstance(s.value.ctx, ast.Load):
                        eff.alias[targets[0].attr] = eff.alias.get(s.value.attr, s.value.attr)      # self.a = self.p: alias (branch-local: dropped at joins below)
                    else:
                        eff.alias.pop(targets[0].attr, None)
                for t in targets:
                    for x in ast.walk(t):
                        if _self_attr(x) and isinstance(x.ctx, ast.Store):
                            if isinstance(s, ast.AugAssign) and x.attr not in written:
                                eff.reads_before_write.append((x.attr, x.lineno))
                            eff.writes.append((x.attr, x.lineno, True))
                            written.add(x.attr)
                        elif isinstance(x, ast.Subscript):
                            visit_expr(x.value, written)
                continue
            visit_expr(s, written)
        return written, False
    written, _ = visit_block(fn.body, written)
    return eff, written


# query methods of the constraint / objective moments: pure functions of the loaded data (gamma keeps a write-only textual description of its last result)
MOMENT_QUERIES = ("gamma", "signed_weights", "bound", "project_lambda")
MOMENTS = [
    ("fairlearn/reductions/_moments/utility_parity.py", "UtilityParity", ("load_data",), {}, MOMENT_QUERIES, {"_gamma_descr"}),
    ("fairlearn/reductions/_moments/error_rate.py", "ErrorRate", ("load_data",), {}, MOMENT_QUERIES, {"_gamma_descr"}),
    ("fairlearn/reductions/_moments/bounded_group_loss.py", "ConditionalLossMoment", ("load_data",), {}, MOMENT_QUERIES, {"_gamma_descr"}),
]


# stored predictors are called many times (objective, constraints, predict): a call is a pure function of its argument
CALLABLES = [("fairlearn/reductions/_exponentiated_gradient/_lagrangian.py", "_PredictorAsCallable", ("__init__",), {}, ("__call__",), set())]


def report(rep, label="P", classes=None, conditions=None, table=None, ignore=()):
    """classes / conditions restrict the report (used by the checks of other properties: e.g. C09 asks for F5/F6 of GridSearch only); keys of violations
    carry the property id of the asking check unless they are one of C19's recorded findings.  `ignore` = {(class, condition, attribute)}: effects that are
    recorded findings of C19 and do not bear on the asking property (they stay reported by C19); every other effect of the condition is still a violation."""
    for entry in (table if table is not None else ESTIMATORS):
        (relpath, cls, fit_methods, helpers), predict_like, write_only = entry[:4], (entry[4] if len(entry) > 4 else PREDICT_LIKE), (entry[5] if len(entry) > 5 else set())
        if classes is not None and cls not in classes:
            continue
        fnbase = f"{relpath}::{cls}"
        try:
            src = Source.load(relpath)
            ms = _methods(src, cls)
            params = _params(ms["__init__"])
        except Exception as ex:
            rep.add_obligation(f"{cls}.frames.<analysis>", fnbase, "undecided", "ast-effects", 0.0, label, detail=repr(ex)[:200])
            continue

        def emit(name, bad, cond, what_of):
            full = f"{cls}.{name}"
            if conditions is not None and cond not in conditions:
                return
            bad = [item for item in bad if (cls, cond, item[0]) not in ignore]
            if not bad:
                rep.add_obligation(full, fnbase, "discharged", "ast-effects", 0.0, label)
                return
            rep.add_obligation(full, fnbase, "failed", "ast-effects", 0.0, label, detail=str(bad)[:300])
            groups = {}
            for item in bad:
                attr = item[0]
                key = (KNOWN_KEYS.get((cls, cond, attr)) if rep.pid == "C19" else None) or f"{rep.pid}:{cls}.{name}:{attr}"
                groups.setdefault(key, []).append(item)
            for key, items in groups.items():
                confirmed, info = None, None
                try:
                    confirmed, info = native_replay(cls, cond)
                except Exception as ex:
                    info = {"replay_error": repr(ex)[:200]}
                rep.violation(key, what_of(items) + (f" - replayed natively: {info}" if confirmed else ""),
                              replay={"obligation": full, "class": cls, "file": relpath, "effects": [list(map(str, i)) for i in items],
                                      "analysis": "vf/static/frames.py", "native": info}, obligation=full, no_input=not confirmed)
        for m in fit_methods:
            if m not in ms:
                continue
            rep.add_function(relpath, f"{cls}.{m}", ms[m].lineno, src.sha(f"{cls}.{m}"), role="under contract (frame conditions, ast-effects)")
            eff, _ = analyse_method(src, cls, m, helpers)
            f1 = sorted({(a, l) for a, l, _ in eff.writes if a in params})
            emit(f"{m}.F1_no_constructor_parameter_is_assigned", f1, "F1",
                 lambda items: f"{cls}.{m} assigns constructor parameter(s) {sorted({i[0] for i in items})} at line(s) {sorted({i[1] for i in items})}")
            f2 = sorted({(a, meth, l, via) for a, meth, l, via in eff.param_calls if a in params})
            emit(f"{m}.F2_parameter_objects_are_not_mutated", f2, "F2",
                 lambda items: f"{cls}.{m} calls {sorted({i[1] for i in items})} on the object held by constructor parameter {sorted({i[0] for i in items})} ({items[0][3]})")
            f3 = sorted({(a, l) for a, l in eff.reads_before_write if a not in params})
            emit(f"{m}.F3_reads_only_parameters_before_writing", f3, "F3",
                 lambda items: f"{cls}.{m} reads state of an earlier call before writing it: {sorted({i[0] for i in items})} (lines {sorted({i[1] for i in items})})")
            f4 = sorted({(r, l) for r, l in eff.returns if r != "self"})
            emit(f"{m}.F4_returns_self", f4, "F4", lambda items: f"{cls}.{m} returns {sorted({i[0] for i in items})} instead of self (lines {sorted({i[1] for i in items})})")
            if not eff.returns:
                emit(f"{m}.F4_has_return_self", [("<no return>", ms[m].lineno)], "F4", lambda items: f"{cls}.{m} has no return statement (returns None)")
        # what a fit may leave behind: every attribute some fit-like method (or a self-method it calls) assigns, plus what sklearn's validate_data sets
        fit_state = {"n_features_in_", "feature_names_in_"}
        for m in list(fit_methods) + ["partial_fit", "_AdversarialFairness__setup", "__setup", "__init__"] + (["load_data"] if table is not None else []):
            if m in ms:
                e2, _ = analyse_method(src, cls, m, helpers)
                fit_state |= {a for a, _, _ in e2.writes}
        class_level = {t.id for st_ in src.classes[cls].body if isinstance(st_, ast.Assign) for t in st_.targets if isinstance(t, ast.Name)}
        for m in predict_like:
            if m not in ms:
                continue
            eff, _ = analyse_method(src, cls, m, helpers)
            eff.writes = [w for w in eff.writes if w[0] not in write_only]
            # F6: prediction reads only constructor parameters and state that fit defines - an attribute that only prediction itself writes (a cache) survives a refit
            f6 = sorted({(a, l) for a, l in eff.reads_before_write if a not in params and a not in fit_state and a not in class_level and a not in ms
                         and not a.startswith("__")})
            emit(f"{m}.F6_prediction_reads_only_parameters_and_state_defined_by_fit", f6, "F6",
                 lambda items: f"{cls}.{m} reads attribute(s) {sorted({i[0] for i in items})} that no fit defines (lines {sorted({i[1] for i in items})}): state of an earlier prediction / fit survives a refit")
            f5 = sorted({(a, l) for a, l, _ in eff.writes})
            emit(f"{m}.F5_prediction_does_not_write_state", f5, "F5",
                 lambda items: f"{cls}.{m} assigns attribute(s) {sorted({i[0] for i in items})} (lines {sorted({i[1] for i in items})})")


# ------------------------------------------------------------------------------------------------ native replays of failed frame obligations
def _factories():
    import numpy as np
    from sklearn.linear_model import LogisticRegression
    from fairlearn.postprocessing import ThresholdOptimizer
    from fairlearn.preprocessing import CorrelationRemover
    from fairlearn.reductions import DemographicParity, ExponentiatedGradient, GridSearch
    rng = np.random.default_rng(0)
    X = rng.normal(size=(40, 3))
    y = (X[:, 0] + rng.normal(scale=0.5, size=40) > 0).astype(int)
    a = rng.integers(0, 2, 40)
    return {
        "ExponentiatedGradient": (lambda: ExponentiatedGradient(LogisticRegression(), DemographicParity(), max_iter=5), lambda e: e.fit(X, y, sensitive_features=a)),
        "GridSearch": (lambda: GridSearch(LogisticRegression(), DemographicParity(), grid_size=4), lambda e: e.fit(X, y, sensitive_features=a)),
        "ThresholdOptimizer": (lambda: ThresholdOptimizer(estimator=LogisticRegression(), constraints="demographic_parity", predict_method="predict_proba"),
                               lambda e: e.fit(X, y, sensitive_features=a)),
        "CorrelationRemover": (lambda: CorrelationRemover(sensitive_feature_ids=[0]), lambda e: e.fit(X)),
    }


def native_replay(cls, cond):
    """-> (confirmed: bool, info) for F1 (constructor parameters unchanged by fit) and F4 (fit returns the estimator)"""
    fac = _factories().get(cls)
    if fac is None or cond not in ("F1", "F4"):
        return None, None
    make, fit = fac
    est = make()
    before = {k: (id(v), repr(v)[:80]) for k, v in est.get_params(deep=False).items()}
    out = fit(est)
    if cond == "F4":
        return out is not est, {"class": cls, "fit_returned": repr(out)[:80]}
    after = {k: (id(v), repr(v)[:80]) for k, v in est.get_params(deep=False).items()}
    changed = {k: (before[k][1], after[k][1]) for k in before if before[k] != after[k]}
    return bool(changed), {"class": cls, "changed_constructor_parameters": changed}
