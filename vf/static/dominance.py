"""Call-site conformance: every data entry point passes the caller's labels / sensitive / control features through the shared validator
`_validate_and_reformat_input` before using them ("validator dominance", C20; "same key function at fit and predict", C13).

This is a syntactic dataflow analysis over the real AST (re-read from /repo on every run).  Obligations per entry point F:
  has_validator_call      F contains a top-level statement  <targets> = _validate_and_reformat_input(...)
  passes_<param>          the keyword/positional argument for <param> is exactly F's own parameter <param>
  binary_labels_enforced  enforce_binary_labels=True (classification entry points)
  raw_<param>_not_used    no read of the raw parameter <param> outside the validator call, unless the name was re-bound to the validated value
  validated_sf_is_used    the validated sensitive-feature value is read afterwards (it is what the grouping is computed from)
The analysis is conservative: anything it cannot classify is reported undecided, never a violation.
"""
import ast

from ..pyvc.core import Source

VALIDATOR = "_validate_and_reformat_input"


def _reads(node, name):
    return [n for n in ast.walk(node) if isinstance(n, ast.Name) and n.id == name and isinstance(n.ctx, ast.Load)]


def analyse(relpath, qualname, raw_params, enforce_binary=None, allow_raw=()):
    """-> list of (obligation name, ok: bool|None, detail)"""
    src = Source.load(relpath)
    fn = src.func(qualname)
    out = []
    params = {a.arg for a in fn.args.args + fn.args.kwonlyargs}
    call_stmt, call, idx = None, None, None
    for i, s in enumerate(fn.body):
        if isinstance(s, ast.Assign) and isinstance(s.value, ast.Call) and ast.unparse(s.value.func) == VALIDATOR:
            call_stmt, call, idx = s, s.value, i
            break
    out.append(("has_validator_call", call is not None, "top-level assignment from _validate_and_reformat_input"))
    if call is None:
        return out
    kw = {k.arg: k.value for k in call.keywords if k.arg}
    pos = list(call.args)
    bound = {"X": pos[0] if pos else kw.get("X"), "y": pos[1] if len(pos) > 1 else kw.get("y")}
    for p in raw_params:
        if p not in params:
            out.append((f"passes_{p}", None, f"{qualname} has no parameter {p}"))
            continue
        arg = bound.get(p) if p in ("X", "y") else kw.get(p)
        ok = isinstance(arg, ast.Name) and arg.id == p
        out.append((f"passes_{p}", ok, f"argument is `{ast.unparse(arg) if arg is not None else None}`"))
    if enforce_binary is not None:
        v = kw.get("enforce_binary_labels")
        got = isinstance(v, ast.Constant) and v.value is True
        out.append(("binary_labels_enforced" if enforce_binary else "binary_labels_not_required", got == enforce_binary,
                    f"enforce_binary_labels={ast.unparse(v) if v is not None else 'default False'}"))
    # which names does the assignment bind?
    tgt = call_stmt.targets[0]
    tnames = [t.id if isinstance(t, ast.Name) else None for t in (tgt.elts if isinstance(tgt, (ast.Tuple, ast.List)) else [tgt])]
    out.append(("unpacks_four_results", len(tnames) == 4, f"targets {tnames}"))
    if len(tnames) != 4:
        return out
    validated = {"y": tnames[1], "sensitive_features": tnames[2], "control_features": tnames[3]}
    before, after = fn.body[:idx], fn.body[idx + 1:]
    for p in raw_params:
        if p == "X" or p not in params or p in allow_raw:
            continue
        rebound = validated.get(p) == p
        bad = []
        for s in before:
            for r in _reads(s, p):
                parent_ok = _is_none_test(s, r)
                if not parent_ok:
                    bad.append(r.lineno)
        if not rebound:
            for s in after:
                bad += [r.lineno for r in _reads(s, p)]
        out.append((f"raw_{p}_not_used", not bad, f"raw reads at lines {sorted(set(bad))}" if bad else "only the validator sees the raw value"))
    vsf = validated.get("sensitive_features")
    if "sensitive_features" in raw_params:
        used = vsf not in (None, "_") and any(_reads(s, vsf) for s in after)
        out.append(("validated_sf_is_used", bool(used), f"validated sensitive features bound to `{vsf}`"))
    return out


def _is_none_test(stmt, name_node):
    for n in ast.walk(stmt):
        if isinstance(n, ast.Compare) and name_node in ast.walk(n) and any(isinstance(o, (ast.Is, ast.IsNot)) for o in n.ops):
            return True
    return False


def report(rep, relpath, qualname, raw_params, enforce_binary=None, allow_raw=(), label="P"):
    fnname = f"{relpath}::{qualname}"
    try:
        res = analyse(relpath, qualname, raw_params, enforce_binary, allow_raw)
        src = Source.load(relpath)
        rep.add_function(relpath, qualname, src.func(qualname).lineno, src.sha(qualname), role="under contract (call-site conformance, ast-dataflow)")
    except Exception as ex:
        rep.add_obligation(f"{qualname}.dominance.<analysis>", fnname, "undecided", "ast-dataflow", 0.0, label, detail=repr(ex)[:200])
        return
    for name, ok, detail in res:
        full = f"{qualname}.dominance.{name}"
        if ok is None:
            rep.add_obligation(full, fnname, "undecided", "ast-dataflow", 0.0, label, detail=detail)
        elif ok:
            rep.add_obligation(full, fnname, "discharged", "ast-dataflow", 0.0, label)
        else:
            rep.add_obligation(full, fnname, "failed", "ast-dataflow", 0.0, label, detail=detail)
            rep.violation(f"{rep.pid}:{full}", f"call-site conformance obligation {full} fails: {detail}",
                          replay={"obligation": full, "function": fnname, "detail": detail, "analysis": "vf/static/dominance.py"},
                          obligation=full, no_input=True)


ENTRY_POINTS = [
    # (file, qualname, raw params, enforce_binary, allow_raw)
    ("fairlearn/reductions/_moments/utility_parity.py", "DemographicParity.load_data", ("X", "y", "sensitive_features", "control_features"), True, ()),
    ("fairlearn/reductions/_moments/utility_parity.py", "TruePositiveRateParity.load_data", ("X", "y", "sensitive_features", "control_features"), True, ()),
    ("fairlearn/reductions/_moments/utility_parity.py", "FalsePositiveRateParity.load_data", ("X", "y", "sensitive_features", "control_features"), True, ()),
    ("fairlearn/reductions/_moments/utility_parity.py", "EqualizedOdds.load_data", ("X", "y", "sensitive_features", "control_features"), True, ()),
    ("fairlearn/reductions/_moments/utility_parity.py", "ErrorRateParity.load_data", ("X", "y", "sensitive_features", "control_features"), True, ()),
    ("fairlearn/reductions/_moments/error_rate.py", "ErrorRate.load_data", ("X", "y", "sensitive_features", "control_features"), True, ()),
    ("fairlearn/reductions/_moments/bounded_group_loss.py", "ConditionalLossMoment.load_data", ("X", "y", "sensitive_features"), False, ()),
    ("fairlearn/postprocessing/_threshold_optimizer.py", "ThresholdOptimizer.fit", ("X", "y", "sensitive_features"), True, ("y",)),
    ("fairlearn/postprocessing/_interpolated_thresholder.py", "InterpolatedThresholder._pmf_predict", ("X", "sensitive_features"), False, ()),
]
