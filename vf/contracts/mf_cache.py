"""Contracts of the MetricFrame result cache (C02): the code between the public aggregates and DisaggregatedResult.

The public methods group_min / group_max / difference / ratio (and the properties overall / by_group) only READ MetricFrame._result_cache; the
cache is WRITTEN once by _populate_results.  The property ('aggregates are the documented functions of by_group and overall') therefore needs,
besides the contracts of DisaggregatedResult.apply_grouping / difference / ratio (vf/contracts/aggregates.py), that each cache cell holds the
value of the right callee with the right arguments and that each reader returns the cell of its own arguments:

PopulateResults  MetricFrame._populate_results(raw):  for every e in {raise, coerce}, m in {between_groups, to_overall}
                     cache[overall]            = _extract_result(raw.overall,  no_control_levels=False)
                     cache[by_group]           = _extract_result(raw.by_group, no_control_levels=True)
                     cache[group_min|max][e]   = _group(raw, min|max, e)                                         or the exception that call raised
                     cache[difference|ratio][m][e] = _extract_result(_none_to_nan(raw.difference|ratio(control_levels, method=m, errors=e)), False)
                                                                                                                  or the exception the callee raised
                 and nothing else is written.  Every callee may raise or return independently (one symbolic decision per call: all 2^12
                 combinations are explored), so 'an error in one cell is cached in THAT cell and does not disturb the others' is part of the contract.
GroupHelper      MetricFrame._group(d, f, e) = _extract_result(d.apply_grouping(f, control_levels, errors=e), no_control_levels=False);
                 an exception of apply_grouping propagates.
CacheReader      group_min(e) / group_max(e) / difference(m, e) / ratio(m, e): an argument outside the documented sets raises ValueError;
                 otherwise the cell [kind][m][e] is returned, or raised when it holds an exception.  overall / by_group return their cell.
                 The cache is not modified by any reader.

Callee values are opaque terms compared structurally (term(...)); no arithmetic is involved, the obligations are decided by the executor's
path enumeration (back end 'pyvc-structural') and listed like every other obligation.
"""
import ast

import z3
from z3 import BoolVal

from ..pyvc.core import Abstract, Contract, EngineError, Exc, Obj, PyDict, PyRaise

MF = "fairlearn/metrics/_metric_frame.py"
ERRS = ("raise", "coerce")
METHODS = ("between_groups", "to_overall")


def term(*key):
    return Abstract("term", key=tuple(key))


def key_of(v):
    """structural key of a cache cell: a callee term, or the exception a callee raised"""
    if isinstance(v, Abstract) and v.tag == "term":
        return v.key
    if isinstance(v, Exc) and v.typ == "CalleeRaised":
        return ("raised",) + tuple(v.args)
    return ("?", repr(v))


def default_of(fn, name):
    """the default value of parameter `name` as written in the real signature (a literal)"""
    a = fn.args
    pos = a.posonlyargs + a.args
    for arg, d in zip(pos[len(pos) - len(a.defaults):], a.defaults):
        if arg.arg == name:
            return ast.literal_eval(d)
    for arg, d in zip(a.kwonlyargs, a.kw_defaults):
        if arg.arg == name and d is not None:
            return ast.literal_eval(d)
    raise KeyError(name)


class _MFBase(Contract):
    source = MF

    def may_raise(self, eng, st, key):
        """the callee identified by `key` either raises (an exception that names it) or returns: one symbolic decision per call"""
        if eng.decide(z3.Bool("raises<" + ",".join(map(str, key)) + ">"), st):
            raise PyRaise(Exc("CalleeRaised", key))

    def on_attr(self, eng, st, node, base, attr):
        if isinstance(base, Obj) and base.cls == "MetricFrame" and attr == "control_levels":
            return self.cl
        if base is self.raw and attr in ("overall", "by_group"):
            return term("raw", attr)
        return NotImplemented

    def on_call(self, eng, st, node, name, recv, args, kwargs):
        if name == "isinstance" and len(args) == 2 and isinstance(args[0], (Exc, Abstract)):
            return isinstance(args[0], Exc) and any(n in ("Exception", "BaseException") for n in args[1])
        is_self = isinstance(recv, Obj) and recv.cls == "MetricFrame"
        if is_self and name == "_extract_result":
            a = list(args) + [kwargs[k] for k in ("underlying_result", "no_control_levels") if k in kwargs]
            if len(a) != 2 or not isinstance(a[1], bool):
                return NotImplemented
            return term("extract", key_of(a[0]), a[1])
        if is_self and name == "_none_to_nan" and len(args) == 1:
            return term("none_to_nan", key_of(args[0]))
        if is_self and name == "_group":
            a = list(args) + [kwargs[k] for k in ("disagg_result", "grouping_function", "errors") if k in kwargs]
            if len(a) == 2:
                a.append("raise")
            k = ("group", "raw" if a[0] is self.raw else "?", a[1], a[2])
            self.may_raise(eng, st, k)
            return term(*k)
        if recv is self.raw and name in ("difference", "ratio", "apply_grouping"):
            order = ("grouping_function", "control_feature_names", "errors") if name == "apply_grouping" else ("control_feature_names", "method", "errors")
            default = {"errors": "raise" if name == "apply_grouping" else "coerce", "method": "between_groups"}
            a = dict(zip(order, args))
            a.update(kwargs)
            for k_, d_ in default.items():
                if k_ in order:
                    a.setdefault(k_, d_)
            if set(a) != set(order):
                return NotImplemented
            k = (name,) + tuple("control_levels" if a[o] is self.cl else a[o] for o in order)
            self.may_raise(eng, st, k)
            return term(*k)
        return NotImplemented


class PopulateResults(_MFBase):
    """verified in two consecutive parts of the real body (2^4 and 2^8 raise/return combinations instead of 2^12 paths):
         head     every statement up to and including the first top-level `for` (overall, by_group, group_min, group_max), from an empty cache;
         compare  the remaining statements (the difference / ratio loop), from a cache whose other four entries hold ARBITRARY (marker) content,
                  which must be left untouched.
       The head has no exit other than falling through, so the two parts compose sequentially: the compare part is proved for every state
       the head can leave behind.  Nothing is dropped: the two parts partition fn.body (checked below)."""
    function = "MetricFrame._populate_results"

    def __init__(self, part):
        self.part = part
        self.variant = f"[{part} part]"

    def body(self, fn):
        fors = [i for i, s_ in enumerate(fn.body) if isinstance(s_, ast.For)]
        if len(fors) != 2 or any(isinstance(s_, (ast.Return, ast.Raise)) for s_ in fn.body):
            raise EngineError("MetricFrame._populate_results no longer has the shape 'assignments; group loop; compare loop': the two-part contract must be re-derived")
        cut = fors[0] + 1
        return fn.body[:cut] if self.part == "head" else fn.body[cut:]

    def params(self, eng, st):
        self.raw, self.cl = Abstract("disagg", name="raw_result"), Abstract("control_levels")
        cache = PyDict()
        if self.part == "compare":
            cache = PyDict({"overall": term("left", "overall"), "by_group": term("left", "by_group"),
                            "group_min": PyDict({e: term("left", "group_min", e) for e in ERRS}), "group_max": PyDict({e: term("left", "group_max", e) for e in ERRS})})
        st.env.update({"self": Obj("MetricFrame", {"_result_cache": cache}), "raw_result": self.raw})

    @staticmethod
    def want():
        w = {"overall": ("extract", ("raw", "overall"), False), "by_group": ("extract", ("raw", "by_group"), True)}
        for k, f in (("group_min", "min"), ("group_max", "max")):
            w[k] = {e: ("group", "raw", f, e) for e in ERRS}
        for c in ("difference", "ratio"):
            w[c] = {m: {e: ("extract", ("none_to_nan", (c, "control_levels", m, e)), False) for e in ERRS} for m in METHODS}
        return w

    def post(self, eng, st, status, value):
        if status != "return":
            return [("never_raises_callee_errors_are_cached", BoolVal(False))]
        cache = st.env["self"].fields.get("_result_cache")
        if not isinstance(cache, PyDict):
            return [("the_cache_is_a_dictionary", BoolVal(False))]
        raised = {str(c) for c, val in st.decisions if val}

        def cell_ok(got, want, callee):
            """the cell holds the documented term - or, exactly when the callee of that cell raised on this path, that exception"""
            flag = "raises<" + ",".join(map(str, callee)) + ">"
            if flag in raised:
                return key_of(got) == ("raised",) + tuple(callee)
            return key_of(got) == want
        want = self.want()
        head_keys = ("overall", "by_group", "group_min", "group_max")
        if self.part == "head":
            out = [("cache_keys_after_the_first_part_are_overall_by_group_group_min_group_max", BoolVal(set(cache.d.keys()) == set(head_keys))),
                   ("overall_is_the_extracted_overall_of_the_result", BoolVal(key_of(cache.d.get("overall")) == want["overall"])),
                   ("by_group_is_the_extracted_by_group_of_the_result", BoolVal(key_of(cache.d.get("by_group")) == want["by_group"]))]
            for k in ("group_min", "group_max"):
                sub = cache.d.get(k)
                ok = isinstance(sub, PyDict) and set(sub.d.keys()) == set(ERRS)
                out.append((f"{k}_has_one_cell_per_errors_value", BoolVal(ok)))
                for e in ERRS:
                    out.append((f"{k}[{e}]_is_the_{want[k][e][2]}_grouping_with_errors_{e}_or_its_exception",
                                BoolVal(bool(ok and cell_ok(sub.d[e], want[k][e], want[k][e])))))
            return out
        left = all(key_of(cache.d.get(k)) == ("left", k) for k in ("overall", "by_group")) and all(
            isinstance(cache.d.get(k), PyDict) and {e: key_of(v) for e, v in cache.d[k].d.items()} == {e: ("left", k, e) for e in ERRS} for k in ("group_min", "group_max"))
        out = [("cache_keys_are_overall_by_group_group_min_group_max_difference_ratio", BoolVal(set(cache.d.keys()) == set(want))),
               ("the_cells_of_the_first_part_are_left_untouched", BoolVal(bool(left)))]
        for c in ("difference", "ratio"):
            sub = cache.d.get(c)
            ok = isinstance(sub, PyDict) and set(sub.d.keys()) == set(METHODS) and all(isinstance(x, PyDict) and set(x.d.keys()) == set(ERRS) for x in sub.d.values())
            out.append((f"{c}_has_one_cell_per_method_and_errors_value", BoolVal(bool(ok))))
            for m in METHODS:
                for e in ERRS:
                    out.append((f"{c}[{m}][{e}]_is_the_extracted_{c}_of_the_result_for_that_method_and_errors_over_the_control_levels_or_its_exception",
                                BoolVal(bool(ok and cell_ok(sub.d[m].d[e], want[c][m][e], (c, "control_levels", m, e))))))
        return out


class GroupHelper(_MFBase):
    function = "MetricFrame._group"

    def __init__(self, fn, errors):
        self.fn, self.errors = fn, errors
        self.variant = f"[{fn},{errors}]"

    def params(self, eng, st):
        self.raw, self.cl = Abstract("disagg", name="disagg_result"), Abstract("control_levels")
        st.env.update({"self": Obj("MetricFrame", {"_result_cache": PyDict()}), "disagg_result": self.raw, "grouping_function": self.fn})
        st.env["errors"] = self.errors if self.errors is not None else default_of(eng.fn, "errors")          # omitted argument: the default of the real signature

    def post(self, eng, st, status, value):
        e = self.errors if self.errors is not None else "raise"          # documented default of the grouping helpers
        callee = ("apply_grouping", self.fn, "control_levels", e)
        if status == "raise":
            return [("raises_only_what_apply_grouping_raised", BoolVal(key_of(value) == ("raised",) + callee))]
        return [("returns_the_extracted_grouping_of_the_given_function_and_errors_over_the_control_levels",
                 BoolVal(key_of(value) == ("extract", callee, False)))]


class CacheReader(_MFBase):
    """one concrete (method, errors) argument pair and one kind of cell content per variant; every cell of the cache holds a distinct marker"""

    def __init__(self, kind, method, errors, cell_is_exception):
        self.kind, self.method, self.errors, self.exc = kind, method, errors, cell_is_exception
        self.function = "MetricFrame." + kind
        self.variant = f"[method={method},errors={errors},cell={'exception' if cell_is_exception else 'value'}]"

    def marker(self, *path):
        return Exc("CalleeRaised", ("cell",) + path) if self.exc else term("cell", *path)

    def params(self, eng, st):
        self.raw, self.cl = Abstract("disagg"), Abstract("control_levels")
        cache = {"overall": self.marker("overall"), "by_group": self.marker("by_group")}
        for k in ("group_min", "group_max"):
            cache[k] = PyDict({e: self.marker(k, e) for e in ERRS})
        for c in ("difference", "ratio"):
            cache[c] = PyDict({m: PyDict({e: self.marker(c, m, e) for e in ERRS}) for m in METHODS})
        self.before = {k: (key_of(v) if not isinstance(v, PyDict) else None) for k, v in cache.items()}
        st.env.update({"self": Obj("MetricFrame", {"_result_cache": PyDict(cache)})})
        if self.kind in ("difference", "ratio"):
            st.env["method"] = self.method if self.method is not None else default_of(eng.fn, "method")          # omitted argument: the real default
        if self.kind not in ("overall", "by_group"):
            st.env["errors"] = self.errors if self.errors is not None else default_of(eng.fn, "errors")

    def flat(self, cache):
        out = {}

        def walk(d, path):
            for k, v in d.d.items():
                if isinstance(v, PyDict):
                    walk(v, path + (k,))
                else:
                    out[path + (k,)] = key_of(v)
        walk(cache, ())
        return out

    def post(self, eng, st, status, value):
        cache = st.env["self"].fields["_result_cache"]
        untouched = ("the_cache_is_not_modified", BoolVal(self.flat(cache) == {p: (("raised", "cell") + p if self.exc else ("cell",) + p) for p in self.flat(cache)}
                                                          and len(self.flat(cache)) == 14))
        if self.kind in ("overall", "by_group"):
            return [untouched, ("returns_its_own_cell", BoolVal(status == "return" and key_of(value) == key_of(self.marker(self.kind))))]
        method = self.method if self.method is not None else "between_groups"
        errors = self.errors if self.errors is not None else ("raise" if self.kind in ("group_min", "group_max") else "coerce")
        valid = errors in ERRS and (self.kind in ("group_min", "group_max") or method in METHODS)
        if not valid:
            return [untouched, ("an_undocumented_argument_raises_ValueError", BoolVal(status == "raise" and isinstance(value, Exc) and value.typ == "ValueError"))]
        path = (self.kind, errors) if self.kind in ("group_min", "group_max") else (self.kind, method, errors)
        if self.exc:
            return [untouched, ("a_cached_exception_is_raised_from_the_cell_of_the_given_arguments", BoolVal(status == "raise" and key_of(value) == key_of(self.marker(*path))))]
        return [untouched, ("returns_the_cell_of_the_given_arguments", BoolVal(status == "return" and key_of(value) == key_of(self.marker(*path))))]


def items(verify):
    """(contract, canaries) for vf/deductive/C02.py; every canary is a change of the real source text that must make an obligation fail"""
    out = [(PopulateResults("head"), [("group_max_cached_as_the_minimum", verify.replace_expr("{'group_min': 'min', 'group_max': 'max'}", "{'group_min': 'min', 'group_max': 'min'}"))]),
           (PopulateResults("compare"), [("difference_cached_for_the_default_method_only", verify.replace_expr("raw_result.difference(self.control_levels, method=c_m, errors=err_string)",
                                                                                                               "raw_result.difference(self.control_levels, errors=err_string)"))])]
    for f in ("min", "max"):
        for e in ("raise", "coerce", None):
            out.append((GroupHelper(f, e), [("control_levels_dropped", verify.replace_expr("self.control_levels", "None"))] if (f, e) == ("min", "coerce") else []))
    for exc in (False, True):
        for kind in ("group_min", "group_max"):
            for e in ("raise", "coerce", "bogus", None):
                can = []
                if (kind, e, exc) == ("group_min", "coerce", False):
                    can = [("reads_the_group_max_cell", verify.replace_expr("self._result_cache['group_min'][errors]", "self._result_cache['group_max'][errors]"))]
                out.append((CacheReader(kind, None, e, exc), can))
        for kind in ("difference", "ratio"):
            for m in METHODS + ("bogus", None):
                for e in ("raise", "coerce", "bogus", None):
                    can = []
                    if (kind, m, e, exc) == ("ratio", "to_overall", "raise", False):
                        can = [("reads_the_difference_cell", verify.replace_expr("self._result_cache['ratio'][method][errors]", "self._result_cache['difference'][method][errors]"))]
                    out.append((CacheReader(kind, m, e, exc), can))
    out.append((CacheReader("overall", None, None, False), []))
    out.append((CacheReader("by_group", None, None, False), [("by_group_returns_overall", verify.replace_expr("self._result_cache['by_group']", "self._result_cache['overall']"))]))
    return out


class CIReader(_MFBase):
    """The bootstrap readers overall_ci / by_group_ci / group_min_ci() / group_max_ci() / difference_ci(method) / ratio_ci(method) (C18: 'shaped like the
    estimates' needs each reader to hand out the interval list computed for ITS estimate): _check_bootstrap_initialized() is consulted (its ValueError
    propagates), an undocumented `method` raises ValueError, otherwise the cell [kind] / [kind][method] is returned; the cache is not modified.
    Every cell of the cache - point estimates and intervals - holds a distinct marker."""

    def __init__(self, kind, method=None):
        self.kind, self.method = kind, method
        self.function = "MetricFrame." + kind
        self.variant = f"[method={method}]" if kind in ("difference_ci", "ratio_ci") else ""

    def params(self, eng, st):
        self.raw, self.cl = Abstract("disagg"), Abstract("control_levels")
        cache = {"overall": term("cell", "overall"), "by_group": term("cell", "by_group")}
        for k in ("group_min", "group_max"):
            cache[k] = PyDict({e: term("cell", k, e) for e in ERRS})
        for c in ("difference", "ratio"):
            cache[c] = PyDict({m: PyDict({e: term("cell", c, m, e) for e in ERRS}) for m in METHODS})
        for k in ("overall_ci", "by_group_ci", "group_min_ci", "group_max_ci"):
            cache[k] = term("cell", k)
        for c in ("difference_ci", "ratio_ci"):
            cache[c] = PyDict({m: term("cell", c, m) for m in METHODS})
        st.env.update({"self": Obj("MetricFrame", {"_result_cache": PyDict(cache)})})
        if self.kind in ("difference_ci", "ratio_ci"):
            st.env["method"] = self.method if self.method is not None else default_of(eng.fn, "method")

    def on_call(self, eng, st, node, name, recv, args, kwargs):
        if isinstance(recv, Obj) and recv.cls == "MetricFrame" and name == "_check_bootstrap_initialized" and not args and not kwargs:
            st.ghost["consulted"] = True
            self.may_raise(eng, st, ("_check_bootstrap_initialized",))
            return None
        return super().on_call(eng, st, node, name, recv, args, kwargs)

    def post(self, eng, st, status, value):
        flat = CacheReader.flat(self, st.env["self"].fields["_result_cache"])
        untouched = ("the_cache_is_not_modified", BoolVal(len(flat) == 22 and all(v == ("cell",) + p for p, v in flat.items())))
        method = self.method if self.method is not None else "between_groups"
        if self.kind in ("difference_ci", "ratio_ci") and method not in METHODS:
            return [untouched, ("an_undocumented_method_raises_ValueError", BoolVal(status == "raise" and isinstance(value, Exc) and value.typ == "ValueError"))]
        not_init = any(str(c) == "raises<_check_bootstrap_initialized>" and val for c, val in st.decisions)
        if not_init:
            return [untouched, ("without_bootstrap_results_the_error_of_the_guard_is_raised", BoolVal(status == "raise" and key_of(value) == ("raised", "_check_bootstrap_initialized")))]
        path = (self.kind, method) if self.kind in ("difference_ci", "ratio_ci") else (self.kind,)
        return [untouched, ("the_bootstrap_guard_is_consulted", BoolVal(bool(st.ghost.get("consulted")))),
                ("returns_the_interval_list_of_its_own_estimate", BoolVal(status == "return" and key_of(value) == ("cell",) + path))]


def ci_items(verify):
    out = []
    for kind in ("overall_ci", "by_group_ci", "group_min_ci", "group_max_ci"):
        can = [("group_min_ci_hands_out_the_group_max_intervals", verify.replace_expr("self._result_cache['group_min_ci']", "self._result_cache['group_max_ci']"))] if kind == "group_min_ci" else []
        out.append((CIReader(kind), can))
    for kind in ("difference_ci", "ratio_ci"):
        for m in METHODS + ("bogus", None):
            can = [("ratio_ci_hands_out_the_other_method", verify.replace_expr("self._result_cache['ratio_ci'][method]", "self._result_cache['ratio_ci']['between_groups']"))] if (kind, m) == ("ratio_ci", "to_overall") else []
            out.append((CIReader(kind, m), can))
    out.append((PopulateResultsCI(), [("ratio_intervals_from_the_difference_samples", verify.replace_expr("c_t == 'difference_ci'", "True")),
                                      ("by_group_intervals_extracted_like_overall", verify.replace_const(True, False, 0))]))
    out.append((GroupCI("min"), [("grouping_over_all_rows_instead_of_per_control_level", verify.replace_expr("self.control_levels", "None"))]))
    out.append((GroupCI("max"), []))
    return out


class _CIBase(_MFBase):
    """list comprehensions over the (arbitrarily long) list of bootstrap results / over a quantile list are evaluated ONCE on a generic element and
    recorded as map(<element term>, <list term>): the obligations then hold for every number of resamples and quantiles."""

    def setup(self, st, extra=None):
        self.raw = Abstract("disagg", name="generic bootstrap result")          # the generic element of bootstrap_samples
        self.cl = Abstract("control_levels")
        self.samples, self.q = term("bootstrap_samples"), term("ci_quantiles")
        env = {"self": Obj("MetricFrame", {"_result_cache": PyDict()}), "bootstrap_samples": self.samples, "ci_quantiles": self.q}
        env.update(extra or {})
        st.env.update(env)

    def on_call(self, eng, st, node, name, recv, args, kwargs):
        if name == "$listcomp" and isinstance(recv, Abstract) and recv.tag == "term":
            comp = args[0]
            g = comp.generators[0]
            if g.ifs or not isinstance(g.target, ast.Name):
                return NotImplemented
            elem = self.raw if recv is self.samples else term("element_of", recv.key)
            saved = st.env.get(g.target.id, NotImplemented)
            st.env[g.target.id] = elem
            v = eng.ev(comp.elt, st)
            if saved is NotImplemented:
                del st.env[g.target.id]
            else:
                st.env[g.target.id] = saved
            return term("map", key_of(v), recv.key)
        if name.split(".")[-1] == "calculate_pandas_quantiles":
            a = dict(zip(("quantiles", "bootstrap_samples"), args))
            a.update(kwargs)
            if set(a) != {"quantiles", "bootstrap_samples"}:
                return NotImplemented
            return term("quantiles", key_of(a["quantiles"]), key_of(a["bootstrap_samples"]))
        if isinstance(recv, Obj) and recv.cls == "MetricFrame" and name == "_group_ci":
            a = dict(zip(("bootstrap_samples", "ci_quantiles", "grouping_function"), args))
            a.update(kwargs)
            if set(a) != {"bootstrap_samples", "ci_quantiles", "grouping_function"}:
                return NotImplemented
            return term("group_ci", key_of(a["bootstrap_samples"]), key_of(a["ci_quantiles"]), a["grouping_function"])
        return super().on_call(eng, st, node, name, recv, args, kwargs)

    def may_raise(self, eng, st, key):
        return None          # no handler in the bootstrap paths: an exception of a callee simply propagates (errors='raise' is the documented behaviour)

    @staticmethod
    def intervals(of, ncl):
        """[extract(x, ncl) for x in quantiles(ci_quantiles, of)]"""
        qs = ("quantiles", ("ci_quantiles",), of)
        return ("map", ("extract", ("element_of", qs), ncl), qs)


class PopulateResultsCI(_CIBase):
    function = "MetricFrame._populate_results_ci"

    def params(self, eng, st):
        self.setup(st)

    def post(self, eng, st, status, value):
        if status != "return":
            return [("returns", BoolVal(False))]
        cache = st.env["self"].fields["_result_cache"]
        S = ("bootstrap_samples",)
        want = {"overall_ci": self.intervals(("map", ("raw", "overall"), S), False), "by_group_ci": self.intervals(("map", ("raw", "by_group"), S), True),
                "group_min_ci": ("group_ci", S, ("ci_quantiles",), "min"), "group_max_ci": ("group_ci", S, ("ci_quantiles",), "max")}
        out = [("cache_gains_exactly_the_six_interval_entries", BoolVal(set(cache.d.keys()) == set(want) | {"difference_ci", "ratio_ci"}))]
        for k, w in want.items():
            out.append((f"{k}_is_the_interval_list_of_its_own_estimate_over_all_resamples", BoolVal(key_of(cache.d.get(k)) == w)))
        for c in ("difference", "ratio"):
            sub = cache.d.get(c + "_ci")
            ok = isinstance(sub, PyDict) and set(sub.d.keys()) == set(METHODS)
            out.append((f"{c}_ci_has_one_cell_per_method", BoolVal(ok)))
            for m in METHODS:
                w = self.intervals(("map", ("none_to_nan", ("element_of", ("map", (c, "control_levels", m, "raise"), S))), ("map", (c, "control_levels", m, "raise"), S)), False)
                out.append((f"{c}_ci[{m}]_is_the_interval_list_of_the_{c}_for_that_method_over_the_control_levels_of_every_resample", BoolVal(bool(ok and key_of(sub.d[m]) == w))))
        return out


class GroupCI(_CIBase):
    function = "MetricFrame._group_ci"

    def __init__(self, fn):
        self.fn = fn
        self.variant = f"[{fn}]"

    def params(self, eng, st):
        self.setup(st, {"grouping_function": self.fn})

    def post(self, eng, st, status, value):
        S = ("bootstrap_samples",)
        w = self.intervals(("map", ("apply_grouping", self.fn, "control_levels", "raise"), S), False)
        return [("returns_the_interval_list_of_the_given_grouping_over_the_control_levels_of_every_resample", BoolVal(status == "return" and key_of(value) == w))]
