"""Caller contracts of the named fairness metrics (C03) against the callee contracts of MetricFrame (C01), its aggregates (C02) and the
base rates (C14): the right base metric, the right aggregate, the caller's `method` and the caller's `sample_weight` (under the key
`sample_weight`, for both rates of equalized odds) reach the callee; equalized odds combines by max/min (worst_case) or mean and rejects other `agg`."""
import z3
from z3 import BoolVal, String

from ..pyvc.core import Abstract, Closure, Contract, PyDict, Unsupported

FM = "fairlearn/metrics/_fairness_metrics.py"
SPEC = {  # function -> (base metrics, aggregate, combiner for worst_case)
    "demographic_parity_difference": (["selection_rate"], "difference", None),
    "demographic_parity_ratio": (["selection_rate"], "ratio", None),
    "equal_opportunity_difference": (["true_positive_rate"], "difference", None),
    "equal_opportunity_ratio": (["true_positive_rate"], "ratio", None),
    "equalized_odds_difference": (["true_positive_rate", "false_positive_rate"], "difference", "max"),
    "equalized_odds_ratio": (["true_positive_rate", "false_positive_rate"], "ratio", "min"),
}


def fname_of(v):
    if isinstance(v, Closure):
        return getattr(v.node, "name", None)
    if isinstance(v, Abstract) and v.tag == "libfunc":
        return v.name.split(".")[-1]
    return None


class NamedMetric(Contract):
    source = FM

    def __init__(self, function, agg=None):
        self.function, self.agg = function, agg
        self.variant = f"[agg={agg}]" if agg is not None else ""

    def params(self, eng, st):
        self.args = {k: Abstract("arg", name=k) for k in ("y_true", "y_pred", "sensitive_features", "sample_weight", "method")}
        st.env.update(self.args)
        if SPEC[self.function][2]:
            st.env["agg"] = self.agg
        self.mf, self.aggcall, self.combine = None, None, None

    def on_call(self, eng, st, node, name, recv, args, kwargs):
        if name == "MetricFrame":
            self.mf = dict(kwargs)
            return Abstract("mf")
        if isinstance(recv, Abstract) and recv.tag == "mf" and name in ("difference", "ratio", "group_min", "group_max"):
            self.aggcall = (name, dict(kwargs), list(args))
            return Abstract("aggregate")
        if name in ("max", "min") and len(args) == 1 and isinstance(args[0], Abstract) and args[0].tag == "aggregate":
            self.combine = name
            return Abstract("scalar")
        if name == "mean" and isinstance(recv, Abstract) and recv.tag == "aggregate":
            self.combine = "mean"
            return Abstract("scalar")
        if name == "str" and isinstance(args[0], str):
            return args[0]
        return NotImplemented

    def post(self, eng, st, status, value):
        metrics, aggname, worst = SPEC[self.function]
        valid = worst is None or self.agg in ("worst_case", "mean")
        if status == "raise":
            return [("raises_only_for_an_unknown_agg", BoolVal(not valid)), ("raises_ValueError", BoolVal(value.typ == "ValueError"))]
        if self.mf is None or self.aggcall is None:
            return [("builds_a_MetricFrame_and_aggregates_it", BoolVal(False))]
        m, sp = self.mf.get("metrics"), self.mf.get("sample_params")
        if len(metrics) == 1:
            right_metric = fname_of(m) == metrics[0]
            sw_ok = isinstance(sp, PyDict) and list(sp.d.keys()) == ["sample_weight"] and sp.d["sample_weight"] is self.args["sample_weight"]
        else:
            right_metric = isinstance(m, PyDict) and sorted(fname_of(v) for v in m.d.values()) == sorted(metrics) and len(m.d) == 2
            sw_ok = isinstance(sp, PyDict) and isinstance(m, PyDict) and set(sp.d.keys()) == set(m.d.keys()) and all(
                isinstance(v, PyDict) and list(v.d.keys()) == ["sample_weight"] and v.d["sample_weight"] is self.args["sample_weight"] for v in sp.d.values())
        out = [("returns_only_for_a_known_agg", BoolVal(valid)),
               ("base_metric_is_" + "_and_".join(metrics), BoolVal(bool(right_metric))),
               ("data_arguments_forwarded", BoolVal(all(self.mf.get(k) is self.args[k] for k in ("y_true", "y_pred", "sensitive_features")))),
               ("callers_weights_under_key_sample_weight_for_every_rate", BoolVal(bool(sw_ok))),
               ("aggregate_is_" + aggname, BoolVal(self.aggcall[0] == aggname)),
               ("callers_method_forwarded", BoolVal(self.aggcall[1].get("method") is self.args["method"] and not self.aggcall[2]))]
        if worst is None:
            out.append(("returns_the_aggregate", BoolVal(isinstance(value, Abstract) and value.tag == "aggregate")))
        else:
            want = worst if self.agg == "worst_case" else "mean"
            out.append((f"combines_the_two_disparities_by_{want}", BoolVal(self.combine == want and isinstance(value, Abstract) and value.tag == "scalar")))
        return out


class GeneratedMetricsTable(Contract):
    """The module-level generation loop of fairlearn/metrics/_generated_metrics.py, executed symbolically (finite table, unrolled):
    every listed (base metric, transform) pair yields exactly one entry  '<base>_<transform>' -> make_derived_metric(metric=base, transform=transform,
    sample_param_names=['sample_weight'])  and nothing else; the function's __name__ is its key."""
    source, function = "fairlearn/metrics/_generated_metrics.py", "<module>"

    def params(self, eng, st):
        pass

    def on_attr(self, eng, st, node, base, attr):
        if attr == "__name__":
            nm = fname_of(base)
            if nm:
                return nm
        return NotImplemented

    def on_call(self, eng, st, node, name, recv, args, kwargs):
        if name == "make_derived_metric":
            return Abstract("derived", metric=fname_of(kwargs.get("metric")), transform=kwargs.get("transform"),
                            spn=list(kwargs["sample_param_names"].items) if hasattr(kwargs.get("sample_param_names"), "items") else None, name=None)
        return NotImplemented

    def on_store_attr(self, eng, st, node, base, attr, value):
        if isinstance(base, Abstract) and base.tag == "derived" and attr == "__name__":
            base.name = value
            return True
        return NotImplemented

    def post(self, eng, st, status, value):
        spec = st.env.get("METRICS_SPEC")
        table = st.env.get("_generated_metric_dict")
        from ..pyvc.core import PyDict, PyList
        if not (isinstance(spec, PyList) and isinstance(table, PyDict)):
            return [("table_is_built", BoolVal(False))]
        want = {}
        for entry in spec.items:
            base, variants = entry
            for v in variants.items:
                want[f"{fname_of(base)}_{v}"] = (fname_of(base), v)
        ok_keys = list(table.d.keys()) == list(want.keys())
        ok_vals = ok_keys and all(isinstance(f, Abstract) and f.tag == "derived" and (f.metric, f.transform) == want[k] and f.spn == ["sample_weight"] and f.name == k
                                  for k, f in table.d.items())
        return [("one_entry_per_listed_base_metric_and_transform", BoolVal(ok_keys)), ("every_entry_is_the_derived_metric_of_its_base_and_transform", BoolVal(bool(ok_vals))),
                ("all_transforms_are_known", BoolVal(all(v[1] in ("difference", "ratio", "group_min", "group_max") for v in want.values())))]
