"""Contracts of the loss moments (C06 'BoundedGroupLoss.gamma is the per-group mean clipped loss', C07 loss-moment weights) and of ErrorRate.signed_weights.

SquareLoss.eval / AbsoluteLoss.eval (point-wise): (clip(y) - clip(p))^2 resp. |clip(y) - clip(p)| with clip to [min_val, max_val]; the value lies in [0, max].
ConditionalLossMoment.signed_weights(lambda): w_i = lambda[g_i] / P(g_i)  (1 when lambda is None) - so lambda.gamma(h) = (1/n) sum_i w_i loss_i(h) (lemma in C07).
ErrorRate.signed_weights: w_i = -c_fp + (c_fp + c_fn) * y_i, times lambda['all'] when a multiplier is given.
"""
import z3
from z3 import And, BoolVal, Function, If, Implies, Int, IntSort, Real, RealSort

from ..pyvc.core import Abstract, Closure, Obj, Unsupported, is_z3, to_real
from .ndmodel import GI, Nd, NdContract, in_range, is_nd

BGL = "fairlearn/reductions/_moments/bounded_group_loss.py"
ER = "fairlearn/reductions/_moments/error_rate.py"
n = Int("n_rows")
Y, P = Function("y_true", IntSort(), RealSort()), Function("y_pred", IntSort(), RealSort())
GRP = Function("group_of_row", IntSort(), IntSort())
LAM, PA = Function("lambda_of_group", IntSort(), RealSort()), Function("prob_of_group", IntSort(), RealSort())
# positions: the moment's group index stores label LAB(p) at position p (POS is its inverse); the caller's multiplier Series stores label CLAB(p) at position p -
# in general ANOTHER order (a reversed Series, a dict with other key order, a user-supplied grid column)
POS, LAB, CLAB = Function("position_in_moment_index", IntSort(), IntSort()), Function("label_at_moment_position", IntSort(), IntSort()), Function("label_at_callers_position", IntSort(), IntSort())


def clip(x, lo, hi):
    return If(x < lo, lo, If(x > hi, hi, x))


class LossEval(NdContract):
    source = BGL

    def __init__(self, cls):
        self.cls = cls
        self.function = f"{cls}.eval"

    def params(self, eng, st):
        self.lo, self.hi = Real("min_val"), Real("max_val")
        st.assume(self.lo <= self.hi, n >= 1)
        # the object as its __init__ builds it: min/max are the bounds of the LOSS (0 and (max_val-min_val)^2 resp. |max_val-min_val|), not of the values
        mx = (self.hi - self.lo) * (self.hi - self.lo) if self.cls == "SquareLoss" else self.hi - self.lo
        st.env.update({"self": Obj(self.cls, {"min_val": self.lo, "max_val": self.hi, "min": z3.RealVal(0), "max": mx}),
                       "y_true": Nd("y_true", (n,), "series", "DEFAULT", cell=lambda i: Y(i)), "y_pred": Nd("y_pred", (n,), "series", "DEFAULT", cell=lambda i: P(i))})

    def on_call(self, eng, st, node, name, recv, args, kwargs):
        if name == "numpy.clip" and is_nd(args[0]) and args[0].cell and len(args) == 3:
            c, lo, hi = args[0].cell, to_real(args[1]), to_real(args[2])
            return self._derive(args[0], name=f"clip({args[0].name})", cell=lambda i: clip(to_real(c(i)), lo, hi))
        if name == "numpy.abs" and is_nd(args[0]) and args[0].cell:
            c = args[0].cell
            return self._derive(args[0], cell=lambda i: If(to_real(c(i)) >= 0, to_real(c(i)), -to_real(c(i))))
        return super().on_call(eng, st, node, name, recv, args, kwargs)

    def on_binop(self, eng, st, node, op, a, b):
        if op == "Pow" and is_nd(a) and a.cell and b == 2:
            c = a.cell
            return self._derive(a, cell=lambda i: to_real(c(i)) * to_real(c(i)))
        return super().on_binop(eng, st, node, op, a, b)

    def post(self, eng, st, status, value):
        if status != "return" or not (is_nd(value) and value.cell):
            return [("returns_the_loss_per_row", BoolVal(False))]
        d = clip(Y(GI), self.lo, self.hi) - clip(P(GI), self.lo, self.hi)
        want = d * d if self.cls == "SquareLoss" else If(d >= 0, d, -d)
        mx = (self.hi - self.lo) * (self.hi - self.lo) if self.cls == "SquareLoss" else self.hi - self.lo
        v = to_real(value.cell(GI))
        rng = in_range((n,), (GI,))
        return [("loss_of_the_clipped_label_and_prediction", Implies(rng, v == want)), ("loss_within_its_documented_range", Implies(rng, And(v >= 0, v <= mx)))]


class LossSignedWeights(NdContract):
    source, function = BGL, "ConditionalLossMoment.signed_weights"

    def __init__(self, lam_given):
        self.lam_given = lam_given
        self.variant = "[lambda given]" if lam_given else "[lambda None]"

    def params(self, eng, st):
        st.assume(n >= 1)
        self.idx = Abstract("group_index")
        G = Int("n_groups")
        g0 = GRP(GI)          # facts about the index of the moment, instantiated at the group of the generic row (keeps the VCs quantifier free)
        st.assume(0 <= POS(g0), POS(g0) < G, LAB(POS(g0)) == g0)
        st.env.update({"self": Obj("ConditionalLossMoment", {"index": self.idx, "tags": Abstract("tags"),
                                                             "prob_attr": Nd("prob_attr", (G,), "series", "DEFAULT", cell=lambda g: PA(g), by_group=True, order="moment")}),
                       "lambda_vec": Nd("lambda_vec", (G,), "series", "USER", cell=lambda g: LAM(g), by_group=True, order="caller") if self.lam_given else None})

    def positional(self, v):
        """label-free copy of a group-indexed Series: entry p belongs to the label stored at position p of THAT Series"""
        lab = LAB if getattr(v, "order", None) == "moment" else CLAB
        c = v.cell
        return Nd(f"values({v.name})", v.shape, "ndarray", "ERASED", cell=lambda p: c(lab(p)), positional=True)

    def on_attr(self, eng, st, node, base, attr):
        if is_nd(base) and getattr(base, "by_group", False) and attr == "values":
            return self.positional(base)
        if isinstance(base, Abstract) and base.tag == "tags" and attr == "index":
            return Abstract("row_index")
        return super().on_attr(eng, st, node, base, attr)

    def on_binop(self, eng, st, node, op, a, b):
        if op == "Div" and is_nd(a) and is_nd(b) and getattr(a, "positional", False) and getattr(b, "positional", False):
            return Nd("adjust", a.shape, "ndarray", "ERASED", cell=lambda p: a.cell(p) / b.cell(p), positional=True)          # element-wise BY POSITION
        if op == "Div" and is_nd(a) and is_nd(b) and getattr(a, "by_group", False) and getattr(b, "by_group", False):
            # both Series are indexed by the group values of the moment (lambda's index IS the constraint index): label alignment = group-wise
            return Nd("adjust", a.shape, "series", "DEFAULT", cell=lambda g: a.cell(g) / b.cell(g), by_group=True)
        return super().on_binop(eng, st, node, op, a, b)

    def on_call(self, eng, st, node, name, recv, args, kwargs):
        if name == "pandas.Series" and args and args[0] == 1.0 and kwargs.get("index") is self.idx:
            return Nd("ones_by_group", (Int("n_groups"),), "series", "DEFAULT", cell=lambda g: z3.RealVal(1), by_group=True, order="moment")
        if name in ("numpy.asarray", "numpy.array") and args and is_nd(args[0]) and getattr(args[0], "by_group", False):
            return self.positional(args[0])
        if name == "to_numpy" and is_nd(recv) and getattr(recv, "by_group", False):
            return self.positional(recv)
        if name == "reindex" and is_nd(recv) and getattr(recv, "by_group", False) and args and args[0] is self.idx:
            return self._derive(recv, order="moment", prov="DEFAULT")          # label-aligned re-ordering into the moment's own order
        if name == "len" and args and args[0] is self.idx:
            return Int("n_groups")
        if name == "get_indexer" and recv is self.idx and args and is_nd(args[0]) and getattr(args[0], "is_group_column", False):
            return Nd("position_of_the_rows_group", (n,), "ndarray", "ERASED", cell=lambda i: POS(GRP(i)))
        if name == "pandas.Series" and args and is_nd(args[0]) and len(args[0].shape) == 1 and isinstance(kwargs.get("index"), Abstract) and kwargs["index"].tag == "row_index":
            return self._derive(args[0], kind="series", prov="DEFAULT")
        if name == "apply" and isinstance(recv, Abstract) and recv.tag == "tags" and kwargs.get("axis") == 1 and args and isinstance(args[0], Closure):
            clo = args[0]
            return Nd("weights", (n,), "series", "DEFAULT", cell=lambda i: eng.summarize_closure(clo, [Abstract("row", i=i)], st))
        return super().on_call(eng, st, node, name, recv, args, kwargs)

    def on_subscript(self, eng, st, node, base, index):
        if isinstance(base, Abstract) and base.tag == "row" and index == "group_id":
            return GRP(base.i)
        if isinstance(base, Abstract) and base.tag == "tags" and index == "group_id":
            return Nd("group_of_row", (n,), "series", "DEFAULT", cell=lambda i: GRP(i), is_group_column=True)
        if is_nd(base) and getattr(base, "by_group", False) and is_z3(index) and not is_nd(index):
            return base.cell(index)
        return super().on_subscript(eng, st, node, base, index)

    def post(self, eng, st, status, value):
        if status != "return" or not (is_nd(value) and value.cell):
            return [("returns_one_weight_per_row", BoolVal(False))]
        want = LAM(GRP(GI)) / PA(GRP(GI)) if self.lam_given else z3.RealVal(1)
        return [("weight_is_the_groups_multiplier_over_the_groups_probability", Implies(in_range((n,), (GI,)), to_real(value.cell(GI)) == want))]


class ErrorRateSignedWeights(NdContract):
    source, function = ER, "ErrorRate.signed_weights"

    def __init__(self, lam_given):
        self.lam_given = lam_given
        self.variant = "[lambda given]" if lam_given else "[lambda None]"

    def params(self, eng, st):
        self.cfp, self.cfn, self.l = Real("fp_cost"), Real("fn_cost"), Real("lambda_all")
        st.env.update({"self": Obj("ErrorRate", {"fp_cost": self.cfp, "fn_cost": self.cfn, "tags": Abstract("tags")}),
                       "lambda_vec": Abstract("lam") if self.lam_given else None})

    def on_subscript(self, eng, st, node, base, index):
        if isinstance(base, Abstract) and base.tag == "tags" and index == "label":
            return Nd("labels", (n,), "series", "DEFAULT", cell=lambda i: Y(i))
        if isinstance(base, Abstract) and base.tag == "lam" and index == "all":
            return self.l
        return super().on_subscript(eng, st, node, base, index)

    def post(self, eng, st, status, value):
        if status != "return" or not (is_nd(value) and value.cell):
            return [("returns_one_weight_per_row", BoolVal(False))]
        w = -self.cfp + (self.cfp + self.cfn) * Y(GI)
        return [("weight_is_minus_fp_cost_plus_total_cost_times_label", Implies(in_range((n,), (GI,)), to_real(value.cell(GI)) == (self.l * w if self.lam_given else w)))]
