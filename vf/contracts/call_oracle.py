"""Contract of _Lagrangian._call_oracle (C07): the learner is trained on the data relabelled and reweighted for lambda.

Point-wise (generic row gi): w = objective.signed_weights()[gi] + constraints.signed_weights(lambda)[gi];
classification moments: label 1[w > 0]; regression: the moment's own y; weight n*|w|/sum|w| (a positive rescaling of |w|); X unchanged
(constraints.X); a constant classifier with the single relabelled value is used iff all relabelled values coincide.
"""
import z3
from z3 import And, Bool, BoolVal, Function, If, Implies, Int, IntSort, RealSort

from ..pyvc.core import Abstract, Obj, Unsupported, fresh, is_z3, to_real
from .ndmodel import GI, Nd, NdContract, in_range, is_nd

LG = "fairlearn/reductions/_exponentiated_gradient/_lagrangian.py"
n = Int("n_rows")
WC, WO = Function("constraint_weights", IntSort(), RealSort()), Function("objective_weights", IntSort(), RealSort())
SUMABS = z3.Real("sum_abs_weights")


class CallOracle(NdContract):
    source, function = LG, "_Lagrangian._call_oracle"
    check_pointwise_division = False

    def droppable(self, s):
        import ast
        src = ast.unparse(s)
        return isinstance(s, (ast.Assign, ast.Expr, ast.AugAssign)) and any(t in src for t in ("oracle_call_start_time", "oracle_execution_times", "n_oracle_calls"))

    def params(self, eng, st):
        self.is_clf = Bool("constraints_is_a_classification_moment")
        st.assume(n >= 1, SUMABS > 0)
        self.cons, self.obj, self.lam, self.est, self.X = Abstract("constraints"), Abstract("objective"), Abstract("lambda_vec"), Abstract("base_estimator"), Abstract("X")
        st.env.update({"self": Obj("_Lagrangian", {"obj": self.obj, "constraints": self.cons, "estimator": self.est, "sample_weight_name": "sample_weight",
                                                   "n_oracle_calls": Int("c1"), "n_oracle_calls_dummy_returned": Int("c2"), "oracle_execution_times": Abstract("times")}),
                       "lambda_vec": self.lam})

    def on_attr(self, eng, st, node, base, attr):
        if base is self.cons and attr == "_y_as_series":
            return Nd("moment_y", (n,), "series", "DEFAULT", cell=lambda r: Function("moment_y", IntSort(), RealSort())(r), moment_y=True)
        if base is self.cons and attr == "total_samples":
            return n
        if base is self.cons and attr == "X":
            return self.X
        return super().on_attr(eng, st, node, base, attr)

    def on_call(self, eng, st, node, name, recv, args, kwargs):
        if name == "signed_weights" and recv is self.obj and not args:
            return Nd("objective_weights", (n,), "series", "DEFAULT", cell=lambda r: WO(r))
        if name == "signed_weights" and recv is self.cons:
            eng.oblige(st, "constraint_weights_for_the_given_lambda", BoolVal(bool(args) and args[0] is self.lam), "wiring", node)
            return Nd("constraint_weights", (n,), "series", "DEFAULT", cell=lambda r: WC(r))
        if name == "isinstance" and args[0] is self.cons:
            return self.is_clf
        if name == "abs" and is_nd(recv) and recv.cell:
            c = recv.cell
            return self._derive(recv, name=f"|{recv.name}|", cell=lambda r: If(to_real(c(r)) >= 0, to_real(c(r)), -to_real(c(r))), is_abs_of=recv)
        if name == "sum" and is_nd(recv) and getattr(recv, "is_abs_of", None) is not None:
            return Nd("sum|w|", (), "ndarray", "ERASED", cell=lambda: SUMABS)
        if name == "numpy.unique" and is_nd(args[0]):
            return Abstract("unique", of=args[0], count=fresh("n_unique"))
        if name == "len" and isinstance(args[0], Abstract) and args[0].tag == "unique":
            st.assume(args[0].count >= 1)
            return args[0].count
        if name in ("DummyClassifier", "sklearn.dummy.DummyClassifier", "DummyRegressor", "sklearn.dummy.DummyRegressor"):
            return Abstract("est", kind="constant", constant=kwargs.get("constant"))
        if name in ("clone", "sklearn.base.clone", "sklearn.clone"):
            ok = kwargs.get("estimator", args[0] if args else None) is self.est
            eng.oblige(st, "fresh_clone_of_the_base_estimator", BoolVal(bool(ok)), "wiring", node)
            return Abstract("est", kind="clone")
        if name == "time":
            return fresh("t", RealSort())
        if name == "fit" and isinstance(recv, Abstract) and recv.tag == "est":
            labels, w = (args[1] if len(args) > 1 else None), kwargs.get("sample_weight")
            const = recv.kind == "constant"
            # the learner gets the moment's X and the weights under sample_weight_name; the constant classifier (single relabelled value) may be fitted without
            # weights - it does not depend on them (and they are all zero / undefined when every signed weight vanishes)
            eng.oblige(st, "learner_gets_the_moments_X_and_weights_under_sample_weight_name",
                       BoolVal(bool(args) and args[0] is self.X and ((is_nd(w) and set(kwargs) == {"sample_weight"}) or (const and not kwargs))), "wiring", node)
            if not (is_nd(labels) and labels.cell) or (w is not None and not (is_nd(w) and w.cell)):
                raise Unsupported("labels/weights lost their point-wise view")
            wk = WO(GI) + WC(GI)
            rng = in_range((n,), (GI,))
            eng.oblige(st, "classification_labels_are_one_where_the_weight_is_positive", Implies(And(rng, self.is_clf), to_real(labels.cell(GI)) == If(wk > 0, 1, 0)), "reduction", node)
            eng.oblige(st, "regression_keeps_the_moments_labels", BoolVal(True) if not getattr(labels, "moment_y", False) else Implies(rng, z3.Not(self.is_clf)), "reduction", node)
            if w is not None:
                eng.oblige(st, "weights_are_a_positive_rescaling_of_the_absolute_signed_weights",
                           Implies(rng, to_real(w.cell(GI)) * SUMABS == z3.ToReal(n) * If(wk >= 0, wk, -wk)), "reduction", node)
            u = st.env.get("redY_unique")
            if isinstance(u, Abstract):
                eng.oblige(st, "constant_classifier_iff_a_single_relabelled_value", (u.count == 1) == BoolVal(recv.kind == "constant"), "reduction", node)
                eng.oblige(st, "single_value_shortcut_looks_at_the_labels_the_learner_is_trained_on", BoolVal(u.of is labels), "wiring", node)
            return None
        return super().on_call(eng, st, node, name, recv, args, kwargs)

    def on_subscript(self, eng, st, node, base, index):
        if isinstance(base, Abstract) and base.tag == "unique" and index == 0:
            return Abstract("the_single_value")
        return super().on_subscript(eng, st, node, base, index)

    def on_store_attr(self, eng, st, node, base, attr, value):
        return NotImplemented

    def post(self, eng, st, status, value):
        ok = status == "return" and isinstance(value, Abstract) and value.tag == "est"
        return [("returns_the_trained_estimator", BoolVal(bool(ok)))]
