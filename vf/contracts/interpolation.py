"""Contracts of _get_interpolation_indices and _interpolate_curve (C04/C05), point-wise over the numpy model (generic grid index gi).

Dependency contract (assumed): np.searchsorted(a, v, side='right')[i] = number of entries of the non-decreasing array a that are <= v[i].
Precondition of _get_interpolation_indices (established by the hull contract and the grid): x_values non-decreasing and strictly increasing from
index 1 on, at least two entries, x_values[0] == x_grid[0] < x_values[-1], x_grid strictly increasing, x_grid[-1] <= x_values[-1].
Postcondition for every grid index i: 0 <= idx[i] <= len(x_values)-2, x_values[idx[i]] < x_values[idx[i]+1],
x_values[idx[i]] <= x_grid[i] <= x_values[idx[i]+1]   (DESIGN App. A.1).
_interpolate_curve ensures per grid index: 0 <= p0 <= 1, p1 = 1-p0, x_grid[i] = p0*x[idx]+p1*x[idx+1], y = p0*y[idx]+p1*y[idx+1],
operation0/1 = content[idx]/content[idx+1].
"""
import z3
from z3 import And, BoolVal, ForAll, Function, Implies, Int, IntSort, MultiPattern, RealSort

from ..pyvc.core import Abstract, PyDict, Unsupported, is_z3
from .ndmodel import GI, Nd, NdContract, in_range, is_nd

TC = "fairlearn/postprocessing/_tradeoff_curve_utilities.py"
XG = Function("x_grid", IntSort(), RealSort())
XV = Function("x_values", IntSort(), RealSort())
YV = Function("y_values", IntSort(), RealSort())
CV = Function("content", IntSort(), IntSort())
SS = Function("searchsorted_right", IntSort(), IntSort())
G, V = Int("n_grid"), Int("n_values")
a_, b_ = Int("a"), Int("b")


def pre():
    return [G >= 1, V >= 2,
            ForAll([a_, b_], Implies(And(0 <= a_, a_ < b_, b_ < V), XV(a_) <= XV(b_)), patterns=[MultiPattern(XV(a_), XV(b_))]),
            ForAll([a_, b_], Implies(And(1 <= a_, a_ < b_, b_ < V), XV(a_) < XV(b_)), patterns=[MultiPattern(XV(a_), XV(b_))]),
            ForAll([a_, b_], Implies(And(0 <= a_, a_ < b_, b_ < G), XG(a_) < XG(b_)), patterns=[MultiPattern(XG(a_), XG(b_))]),
            XV(0) == XG(0), XG(G - 1) <= XV(V - 1), XV(0) < XV(V - 1)]      # the hull spans both constant rules (x = 0 and x = 1)


def searchsorted_contract():
    return [ForAll([a_], Implies(And(0 <= a_, a_ < G), And(0 <= SS(a_), SS(a_) <= V)), patterns=[SS(a_)]),
            ForAll([a_, b_], Implies(And(0 <= a_, a_ < G, 0 <= b_, b_ < SS(a_)), XV(b_) <= XG(a_)), patterns=[MultiPattern(SS(a_), XV(b_))]),
            ForAll([a_, b_], Implies(And(0 <= a_, a_ < G, SS(a_) <= b_, b_ < V), XV(b_) > XG(a_)), patterns=[MultiPattern(SS(a_), XV(b_))])]


def searchsorted_left_contract():
    return [ForAll([a_], Implies(And(0 <= a_, a_ < G), And(0 <= SS(a_), SS(a_) <= V)), patterns=[SS(a_)]),
            ForAll([a_, b_], Implies(And(0 <= a_, a_ < G, 0 <= b_, b_ < SS(a_)), XV(b_) < XG(a_)), patterns=[MultiPattern(SS(a_), XV(b_))]),
            ForAll([a_, b_], Implies(And(0 <= a_, a_ < G, SS(a_) <= b_, b_ < V), XV(b_) >= XG(a_)), patterns=[MultiPattern(SS(a_), XV(b_))])]


def index_post(idx):
    i = GI
    return [("index_in_range", Implies(in_range((G,), (i,)), And(0 <= idx(i), idx(i) <= V - 2))),
            ("segment_is_non_degenerate", Implies(in_range((G,), (i,)), XV(idx(i)) < XV(idx(i) + 1))),
            ("grid_point_inside_segment", Implies(in_range((G,), (i,)), And(XV(idx(i)) <= XG(i), XG(i) <= XV(idx(i) + 1))))]


class InterpolationIndices(NdContract):
    source, function = TC, "_get_interpolation_indices"
    prune = False

    def params(self, eng, st):
        st.assume(*pre())
        st.env["x_grid"] = Nd("x_grid", (G,), "ndarray", "ERASED", cell=lambda i: XG(i))
        st.env["x_values"] = Nd("x_values", (V,), "ndarray", "ERASED", cell=lambda i: XV(i))

    def on_call(self, eng, st, node, name, recv, args, kwargs):
        if name == "numpy.searchsorted":
            side = kwargs.get("side", "left")
            ok = len(args) >= 2 and args[0] is st.env["x_values"] and args[1] is st.env["x_grid"] and side in ("left", "right")
            eng.oblige(st, "searchsorted_of_the_grid_in_the_values", BoolVal(bool(ok)), "wiring", node)
            if not ok:
                raise Unsupported("searchsorted arguments")
            st.assume(*(searchsorted_contract() if side == "right" else searchsorted_left_contract()))
            # seed the E-matching with the terms the case analysis needs (A.1): neighbours of the generic index
            return Nd("searchsorted", (G,), "ndarray", "ERASED", cell=lambda i: SS(i))
        return super().on_call(eng, st, node, name, recv, args, kwargs)

    def post(self, eng, st, status, value):
        if status != "return" or not is_nd(value) or getattr(value, "cell", None) is None:
            return [("returns_the_index_array", BoolVal(False))]
        return index_post(value.cell)


class InterpolateCurve(NdContract):
    source, function = TC, "_interpolate_curve"
    prune = False

    def params(self, eng, st):
        st.assume(*pre())
        self.grid = Nd("x_grid", (G,), "ndarray", "ERASED", cell=lambda i: XG(i))
        st.env.update({"data": Abstract("hull_frame"), "x_col": "x", "y_col": "y", "content_col": "operation", "x_grid": self.grid})
        self.IDX = Function("interpolation_index", IntSort(), IntSort())

    def on_subscript(self, eng, st, node, base, index):
        if isinstance(base, Abstract) and base.tag == "hull_frame" and isinstance(index, str):
            f = {"x": XV, "y": YV, "operation": CV}.get(index)
            if f is None:
                raise Unsupported(f"column {index}")
            return Nd(f"data[{index}]", (V,), "series", "DEFAULT", cell=lambda i, f=f: f(i))
        return super().on_subscript(eng, st, node, base, index)

    def on_call(self, eng, st, node, name, recv, args, kwargs):
        if name == "_get_interpolation_indices":
            ok = len(args) == 2 and args[0] is self.grid and is_nd(args[1]) and args[1].name == "data[x]"
            eng.oblige(st, "indices_of_the_grid_in_the_hull_abscissae", BoolVal(bool(ok)), "wiring", node)
            if not ok:
                raise Unsupported("callee arguments")
            for (_, g) in index_post(lambda i: self.IDX(i)):           # callee contract (proved separately: InterpolationIndices)
                st.assume(ForAll([GI], g, patterns=[self.IDX(GI)]))
            return Nd("interpolation_indices", (G,), "ndarray", "ERASED", cell=lambda i: self.IDX(i))
        if name == "pandas.DataFrame" and args and isinstance(args[0], PyDict):
            return Abstract("curve", cols=dict(args[0].d))
        return super().on_call(eng, st, node, name, recv, args, kwargs)

    def post(self, eng, st, status, value):
        if status != "return" or not (isinstance(value, Abstract) and value.tag == "curve"):
            return [("returns_the_curve_frame", BoolVal(False))]
        c = value.cols
        need = ["x", "y", "p0", "operation0", "p1", "operation1"]
        if list(c.keys()) != need or not all(is_nd(v) and getattr(v, "cell", None) is not None for v in c.values()):
            return [("curve_has_columns_x_y_p0_operation0_p1_operation1", BoolVal(False))]
        i, idx = GI, self.IDX(GI)
        rng = in_range((G,), (i,))
        p0, p1 = c["p0"].cell(i), c["p1"].cell(i)
        return [("x_column_is_the_grid", Implies(rng, c["x"].cell(i) == XG(i))),
                ("p0_in_unit_interval", Implies(rng, And(p0 >= 0, p0 <= 1))), ("p1_is_one_minus_p0", Implies(rng, p1 == 1 - p0)),
                ("grid_point_is_the_mixture_of_the_two_abscissae", Implies(rng, XG(i) == p0 * XV(idx) + p1 * XV(idx + 1))),
                ("y_is_the_same_mixture_of_the_two_ordinates", Implies(rng, c["y"].cell(i) == p0 * YV(idx) + p1 * YV(idx + 1))),
                ("operation0_is_the_left_vertex", Implies(rng, c["operation0"].cell(i) == CV(idx))),
                ("operation1_is_the_right_vertex", Implies(rng, c["operation1"].cell(i) == CV(idx + 1)))]
