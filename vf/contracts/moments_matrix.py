"""Contracts of the constraint matrix of UtilityParity (C06, C07): the U-matrix loop of load_data, gamma, signed_weights, bound, project_lambda.

Point-wise view: rows i of the loaded data carry an event code EV(i) (NULL = -1: 'a null compares unequal to every value') and a group code
GRP(i); prob_event[e] = PE(e), prob_group_event[e,g] = PEG(e,g) (pandas groupby.size()/n: assumed, > 0 for the pairs of the index);
U is a function (sign, e, g, row) -> real; matrix-vector products are opaque spec functions tagged with their operands.

U loop   ensures for every index pair (e,g) and row i (property C06):
            U[i,(+,e,g)] = [EV_i = e]/PE(e) - r*[EV_i = e and GRP_i = g]/PEG(e,g)
            U[i,(-,e,g)] = -r*[EV_i = e]/PE(e) + [EV_i = e and GRP_i = g]/PEG(e,g)          and every pair's columns are written exactly once
gamma    ensures  result = -(U^T pred)/n  with  pred_i = utility_diff_i * h_i + utilities[i,0]  and U the matrix built by load_data
signed_weights ensures  w_i = utility_diff_i * (U lambda)_i  with the same U                               (C07: adjoint of gamma)
bound    ensures  the constant eps on the constraint index
project_lambda ensures (ratio = 1) lambda'_+ = max(lambda_+ - lambda_-, 0), lambda'_- = max(lambda_- - lambda_+, 0); (ratio != 1) identity
Lemmas (vf/deductive/C06_more.py / C07.py): gamma.mean (indicator split + sum linearity), lagrangian non-decrease under project_lambda.
"""
import ast

import z3
from z3 import And, BoolVal, ForAll, Function, If, Implies, Int, IntSort, IntVal, MultiPattern, Not, Or, Real, RealSort, RealVal

from ..pyvc.core import Abstract, IterSpec, LoopSpec, Obj, Unsupported, fresh, is_z3, to_real
from .ndmodel import GI, Nd, NdContract, in_range, is_nd

UP = "fairlearn/reductions/_moments/utility_parity.py"
n, L = Int("n_rows"), Int("n_pairs")
EV = Function("event_of_row", IntSort(), IntSort())
GRP = Function("group_of_row", IntSort(), IntSort())
PE = Function("prob_event", IntSort(), RealSort())
PEG = Function("prob_group_event", IntSort(), IntSort(), RealSort())
E_, G_ = Function("pair_event", IntSort(), IntSort()), Function("pair_group", IntSort(), IntSort())
k_, k2_ = Int("k"), Int("k2")
r = Real("ratio")
SIGN = {"+": 0, "-": 1}


def ind(b):
    return If(b, RealVal(1), RealVal(0))


def spec_col(sign, e, g, i):
    ev, geg = ind(EV(i) == e), ind(And(EV(i) == e, GRP(i) == g))
    return ev / PE(e) - r * geg / PEG(e, g) if sign == 0 else -r * ev / PE(e) + geg / PEG(e, g)


def index_facts():
    return [n >= 1, L >= 0,
            ForAll([k_], Implies(And(0 <= k_, k_ < L), And(E_(k_) >= 0, PE(E_(k_)) > 0, PEG(E_(k_), G_(k_)) > 0)), patterns=[E_(k_)]),
            ForAll([k_, k2_], Implies(And(0 <= k_, k_ < k2_, k2_ < L), Not(And(E_(k_) == E_(k2_), G_(k_) == G_(k2_)))),
                   patterns=[MultiPattern(E_(k_), E_(k2_))])]


class _MomentBase(NdContract):
    source = UP

    def tags(self):
        return Abstract("tags")

    def on_subscript(self, eng, st, node, base, index):
        if isinstance(base, Abstract) and base.tag == "tags" and isinstance(index, str):
            f = {"event": EV, "group_id": GRP}.get(index)
            if f is None:
                raise Unsupported(f"tags[{index!r}]")
            return Nd(f"tags[{index}]", (n,), "series", "DEFAULT", cell=lambda i, f=f: f(i))
        if isinstance(base, Abstract) and base.tag == "pe" and is_z3(index):
            return PE(index)
        if isinstance(base, Abstract) and base.tag == "peg" and isinstance(index, tuple) and len(index) == 2:
            return PEG(*index)
        return super().on_subscript(eng, st, node, base, index)


class UMatrixLoop(_MomentBase):
    function = "UtilityParity.load_data"
    prune = False

    def body(self, fn):
        for s in fn.body:
            if isinstance(s, ast.For) and "prob_group_event.index" in ast.unparse(s.iter):
                return [s]
        raise Unsupported("the U-matrix loop `for e, g in self.prob_group_event.index` was not found")

    def params(self, eng, st):
        st.assume(*index_facts())
        self.U0 = Function("U_initial", IntSort(), IntSort(), IntSort(), IntSort(), RealSort())
        st.env["self"] = Obj("UtilityParity", {"tags": self.tags(), "prob_event": Abstract("pe"), "prob_group_event": Abstract("peg"),
                                               "ratio": r, "U": Abstract("U", col=self.U0)})

    def on_attr(self, eng, st, node, base, attr):
        if isinstance(base, Abstract) and base.tag == "peg" and attr == "index":
            return Abstract("peg_index")
        return super().on_attr(eng, st, node, base, attr)

    def on_iter(self, eng, st, node, it):
        if isinstance(it, Abstract) and it.tag == "peg_index":
            return IterSpec(L, lambda kk: (E_(kk), G_(kk)))
        return NotImplemented

    def on_store_subscript(self, eng, st, node, base, index, value):
        if isinstance(base, Abstract) and base.tag == "U":
            if not (isinstance(index, tuple) and len(index) == 3 and index[0] in SIGN and is_nd(value) and getattr(value, "cell", None)):
                raise Unsupported("U column assignment of another shape")
            sg, e, g = SIGN[index[0]], index[1], index[2]
            old, new = base.col, value.cell
            eng.oblige(st, "U_column_has_one_entry_per_row", value.shape[0] == n if is_z3(value.shape[0]) else BoolVal(False), "shape", node)
            st.env["self"].fields["U"] = Abstract("U", col=lambda s, e2, g2, i: If(And(s == sg, e2 == e, g2 == g), to_real(new(i)), old(s, e2, g2, i)))
            return True
        return super().on_store_subscript(eng, st, node, base, index, value)

    def havoc_abstract(self, eng, st, name, v):
        if v.tag == "U":
            f = Function("U_at_loop_head", IntSort(), IntSort(), IntSort(), IntSort(), RealSort())
            return Abstract("U", col=f)
        return v

    def written(self, st, upto):
        U = st.env["self"].fields["U"]
        rng = in_range((n,), (GI,))
        return ForAll([k_], Implies(And(0 <= k_, k_ < upto, rng),
                                    And(U.col(IntVal(0), E_(k_), G_(k_), GI) == spec_col(0, E_(k_), G_(k_), GI),
                                        U.col(IntVal(1), E_(k_), G_(k_), GI) == spec_col(1, E_(k_), G_(k_), GI))), patterns=[E_(k_)])

    def inv(self, st):
        k = st.env["$k0"]
        return [("k_range", And(0 <= k, k <= L)), ("columns_of_processed_pairs_are_exact", self.written(st, k))]

    def loops(self):
        return {0: LoopSpec(self.inv)}

    def post(self, eng, st, status, value):
        if status != "return":
            return [("no_exception", BoolVal(False))]
        return [("every_index_pair_has_its_plus_and_minus_column", self.written(st, L))]


class Gamma(_MomentBase):
    function = "UtilityParity.gamma"

    def __init__(self, column_output=False):
        self.column_output = column_output          # the predictor returns an (n,1) array (as TensorFlow models do) instead of an (n,) array
        self.variant = "[predictor returns a column (n,1)]" if column_output else "[predictor returns a vector (n,)]"

    def params(self, eng, st):
        st.assume(n >= 2)
        self.D, self.H = Function("utility_diff", IntSort(), RealSort()), Function("h", IntSort(), RealSort())
        self.U2 = Function("utilities", IntSort(), IntSort(), RealSort())
        self.Uobj = Abstract("U")
        st.env.update({"self": Obj("UtilityParity", {"X": Abstract("X"), "U": self.Uobj, "total_samples": n,
                                                     "utility_diff": Nd("utility_diff", (n,), "ndarray", "ERASED", cell=lambda i: self.D(i)),
                                                     "utilities": Nd("utilities", (n, 2), "ndarray", "ERASED", cell=lambda i, j: self.U2(i, j))}),
                       "predictor": Abstract("predictor")})

    def on_call(self, eng, st, node, name, recv, args, kwargs):
        if name == "$call" and isinstance(recv, Abstract) and recv.tag == "predictor":
            eng.oblige(st, "predictor_is_applied_to_the_loaded_X", BoolVal(bool(args) and args[0] is st.env["self"].fields["X"]), "wiring", node)
            if self.column_output:
                return Nd("predictions", (n, 1), "ndarray", "ERASED", cell=lambda i, j: self.H(i))
            return Nd("predictions", (n,), "ndarray", "ERASED", cell=lambda i: self.H(i))
        if name == "dot" and isinstance(recv, Abstract) and recv.tag == "UT" and is_nd(args[0]):
            return Abstract("lin", coef=RealVal(1), U=recv.of, vec=args[0], div=None)
        if name == "str" and isinstance(args[0], Abstract):
            return z3.String("descr")
        return super().on_call(eng, st, node, name, recv, args, kwargs)

    def on_attr(self, eng, st, node, base, attr):
        if isinstance(base, Abstract) and base.tag == "U" and attr == "T":
            return Abstract("UT", of=base)
        return super().on_attr(eng, st, node, base, attr)

    def on_binop(self, eng, st, node, op, a, b):
        if isinstance(a, Abstract) and a.tag == "lin":
            if op == "neg":
                return Abstract("lin", coef=-a.coef, U=a.U, vec=a.vec, div=a.div)
            if op == "Div" and not isinstance(b, Abstract):
                eng.oblige(st, "no_division_by_zero", to_real(b) != 0, "arith", node)
                return Abstract("lin", coef=a.coef / to_real(b), U=a.U, vec=a.vec, div=b)
        return super().on_binop(eng, st, node, op, a, b)

    def post(self, eng, st, status, value):
        ok = status == "return" and isinstance(value, Abstract) and value.tag == "lin"
        if not ok:
            return [("returns_a_multiple_of_U_transposed_times_pred", BoolVal(False))]
        v = value.vec
        rng = in_range((n,), (GI,))
        if not (is_nd(v) and len(v.shape) == 1):
            return [("pred_is_a_vector_with_one_entry_per_row", BoolVal(False))]
        return [("uses_the_constraint_matrix_built_by_load_data", BoolVal(value.U is self.Uobj)),
                ("scaled_by_minus_one_over_n", value.coef == -1 / z3.ToReal(n)),
                ("pred_is_utility_diff_times_h_plus_base_utility", Implies(rng, v.cell(GI) == self.D(GI) * self.H(GI) + self.U2(GI, IntVal(0)))
                 if is_nd(v) and getattr(v, "cell", None) else BoolVal(False))]


class SignedWeights(_MomentBase):
    function = "UtilityParity.signed_weights"

    def params(self, eng, st):
        self.D = Function("utility_diff", IntSort(), RealSort())
        self.Uobj, self.lam = Abstract("U"), Abstract("lambda_vec")
        st.env.update({"self": Obj("UtilityParity", {"U": self.Uobj, "utility_diff": Nd("utility_diff", (n,), "ndarray", "ERASED", cell=lambda i: self.D(i))}),
                       "lambda_vec": self.lam})

    def on_call(self, eng, st, node, name, recv, args, kwargs):
        if name == "dot" and isinstance(recv, Abstract) and recv.tag == "U":
            f = Function("row_dot<U|lambda>", IntSort(), RealSort())
            return Nd("U.dot(lambda)", (n,), "series", "DEFAULT", cell=lambda i: f(i), rowdot=(recv, args[0]))
        return super().on_call(eng, st, node, name, recv, args, kwargs)

    def post(self, eng, st, status, value):
        if status != "return" or not is_nd(value) or not getattr(value, "binop", None):
            return [("returns_utility_diff_times_U_lambda", BoolVal(False))]
        op, a, b = value.binop
        d = next((x for x in (a, b) if getattr(x, "rowdot", None)), None)
        if d is None:
            return [("returns_utility_diff_times_U_lambda", BoolVal(False))]
        f = Function("row_dot<U|lambda>", IntSort(), RealSort())
        return [("row_product_of_the_constraint_matrix_with_the_given_lambda", BoolVal(d.rowdot[0] is self.Uobj and d.rowdot[1] is self.lam)),
                ("weight_is_utility_diff_times_row_product", Implies(in_range((n,), (GI,)), value.cell(GI) == self.D(GI) * f(GI)))]


class Bound(_MomentBase):
    function = "UtilityParity.bound"

    def params(self, eng, st):
        self.eps, self.idx = Real("eps"), Abstract("index")
        st.env["self"] = Obj("UtilityParity", {"eps": self.eps, "index": self.idx})

    def on_call(self, eng, st, node, name, recv, args, kwargs):
        if name == "pandas.Series" and args and is_z3(args[0]):
            return Abstract("const_series", value=args[0], index=kwargs.get("index"))
        return super().on_call(eng, st, node, name, recv, args, kwargs)

    def post(self, eng, st, status, value):
        ok = status == "return" and isinstance(value, Abstract) and value.tag == "const_series"
        return [("bound_is_the_configured_slack_on_every_constraint", BoolVal(ok and value.value is self.eps and value.index is self.idx))]


class ProjectLambda(_MomentBase):
    function = "UtilityParity.project_lambda"

    def params(self, eng, st):
        self.LP, self.LM = Function("lambda_plus", IntSort(), RealSort()), Function("lambda_minus", IntSort(), RealSort())
        self.lam = Abstract("lambda_vec")
        st.env.update({"self": Obj("UtilityParity", {"ratio": r}), "lambda_vec": self.lam})

    def on_subscript(self, eng, st, node, base, index):
        if base is self.lam and index in ("+", "-"):
            f = self.LP if index == "+" else self.LM
            return Nd(f"lambda[{index}]", (L,), "series", "USER", cell=lambda j, f=f: f(j), pairs=True, half=index)
        return super().on_subscript(eng, st, node, base, index)

    # positions: the '+' block stores the pair with label LABP(p) at position p, the '-' block LABM(p) - the caller's Series need not keep both blocks in the same order
    def positional(self, v):
        lab = Function("label_at_position_of_the_plus_block" if v.half == "+" else "label_at_position_of_the_minus_block", IntSort(), IntSort())
        c = v.cell
        return Nd(f"values({v.name})", v.shape, "ndarray", "ERASED", cell=lambda p: c(lab(p)), positional=True)

    def on_attr(self, eng, st, node, base, attr):
        if is_nd(base) and getattr(base, "pairs", False) and getattr(base, "half", None) and attr == "values":
            return self.positional(base)
        if is_nd(base) and getattr(base, "pairs", False) and getattr(base, "half", None) and attr == "index":
            return Abstract("index_of_half", half=base.half)
        return super().on_attr(eng, st, node, base, attr)

    def on_binop(self, eng, st, node, op, a, b):
        if op == "neg" and is_nd(a) and getattr(a, "cell", None):
            return self._derive(a, name=f"-{a.name}", cell=lambda *ix, c=a.cell: -c(*ix))
        if op in ("Sub", "Add") and is_nd(a) and is_nd(b) and getattr(a, "positional", False) and getattr(b, "positional", False):
            from .ndmodel import _arith
            return Nd(f"({a.name}{op}{b.name})", a.shape, "ndarray", "ERASED", cell=lambda p: _arith(op, a.cell(p), b.cell(p)), positional=True)          # element-wise BY POSITION
        if op in ("Sub", "Add") and is_nd(a) and is_nd(b) and getattr(a, "pairs", False) and getattr(b, "pairs", False):
            # both halves of lambda_vec are indexed by the same (event, group) pairs: label alignment = position alignment
            from .ndmodel import _arith
            return Nd(f"({a.name}{op}{b.name})", a.shape, "series", "USER", cell=lambda j: _arith(op, a.cell(j), b.cell(j)), pairs=True)
        return super().on_binop(eng, st, node, op, a, b)

    def on_store_subscript(self, eng, st, node, base, index, value):
        if is_nd(base) and is_nd(index) and getattr(index, "cell", None) and not isinstance(value, Abstract):
            from .ndmodel import rebind
            old, msk, v = base.cell, index.cell, to_real(value)
            rebind(st, base, self._derive(base, cell=lambda j: If(msk(j), v, old(j))))
            return True
        return super().on_store_subscript(eng, st, node, base, index, value)

    def on_call(self, eng, st, node, name, recv, args, kwargs):
        if name == "to_numpy" and is_nd(recv) and getattr(recv, "pairs", False) and getattr(recv, "half", None):
            return self.positional(recv)
        if name in ("numpy.asarray", "numpy.array") and args and is_nd(args[0]) and getattr(args[0], "pairs", False) and getattr(args[0], "half", None):
            return self.positional(args[0])
        if name == "pandas.Series" and args and is_nd(args[0]) and getattr(args[0], "positional", False) and isinstance(kwargs.get("index"), Abstract) and kwargs["index"].tag == "index_of_half":
            pos = Function("position_in_the_plus_block" if kwargs["index"].half == "+" else "position_in_the_minus_block", IntSort(), IntSort())
            lab = Function("label_at_position_of_the_plus_block" if kwargs["index"].half == "+" else "label_at_position_of_the_minus_block", IntSort(), IntSort())
            st.assume(lab(pos(GI)) == GI)          # position and label of the generic pair in that block (instantiated: keeps the VC quantifier free)
            c = args[0].cell
            return Nd("series_over_the_half_index", args[0].shape, "series", "USER", cell=lambda j: c(pos(j)), pairs=True)
        if name == "pandas.concat":
            parts, keys = args[0], kwargs.get("keys")
            return Abstract("concat", parts=list(parts.items), keys=list(keys.items) if keys is not None else None)
        return super().on_call(eng, st, node, name, recv, args, kwargs)

    def post(self, eng, st, status, value):
        if status != "return":
            return [("no_exception", BoolVal(False))]
        j = GI
        rng = And(0 <= j, j < L)
        if value is self.lam:
            return [("identity_only_for_ratio_constraints", r != 1)]
        ok = isinstance(value, Abstract) and value.tag == "concat" and value.keys == ["+", "-"] and len(value.parts) == 2 \
            and all(is_nd(p) and getattr(p, "cell", None) for p in value.parts)
        if not ok:
            return [("returns_plus_and_minus_halves", BoolVal(False))]
        pos, neg = value.parts[0].cell(j), value.parts[1].cell(j)
        d = self.LP(j) - self.LM(j)
        return [("projection_only_for_difference_constraints", r == 1),
                ("plus_half_is_positive_part_of_the_difference", Implies(rng, pos == If(d > 0, d, 0))),
                ("minus_half_is_negative_part_of_the_difference", Implies(rng, neg == If(-d > 0, -d, 0))),
                ("projected_vector_is_non_negative", Implies(rng, And(pos >= 0, neg >= 0)))]


class LoadDataPrologue(_MomentBase):
    """UtilityParity.load_data up to (excluding) the U-matrix loop: wiring against the assumed pandas contracts (groupby(keys).size() counts the rows of every
    key combination that occurs, rows with a null key are dropped; concat(keys=['+','-']) stacks two copies under the two signs).
    Ensures (property C06): tags gets the event column; prob_event = counts by event / n; prob_group_event = counts by (event, group) / n;
    the constraint index is the index of concat([prob_group_event, prob_group_event], keys=['+','-']) - exactly one '+' and one '-' entry for every
    (event, group) pair that occurs; U starts as zeros over rows x index; default utilities are [0, 1] per row."""
    function = "UtilityParity.load_data"

    def __init__(self, utilities_given):
        self.ug = utilities_given
        self.variant = "[utilities given]" if utilities_given else "[default utilities]"

    def body(self, fn):
        for idx, s in enumerate(fn.body):
            if isinstance(s, ast.For) and "prob_group_event.index" in ast.unparse(s.iter):
                return fn.body[:idx]
        raise Unsupported("U-matrix loop not found")

    def params(self, eng, st):
        self.a = {k: Abstract("arg", name=k) for k in ("X", "y", "sensitive_features", "event")}
        st.env.update(self.a)
        self.util = Nd("utilities_arg", (n, 2), "ndarray", "ERASED", cell=lambda i, j: Function("util_arg", IntSort(), IntSort(), RealSort())(i, j)) if self.ug else None
        st.env["utilities"] = self.util
        self.tags_obj = Abstract("tags_frame", cols={})
        st.env["self"] = Obj("UtilityParity", {"tags": self.tags_obj, "total_samples": n, "index": Abstract("index_property")})

    def on_call(self, eng, st, node, name, recv, args, kwargs):
        if name == "super":
            return Abstract("super")
        if name == "load_data" and isinstance(recv, Abstract) and recv.tag == "super":
            st.ghost["base"] = (list(args), dict(kwargs))
            return None
        if name in ("numpy.zeros", "numpy.ones") and args and isinstance(args[0], Abstract) and args[0].tag == "shape_of_y":
            v = 0 if name.endswith("zeros") else 1
            return Nd(name, (n,), "ndarray", "ERASED", cell=lambda i, v=v: RealVal(v))
        if name == "numpy.vstack":
            parts = list(args[0].items)
            if len(parts) == 2 and all(is_nd(p) and p.cell for p in parts):
                return Nd("vstack", (2, n), "ndarray", "ERASED", cell=lambda r, i: If(r == 0, parts[0].cell(i), parts[1].cell(i)))
            raise Unsupported("vstack")
        if name == "groupby" and recv is self.tags_obj:
            keys = args[0].items if hasattr(args[0], "items") else [args[0]]
            return Abstract("grouped", keys=list(keys))
        if name == "size" and isinstance(recv, Abstract) and recv.tag == "grouped":
            return Abstract("counts", keys=recv.keys, div=None)
        if name == "pandas.concat":
            return Abstract("concat", parts=list(args[0].items), keys=list(kwargs["keys"].items) if "keys" in kwargs else None, names=list(kwargs["names"].items) if "names" in kwargs else None)
        if name == "pandas.DataFrame" and args and args[0] == 0:
            return Abstract("zeros_frame", index=kwargs.get("index"), columns=kwargs.get("columns"))
        return super().on_call(eng, st, node, name, recv, args, kwargs)

    def on_attr(self, eng, st, node, base, attr):
        if base is self.a["y"] and attr == "shape":
            return Abstract("shape_of_y")
        if isinstance(base, Abstract) and base.tag == "concat" and attr == "index":
            return Abstract("signed_index", of=base)
        if base is self.tags_obj and attr == "index":
            return Abstract("row_index")
        if is_nd(base) and attr == "T" and len(base.shape) == 2 and base.cell:
            c = base.cell
            return Nd(base.name + ".T", (base.shape[1], base.shape[0]), "ndarray", "ERASED", cell=lambda i, j: c(j, i))
        return super().on_attr(eng, st, node, base, attr)

    def on_binop(self, eng, st, node, op, a, b):
        if op == "Div" and isinstance(a, Abstract) and a.tag == "counts":
            return Abstract("counts", keys=a.keys, div=b)
        return super().on_binop(eng, st, node, op, a, b)

    def on_store_subscript(self, eng, st, node, base, index, value):
        if base is self.tags_obj and isinstance(index, str):
            st.ghost.setdefault("tag_cols", {})[index] = value
            return True
        return super().on_store_subscript(eng, st, node, base, index, value)

    def post(self, eng, st, status, value):
        f = st.env["self"].fields
        base = st.ghost.get("base")
        out = [("base_class_loads_X_y_and_the_sensitive_features", BoolVal(base is not None and base[0] == [self.a["X"], self.a["y"]] and base[1].get("sensitive_features") is self.a["sensitive_features"])),
               ("tags_get_the_event_column", BoolVal(st.ghost.get("tag_cols", {}).get("event") is self.a["event"]))]
        pe, peg = f.get("prob_event"), f.get("prob_group_event")
        isn = lambda v: is_z3(v) and v.eq(n)
        out += [("prob_event_is_count_by_event_over_n", BoolVal(isinstance(pe, Abstract) and pe.tag == "counts" and pe.keys == ["event"] and isn(pe.div))),
                ("prob_group_event_is_count_by_event_and_group_over_n", BoolVal(isinstance(peg, Abstract) and peg.tag == "counts" and peg.keys == ["event", "group_id"] and isn(peg.div)))]
        ix = f.get("_index")
        ok = isinstance(ix, Abstract) and ix.tag == "signed_index" and ix.of.keys == ["+", "-"] and len(ix.of.parts) == 2 and all(p is peg for p in ix.of.parts)
        out.append(("index_has_one_plus_and_one_minus_entry_per_event_group_pair", BoolVal(bool(ok))))
        U = f.get("U")
        out.append(("U_starts_as_zeros_over_rows_and_constraints", BoolVal(isinstance(U, Abstract) and U.tag == "zeros_frame" and isinstance(U.index, Abstract) and U.index.tag == "row_index"
                                                                          and U.columns is f.get("index"))))
        ut, ud = f.get("utilities"), f.get("utility_diff")
        rng = in_range((n,), (GI,))
        if self.ug:
            # the given utilities (possibly re-stored as a float array: same values cell by cell)
            same = (ut is self.util) or (is_nd(ut) and ut.cell is not None and tuple(ut.shape) == tuple(self.util.shape))
            out.append(("given_utilities_are_used", (Implies(rng, And(*[to_real(ut.cell(GI, IntVal(c))) == to_real(self.util.cell(GI, IntVal(c))) for c in (0, 1)])) if same and ut is not self.util
                                                     else BoolVal(bool(same)))))
        else:
            out.append(("default_utilities_are_zero_and_one", Implies(rng, And(to_real(ut.cell(GI, IntVal(0))) == 0, to_real(ut.cell(GI, IntVal(1))) == 1)) if is_nd(ut) and ut.cell else BoolVal(False)))
        if is_nd(ut) and ut.cell and is_nd(ud) and ud.cell:
            out.append(("utility_diff_is_column_one_minus_column_zero", Implies(rng, to_real(ud.cell(GI)) == to_real(ut.cell(GI, IntVal(1))) - to_real(ut.cell(GI, IntVal(0))))))
        else:
            out.append(("utility_diff_is_column_one_minus_column_zero", BoolVal(False)))
        return out
