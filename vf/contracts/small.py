"""Sidecar contracts for small pure-Python functions (constructors, scalar helpers)."""
import z3
from z3 import And, Bool, BoolVal, If, Implies, Not, Or, Real, RealVal, String, StringVal

from ..pyvc.core import Abstract, Contract, Ext, Obj, PyDict, PyList, Unsupported, is_z3, to_real
from ..pyvc.util import model_bool, model_real, model_str


def _ext(name):
    return Ext(Bool(name + "_pinf"), Bool(name + "_ninf"), Real(name + "_val"))


class ThresholdOpCall(Contract):
    """ThresholdOperation.__call__(y_hat): the rule `y_hat > t` resp. `y_hat < t` (t may be +-inf); any other operator raises."""
    source, function = "fairlearn/postprocessing/_threshold_operation.py", "ThresholdOperation.__call__"

    def params(self, eng, st):
        self.op, self.t, self.y = String("operator"), _ext("threshold"), Real("y_hat")
        st.assume(Not(And(self.t.pinf, self.t.ninf)))
        st.env["self"] = Obj("ThresholdOperation", {"_operator": self.op, "_threshold": self.t})
        st.env["y_hat"] = self.y

    def post(self, eng, st, status, value):
        known = Or(self.op == StringVal(">"), self.op == StringVal("<"))
        if status == "raise":
            return [("raises_only_for_unknown_operator", Not(known)), ("raises_ValueError", BoolVal(value.typ == "ValueError"))]
        y = Ext.fin(self.y)
        val = value if is_z3(value) else BoolVal(bool(value))
        return [("returns_only_for_known_operator", known),
                ("greater_rule", Implies(self.op == StringVal(">"), val == self.t.lt(y))),
                ("less_rule", Implies(self.op == StringVal("<"), val == y.lt(self.t)))]

    def replay(self, ob, r):
        from fairlearn.postprocessing._threshold_operation import ThresholdOperation
        m = r.model
        op = model_str(m, "operator")
        t = float("inf") if model_bool(m, "threshold_pinf") else float("-inf") if model_bool(m, "threshold_ninf") else float(model_real(m, "threshold_val"))
        y = float(model_real(m, "y_hat"))
        o = ThresholdOperation.__new__(ThresholdOperation)
        o._operator, o._threshold = op, t
        try:
            got = bool(o(y))
        except ValueError:
            got = "ValueError"
        exp = (y > t) if op == ">" else (y < t) if op == "<" else "ValueError"
        return {"confirmed": got != exp, "key": "C04:ThresholdOperation.__call__", "what": f"ThresholdOperation({op!r},{t})({y}) -> {got}, expected {exp}",
                "replay": {"operator": op, "threshold": repr(t), "y_hat": y, "got": repr(got)}}


class ThresholdOpInit(Contract):
    source, function = "fairlearn/postprocessing/_threshold_operation.py", "ThresholdOperation.__init__"

    def params(self, eng, st):
        self.op, self.t = String("operator"), _ext("threshold")
        st.env.update({"self": Obj("ThresholdOperation"), "operator": self.op, "threshold": self.t})

    def post(self, eng, st, status, value):
        known = Or(self.op == StringVal(">"), self.op == StringVal("<"))
        if status == "raise":
            return [("raises_only_for_unknown_operator", Not(known))]
        f = st.env["self"].fields
        return [("returns_only_for_known_operator", known),
                ("stores_operator_and_threshold", BoolVal(f.get("_operator") is self.op and f.get("_threshold") is self.t))]


class RatioSubOne(Contract):
    """nested helper of DisaggregatedResult.ratio: r -> min(r, 1/r) (property C02: 'the smallest of min(r, 1/r)')."""
    source, function = "fairlearn/metrics/_disaggregated_result.py", "DisaggregatedResult.ratio.ratio_sub_one"

    def params(self, eng, st):
        self.x = Real("x")
        st.env["x"] = self.x

    def post(self, eng, st, status, value):
        if status != "return":
            return [("never_raises", BoolVal(False))]
        x, v = self.x, to_real(value)
        inv = 1 / x
        return [("positive_ratio_is_min_r_inv_r", Implies(x > 0, And(v == If(x < inv, x, inv), v > 0, v <= 1))),
                ("zero_stays_zero", Implies(x == 0, v == 0)),
                ("negative_ratio_is_min_r_inv_r", Implies(x < 0, v == If(x < inv, x, inv)))]

    def replay(self, ob, r):
        x = float(model_real(r.model, "x"))
        # the helper is nested: rebuild it from the real source of the enclosing method
        import ast
        import textwrap
        from ..pyvc.core import Source
        src = Source.load(self.source)
        node = src.func(self.function)
        ns = {}
        exec(compile(ast.Module(body=[node], type_ignores=[]), "<ratio_sub_one>", "exec"), ns)
        got = ns["ratio_sub_one"](x)
        exp = min(x, 1 / x) if x != 0 else 0.0
        bad = abs(got - exp) > 1e-12
        key = "C02:ratio:negative-values" if x < 0 else "C02:ratio_sub_one:positive"
        return {"confirmed": bad, "key": key, "what": f"ratio_sub_one({x}) = {got}, min(r, 1/r) = {exp}", "replay": {"x": x, "got": got, "expected": exp}}


class ErrorRateInit(Contract):
    """ErrorRate.__init__(costs): variants None / {'fp','fn'} dict with symbolic values / dict with wrong keys / non-dict."""
    source, function = "fairlearn/reductions/_moments/error_rate.py", "ErrorRate.__init__"

    def __init__(self, kind):
        self.kind = kind
        self.variant = f"[costs:{kind}]"

    def params(self, eng, st):
        st.env["self"] = Obj("ErrorRate")
        self.fp, self.fn = Real("fp"), Real("fn")
        st.env["costs"] = {"none": None, "ok_keys": PyDict({"fp": self.fp, "fn": self.fn}), "missing_key": PyDict({"fp": self.fp}),
                           "extra_key": PyDict({"fp": self.fp, "fn": self.fn, "tp": Real("tp")}), "empty": PyDict({}),
                           "not_a_dict": PyList([self.fp, self.fn])}[self.kind]

    def on_call(self, eng, st, node, name, recv, args, kwargs):
        if name == "super":
            return Abstract("super")
        if name == "__init__" and isinstance(recv, Abstract) and recv.tag == "super":
            st.env["self"].fields["data_loaded"] = False
            return None
        return NotImplemented

    def post(self, eng, st, status, value):
        valid = {"none": BoolVal(True), "ok_keys": And(self.fp >= 0, self.fn >= 0, self.fp + self.fn > 0)}.get(self.kind, BoolVal(False))
        if status == "raise":
            return [("raises_only_for_bad_costs", Not(valid)), ("raises_ValueError", BoolVal(value.typ == "ValueError"))]
        f = st.env["self"].fields
        out = [("returns_only_for_valid_costs", valid)]
        if "fp_cost" not in f or "fn_cost" not in f:
            return out + [("sets_costs", BoolVal(False))]
        fp, fn = to_real(f["fp_cost"]), to_real(f["fn_cost"])
        if self.kind == "none":
            out.append(("default_costs_are_one", And(fp == 1, fn == 1)))
        else:
            out.append(("stores_the_given_costs", And(fp == self.fp, fn == self.fn)))
        return out


class GridSearchInit(Contract):
    source, function = "fairlearn/reductions/_grid_search/grid_search.py", "GridSearch.__init__"

    def __init__(self, is_moment, rule_ok):
        self.is_moment, self.rule_ok = is_moment, rule_ok
        self.variant = f"[moment={is_moment},rule_ok={rule_ok}]"

    def params(self, eng, st):
        self.cw, self.gl = Real("constraint_weight"), Real("grid_limit")
        st.env.update({"self": Obj("GridSearch"), "estimator": Abstract("estimator"), "constraints": Abstract("constraints"),
                       "selection_rule": "tradeoff_optimization" if self.rule_ok else "something_else", "constraint_weight": self.cw,
                       "grid_size": z3.Int("grid_size"), "grid_limit": self.gl, "grid_offset": None, "grid": None,
                       "sample_weight_name": "sample_weight"})

    def on_call(self, eng, st, node, name, recv, args, kwargs):
        if name == "isinstance" and isinstance(args[0], Abstract) and args[0].tag == "constraints":
            return self.is_moment if args[1] == ["Moment"] else NotImplemented
        return NotImplemented

    def post(self, eng, st, status, value):
        valid = And(BoolVal(self.is_moment and self.rule_ok), self.cw >= 0, self.cw <= 1)
        if status == "raise":
            return [("raises_only_for_invalid_arguments", Not(valid))]
        f = st.env["self"].fields
        return [("returns_only_for_valid_arguments", valid),
                ("stores_weights", And(to_real(f["constraint_weight"]) == self.cw, to_real(f["objective_weight"]) == 1 - self.cw)),
                ("stores_constraints", BoolVal(f.get("constraints") is st.env["constraints"] and f.get("estimator") is st.env["estimator"]))]


class GapResultGap(Contract):
    source, function = "fairlearn/reductions/_exponentiated_gradient/_lagrangian.py", "_GapResult.gap"

    def params(self, eng, st):
        self.L, self.lo, self.hi = Real("L"), Real("L_low"), Real("L_high")
        st.env["self"] = Obj("_GapResult", {"L": self.L, "L_low": self.lo, "L_high": self.hi})

    def post(self, eng, st, status, value):
        if status != "return":
            return [("never_raises", BoolVal(False))]
        v = to_real(value)
        a, b = self.L - self.lo, self.hi - self.L
        return [("gap_is_max_of_both_sides", v == If(a > b, a, b)), ("gap_bounds_lower_side", v >= a), ("gap_bounds_upper_side", v >= b)]
