"""Contracts of the bootstrap resampling (C18): call-site conformance to DataFrame.sample and seed-stream purity.

generate_single_bootstrap_sample: the only resampling call is data.sample(frac=1, replace=True, random_state=<the given seed>, axis=0,
  ignore_index=True) and its result is what DisaggregatedResult.create evaluates, with the same functions and feature names.  Under the pandas
  contract (assumed) each resample has exactly n rows, each a row of `data`, and is a function of (data, seed).
generate_bootstrap_samples: for an int seed the per-sample seeds are rs[i] = default_rng(seed).integers(...)[i] (a function of the seed and i,
  numpy contract assumed); the loop produces exactly n_samples results, the i-th from rs[i] with the caller's data / functions / feature names.
  Hence equal integer random_state => equal results (reproducibility), and one result per requested sample.
"""
import z3
from z3 import And, BoolVal, ForAll, Function, Implies, Int, IntSort, IntVal, K, Select

from ..pyvc.core import fresh, Abstract, Contract, LoopSpec, Obj, PyList, SymSeq, Unsupported, is_z3

BS = "fairlearn/metrics/_bootstrap.py"
RSF = Function("seed_stream", IntSort(), IntSort(), IntSort())          # (int seed, i) -> i-th derived seed
SINGLE = Function("single_bootstrap_result", IntSort(), IntSort())       # derived seed -> result token (function of (data, seed))
k_ = Int("k")


class SingleSample(Contract):
    source, function = BS, "generate_single_bootstrap_sample"

    def params(self, eng, st):
        self.a = {k: Abstract("arg", name=k) for k in ("data", "annotated_functions", "sensitive_feature_names", "control_feature_names")}
        self.seed = Int("random_state")
        st.env.update(self.a)
        st.env["random_state"] = self.seed
        self.sample_kw, self.create_kw = None, None

    def on_call(self, eng, st, node, name, recv, args, kwargs):
        if name == "sample" and recv is self.a["data"]:
            self.sample_kw = (list(args), dict(kwargs))
            return Abstract("resampled")
        if name == "create" or name.endswith("DisaggregatedResult.create"):
            self.create_kw = dict(kwargs)
            return Abstract("result")
        return NotImplemented

    def on_attr(self, eng, st, node, base, attr):
        if isinstance(base, Abstract) and base.tag == "class" and attr == "create":
            return Abstract("libfunc", name="DisaggregatedResult.create")
        return NotImplemented

    def post(self, eng, st, status, value):
        if status == "raise":
            return [("raises_only_without_a_seed", BoolVal(False))]
        if self.sample_kw is None or self.create_kw is None:
            return [("resamples_and_evaluates", BoolVal(False))]
        pa, kw = self.sample_kw
        ck = self.create_kw
        return [("resample_has_all_n_rows_drawn_with_replacement", BoolVal(not pa and kw.get("frac") == 1 and kw.get("replace") is True and "n" not in kw)),
                ("resample_is_driven_by_the_given_seed", BoolVal(kw.get("random_state") is self.seed)),
                ("rows_are_resampled_and_renumbered", BoolVal(kw.get("axis", 0) == 0 and kw.get("ignore_index") is True)),
                ("metrics_are_evaluated_on_the_resample", BoolVal(isinstance(ck.get("data"), Abstract) and ck["data"].tag == "resampled")),
                ("same_functions_and_feature_names", BoolVal(all(ck.get(k) is self.a[k] for k in ("annotated_functions", "sensitive_feature_names", "control_feature_names")))),
                ("returns_the_evaluation", BoolVal(isinstance(value, Abstract) and value.tag == "result"))]


class ManySamples(Contract):
    source, function = BS, "generate_bootstrap_samples"
    prune = False

    def params(self, eng, st):
        self.a = {k: Abstract("arg", name=k) for k in ("data", "annotated_functions", "sensitive_feature_names", "control_feature_names")}
        self.seed, self.n = Int("random_state"), Int("n_samples")
        st.env.update(self.a)
        st.env.update({"random_state": self.seed, "n_samples": self.n})

    def on_call(self, eng, st, node, name, recv, args, kwargs):
        if name == "numpy.random.default_rng":
            s = kwargs.get("seed", args[0] if args else None)
            if s is None:
                s = fresh("operating_system_entropy")          # unseeded generator: a stream unrelated to the caller's integer seed
            return Abstract("gen", seed=s)
        if name == "numpy.iinfo":
            return Obj("iinfo", {"max": 2 ** 32 - 1, "min": 0})
        if name == "integers" and isinstance(recv, Abstract) and recv.tag == "gen":
            eng.oblige(st, "one_derived_seed_per_sample", BoolVal(kwargs.get("size") is self.n), "wiring", node)
            # 'the resamples differ': the derived seeds range over (at least) 31 bits whatever the number of samples, so two resamples of one run share a seed with
            # negligible probability only (numpy contract of Generator.integers: uniform on [low, high))
            lo, hi = kwargs.get("low", 0), kwargs.get("high", args[1] if len(args) > 1 else (args[0] if args else None))
            eng.oblige(st, "derived_seeds_range_over_31_bits_or_more", BoolVal(isinstance(lo, int) and isinstance(hi, int) and not isinstance(hi, bool) and hi - lo >= 2 ** 31),
                       "wiring", node)
            return Abstract("rs", seed=recv.seed)
        if name == "isinstance" and args[0] is self.seed:
            return args[1] == ["int"]
        if name == "generate_single_bootstrap_sample":
            ok = all(kwargs.get(k) is self.a[k] for k in self.a)
            eng.oblige(st, "each_sample_uses_the_callers_data_functions_and_feature_names", BoolVal(ok), "wiring", node)
            rs = kwargs.get("random_state")
            if not is_z3(rs):
                raise Unsupported("seed of a single sample")
            return SINGLE(rs)
        return NotImplemented

    def on_subscript(self, eng, st, node, base, index):
        if isinstance(base, Abstract) and base.tag == "rs":
            if base.seed is None:
                raise Unsupported("unseeded stream")
            return RSF(base.seed, index)
        return NotImplemented

    @staticmethod
    def _prep(st):
        r = st.env.get("result")
        if isinstance(r, PyList) and not r.items:
            st.env["result"] = SymSeq(K(IntSort(), IntVal(0)), IntVal(0))

    def inv(self, st):
        r, i = st.env["result"], st.env["$k0"]
        return [("i_range", And(0 <= i, i <= self.n)), ("one_result_per_iteration", r.n == i),
                ("kth_result_comes_from_the_kth_derived_seed", ForAll([k_], Implies(And(0 <= k_, k_ < r.n), r.raw(k_) == SINGLE(RSF(self.seed, k_))), patterns=[Select(r.arr, k_)]))]

    def loops(self):
        return {0: LoopSpec(self.inv, prepare=self._prep)}

    def post(self, eng, st, status, value):
        if status == "raise":
            return [("raises_only_for_a_non_positive_sample_count", self.n < 1)]
        if not isinstance(value, SymSeq):
            return [("returns_the_list_of_samples", BoolVal(False))]
        return [("returns_only_for_a_positive_sample_count", self.n >= 1), ("exactly_n_samples", value.n == self.n),
                ("sample_k_is_a_function_of_the_integer_seed_and_k", ForAll([k_], Implies(And(0 <= k_, k_ < value.n), value.raw(k_) == SINGLE(RSF(self.seed, k_)))))]


def _many_samples_replay(self, ob, r):
    """native check on the real function: the seeds handed to the single-sample generator must be a function of the integer random_state (same seed twice
    -> same seeds; covers seed 0)"""
    import pandas as pd
    import fairlearn.metrics._bootstrap as bs
    seen = []
    real = bs.generate_single_bootstrap_sample
    bs.generate_single_bootstrap_sample = lambda **kw: seen.append(int(kw["random_state"])) or len(seen)
    try:
        for seed in (0, 1, 2, 3, 4, 5, 12345):
            runs = []
            for _ in range(2):
                del seen[:]
                bs.generate_bootstrap_samples(n_samples=4, random_state=seed, data=pd.DataFrame({"y_true": [0, 1]}), annotated_functions={},
                                              sensitive_feature_names=["s"], control_feature_names=None)
                runs.append(list(seen))
            if len(set(runs[0])) != len(runs[0]):
                return {"confirmed": True, "key": "C18:generate_bootstrap_samples:repeated-derived-seed", "replay": {"random_state": seed, "n_samples": 4, "seeds": runs[0]},
                        "what": f"generate_bootstrap_samples(random_state={seed}, n_samples=4) hands the same seed to two resamples: {runs[0]} (identical resamples)"}
            if runs[0] != runs[1] or len(runs[0]) != 4:
                return {"confirmed": True, "key": "C18:generate_bootstrap_samples:not-reproducible", "replay": {"random_state": seed, "n_samples": 4, "seeds_run_1": runs[0], "seeds_run_2": runs[1]},
                        "what": f"generate_bootstrap_samples(random_state={seed}, n_samples=4) hands different seeds to the resamples in two runs: {runs[0]} vs {runs[1]}"}
    finally:
        bs.generate_single_bootstrap_sample = real
    return {"confirmed": False}


ManySamples.replay = _many_samples_replay


class BootstrapArguments(Contract):
    """The bootstrap part of MetricFrame.__init__ (from `self._ci_quantiles = ci_quantiles` to the end): argument validation (C20/C18) and the wiring of the
    resampling call (same data frame, annotated functions, feature names and the caller's random_state / n_boot as the point estimates)."""
    source, function = "fairlearn/metrics/_metric_frame.py", "MetricFrame.__init__"

    def __init__(self, n_boot_kind, ci_kind):
        self.nk, self.ck = n_boot_kind, ci_kind
        self.variant = f"[n_boot:{n_boot_kind},ci:{ci_kind}]"

    def body(self, fn):
        import ast
        for idx, s in enumerate(fn.body):
            if isinstance(s, ast.Assign) and ast.unparse(s.targets[0]) == "self._ci_quantiles":
                return fn.body[idx:]
        raise Unsupported("start of the bootstrap block not found")

    def params(self, eng, st):
        from ..pyvc.core import PyList
        self.nb = {"none": None, "int": Int("n_boot"), "float": z3.Real("n_boot_f")}[self.nk]
        qs = {"none": None, "empty": [], "one": [z3.Real("q0")], "two": [z3.Real("q0"), z3.Real("q1")], "int_entry": [z3.Real("q0"), Int("qi")]}[self.ck]
        self.qs = qs
        self.ci = None if qs is None else PyList(qs)
        self.a = {"all_data": Abstract("all_data"), "annotated_funcs": Abstract("funcs"), "random_state": Abstract("rs")}
        st.env.update(self.a)
        st.env.update({"self": Obj("MetricFrame", {"_sf_names": Abstract("sfn"), "_cf_names": Abstract("cfn")}), "n_boot": self.nb, "ci_quantiles": self.ci})
        st.ghost["callers_quantiles"] = self.ci          # ghost alias of the caller's list (cloned together with the environment)

    def on_call(self, eng, st, node, name, recv, args, kwargs):
        if name == "generate_bootstrap_samples":
            st.ghost["gen"] = dict(kwargs)
            return Abstract("samples")
        if name == "_populate_results_ci":
            st.ghost["pop"] = list(args)
            return None
        if name == "str":
            return "x"
        if name in ("set", "sorted", "reversed", "frozenset") and args and (args[0] is st.ghost.get("callers_quantiles") or isinstance(args[0], Abstract) and args[0].tag == "rearranged_quantiles"):
            return Abstract("rearranged_quantiles", how=name)          # another order and/or length than the caller's list
        return NotImplemented

    def post(self, eng, st, status, value):
        q_ok = BoolVal(True)
        if self.qs:
            q_ok = And(*[And(q > 0, q < 1) if z3.is_real(q) else BoolVal(False) for q in self.qs])
        have_ci = bool(self.qs)
        have_n = self.nb is not None
        n_ok = (self.nb >= 1) if self.nk == "int" else BoolVal(False)
        if status == "raise":
            bad = BoolVal(have_ci != have_n) if not (have_ci and have_n) else z3.Not(And(n_ok, q_ok))
            return [("raises_only_for_invalid_bootstrap_arguments", bad), ("raises_ValueError", BoolVal(value.typ == "ValueError"))]
        out = [("both_or_neither_bootstrap_argument", BoolVal(have_ci == have_n))]
        g, p = st.ghost.get("gen"), st.ghost.get("pop")
        if have_ci and have_n:
            out += [("n_boot_is_a_positive_int", n_ok), ("every_quantile_is_a_float_strictly_between_0_and_1", q_ok),
                    ("resampling_uses_the_point_estimates_data_functions_names_seed_and_n_boot",
                     BoolVal(g is not None and g.get("n_samples") is self.nb and g.get("random_state") is self.a["random_state"] and g.get("data") is self.a["all_data"]
                             and g.get("annotated_functions") is self.a["annotated_funcs"] and g.get("sensitive_feature_names") is st.env["self"].fields["_sf_names"]
                             and g.get("control_feature_names") is st.env["self"].fields["_cf_names"])),
                    ("intervals_computed_from_those_samples_at_the_requested_quantiles", BoolVal(p is not None and len(p) == 2 and isinstance(p[0], Abstract) and p[0].tag == "samples" and p[1] is st.ghost["callers_quantiles"])),
                    ("reported_quantile_list_is_the_callers_list_in_the_callers_order", BoolVal(st.env["self"].fields.get("_ci_quantiles") is st.ghost["callers_quantiles"]))]
        else:
            out.append(("no_resampling_without_bootstrap_arguments", BoolVal(g is None)))
        return out


# ------------------------------------------------------------------------------------------------ quantiles over the resamples
ENTRY = Function("quantile_frame", IntSort(), IntSort())          # i -> the frame built for the i-th requested quantile (wiring checked where it is built)
QN = Int("n_quantiles")


class Quantiles(Contract):
    """_calc_dataframe_quantiles / _calc_series_quantiles (wiring against the numpy contract): the by-group samples are first aligned to the union of their
    indices (a group missing from a resample becomes a NaN row); the quantiles are taken over the resamples (axis 0) with the caller's quantile list by a
    function that IGNORES those NaN rows (np.nanquantile) - np.quantile would turn every group that is missing from a single resample into NaN; entry i of
    the result is quantile i with the columns/name and index of the (aligned) samples.  The sanity-check loop of asserts is dropped (asserts only)."""
    source = BS

    def __init__(self, kind):
        self.kind = kind
        self.function = "_calc_dataframe_quantiles" if kind == "frame" else "_calc_series_quantiles"

    def body(self, fn):
        return [s for s in fn.body if not (isinstance(s, __import__("ast").For) and all(isinstance(x, __import__("ast").Assert) for x in s.body))]

    def params(self, eng, st):
        self.samples, self.q = Abstract("samples", aligned=False), Abstract("quantiles")
        st.assume(QN >= 1)
        st.env.update({"samples": self.samples, "quantiles": self.q})

    def on_call(self, eng, st, node, name, recv, args, kwargs):
        if name == "_align_sample_indices":
            eng.oblige(st, "the_callers_samples_are_aligned", BoolVal(len(args) == 1 and args[0] is self.samples), "wiring", node)
            return Abstract("samples", aligned=True)
        if name in ("numpy.nanquantile", "numpy.quantile", "numpy.percentile", "numpy.nanpercentile"):
            return Abstract("qarray", fn=name, of=args[0] if args else None, q=kwargs.get("q", args[1] if len(args) > 1 else None), axis=kwargs.get("axis", args[2] if len(args) > 2 else None))
        if name == "len" and args[0] is self.q:
            return QN
        if name in ("pandas.DataFrame", "pandas.Series"):
            d = kwargs.get("data")
            first = lambda v, attr: isinstance(v, Abstract) and v.tag == "first_sample_attr" and v.attr == attr
            ok = isinstance(d, Abstract) and d.tag == "qslice" and is_z3(st.env.get("i")) and d.i.eq(st.env["i"]) and first(kwargs.get("index"), "index") \
                and (first(kwargs.get("columns"), "columns") if self.kind == "frame" else first(kwargs.get("name"), "name"))
            eng.oblige(st, "entry_i_is_quantile_i_with_the_labels_of_the_samples", BoolVal(bool(ok)), "wiring", node)
            return ENTRY(d.i) if ok else Abstract("other_frame")
        return NotImplemented

    def on_subscript(self, eng, st, node, base, index):
        if isinstance(base, Abstract) and base.tag == "samples" and index == 0:
            return Abstract("first_sample", aligned=base.aligned)
        if isinstance(base, Abstract) and base.tag == "qarray" and isinstance(index, tuple) and is_z3(index[0]):
            return Abstract("qslice", i=index[0], of=base)
        return NotImplemented

    def on_attr(self, eng, st, node, base, attr):
        if isinstance(base, Abstract) and base.tag == "first_sample" and attr in ("index", "columns", "name"):
            return Abstract("first_sample_attr", attr=attr, aligned=base.aligned)
        if isinstance(base, Abstract) and base.tag == "qarray" and attr == "shape":
            return (QN, Int("n_groups"), Int("n_metrics")) if self.kind == "frame" else (QN, Int("n_groups"))
        return NotImplemented

    @staticmethod
    def _prep(st):
        r = st.env.get("result")
        if isinstance(r, PyList) and not r.items:
            st.env["result"] = SymSeq(K(IntSort(), IntVal(0)), IntVal(0))

    def inv(self, st):
        r, i = st.env["result"], st.env["$k1"]
        return [("i_range", And(0 <= i, i <= QN)), ("one_entry_per_quantile_so_far", r.n == i),
                ("kth_entry_is_the_kth_quantile", ForAll([k_], Implies(And(0 <= k_, k_ < r.n), r.raw(k_) == ENTRY(k_)), patterns=[Select(r.arr, k_)]))]

    def havoc_abstract(self, eng, st, name, v):
        return v

    def loops(self):
        return {1: LoopSpec(self.inv, prepare=self._prep)}          # loop ordinal 1: the result loop (ordinal 0, the sanity-check loop, is dropped)

    def post(self, eng, st, status, value):
        if status != "return":
            return [("raises_only_from_the_quantile_function", BoolVal(status == "raise" and getattr(value, "typ", "") in ("ValueError", "AssertionError")))]
        qa = st.env.get("result_np")
        ok = isinstance(qa, Abstract) and qa.tag == "qarray"
        out = [("quantiles_of_the_callers_list_over_the_resamples", BoolVal(ok and qa.q is self.q and qa.axis == 0 and isinstance(qa.of, Abstract) and qa.of.tag == "samples"
                                                                            and (qa.of.aligned or self.kind == "series")))]
        if self.kind == "frame":
            out.append(("groups_missing_from_a_resample_are_ignored_not_propagated_as_NaN", BoolVal(ok and qa.fn in ("numpy.nanquantile",))))
        if not isinstance(value, SymSeq):
            return out + [("returns_the_list_of_quantile_frames", BoolVal(False))]
        return out + [("one_entry_per_requested_quantile", value.n == QN),
                      ("entry_k_is_quantile_k", ForAll([k_], Implies(And(0 <= k_, k_ < value.n), value.raw(k_) == ENTRY(k_))))]
