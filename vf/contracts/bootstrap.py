"""Contracts of the bootstrap resampling (C18): call-site conformance to DataFrame.sample and seed-stream purity.

generate_single_bootstrap_sample: the only resampling call is data.sample(frac=1, replace=True, random_state=<the given seed>, axis=0,
  ignore_index=True) and its result is what DisaggregatedResult.create evaluates, with the same functions and feature names.  Under the pandas
  contract (assumed) each resample has exactly n rows, each a row of `data`, and is a function of (data, seed).
generate_bootstrap_samples: for an int seed the per-sample seeds are rs[i] = default_rng(seed).integers(...)[i] (a function of the seed and i,
  numpy contract assumed); the loop produces exactly n_samples results, the i-th from rs[i] with the caller's data / functions / feature names.
  Hence equal integer random_state => equal results (reproducibility), and one result per requested sample.
"""
import z3
from z3 import And, BoolVal, ForAll, Function, Implies, Int, IntSort, IntVal, K, Select

from ..pyvc.core import Abstract, Contract, LoopSpec, Obj, PyList, SymSeq, Unsupported, is_z3

BS = "fairlearn/metrics/_bootstrap.py"
RSF = Function("seed_stream", IntSort(), IntSort(), IntSort())          # (int seed, i) -> i-th derived seed
SINGLE = Function("single_bootstrap_result", IntSort(), IntSort())       # derived seed -> result token (function of (data, seed))
k_ = Int("k")


class SingleSample(Contract):
    source, function = BS, "generate_single_bootstrap_sample"

    def params(self, eng, st):
        self.a = {k: Abstract("arg", name=k) for k in ("data", "annotated_functions", "sensitive_feature_names", "control_feature_names")}
        self.seed = Int("random_state")
        st.env.update(self.a)
        st.env["random_state"] = self.seed
        self.sample_kw, self.create_kw = None, None

    def on_call(self, eng, st, node, name, recv, args, kwargs):
        if name == "sample" and recv is self.a["data"]:
            self.sample_kw = (list(args), dict(kwargs))
            return Abstract("resampled")
        if name == "create" or name.endswith("DisaggregatedResult.create"):
            self.create_kw = dict(kwargs)
            return Abstract("result")
        return NotImplemented

    def on_attr(self, eng, st, node, base, attr):
        if isinstance(base, Abstract) and base.tag == "class" and attr == "create":
            return Abstract("libfunc", name="DisaggregatedResult.create")
        return NotImplemented

    def post(self, eng, st, status, value):
        if status == "raise":
            return [("raises_only_without_a_seed", BoolVal(False))]
        if self.sample_kw is None or self.create_kw is None:
            return [("resamples_and_evaluates", BoolVal(False))]
        pa, kw = self.sample_kw
        ck = self.create_kw
        return [("resample_has_all_n_rows_drawn_with_replacement", BoolVal(not pa and kw.get("frac") == 1 and kw.get("replace") is True and "n" not in kw)),
                ("resample_is_driven_by_the_given_seed", BoolVal(kw.get("random_state") is self.seed)),
                ("rows_are_resampled_and_renumbered", BoolVal(kw.get("axis", 0) == 0 and kw.get("ignore_index") is True)),
                ("metrics_are_evaluated_on_the_resample", BoolVal(isinstance(ck.get("data"), Abstract) and ck["data"].tag == "resampled")),
                ("same_functions_and_feature_names", BoolVal(all(ck.get(k) is self.a[k] for k in ("annotated_functions", "sensitive_feature_names", "control_feature_names")))),
                ("returns_the_evaluation", BoolVal(isinstance(value, Abstract) and value.tag == "result"))]


class ManySamples(Contract):
    source, function = BS, "generate_bootstrap_samples"
    prune = False

    def params(self, eng, st):
        self.a = {k: Abstract("arg", name=k) for k in ("data", "annotated_functions", "sensitive_feature_names", "control_feature_names")}
        self.seed, self.n = Int("random_state"), Int("n_samples")
        st.env.update(self.a)
        st.env.update({"random_state": self.seed, "n_samples": self.n})

    def on_call(self, eng, st, node, name, recv, args, kwargs):
        if name == "numpy.random.default_rng":
            s = kwargs.get("seed", args[0] if args else None)
            return Abstract("gen", seed=s)
        if name == "numpy.iinfo":
            return Obj("iinfo", {"max": 2 ** 32 - 1, "min": 0})
        if name == "integers" and isinstance(recv, Abstract) and recv.tag == "gen":
            eng.oblige(st, "one_derived_seed_per_sample", BoolVal(kwargs.get("size") is self.n), "wiring", node)
            return Abstract("rs", seed=recv.seed)
        if name == "isinstance" and args[0] is self.seed:
            return args[1] == ["int"]
        if name == "generate_single_bootstrap_sample":
            ok = all(kwargs.get(k) is self.a[k] for k in self.a)
            eng.oblige(st, "each_sample_uses_the_callers_data_functions_and_feature_names", BoolVal(ok), "wiring", node)
            rs = kwargs.get("random_state")
            if not is_z3(rs):
                raise Unsupported("seed of a single sample")
            return SINGLE(rs)
        return NotImplemented

    def on_subscript(self, eng, st, node, base, index):
        if isinstance(base, Abstract) and base.tag == "rs":
            if base.seed is None:
                raise Unsupported("unseeded stream")
            return RSF(base.seed, index)
        return NotImplemented

    @staticmethod
    def _prep(st):
        r = st.env.get("result")
        if isinstance(r, PyList) and not r.items:
            st.env["result"] = SymSeq(K(IntSort(), IntVal(0)), IntVal(0))

    def inv(self, st):
        r, i = st.env["result"], st.env["$k0"]
        return [("i_range", And(0 <= i, i <= self.n)), ("one_result_per_iteration", r.n == i),
                ("kth_result_comes_from_the_kth_derived_seed", ForAll([k_], Implies(And(0 <= k_, k_ < r.n), r.raw(k_) == SINGLE(RSF(self.seed, k_))), patterns=[Select(r.arr, k_)]))]

    def loops(self):
        return {0: LoopSpec(self.inv, prepare=self._prep)}

    def post(self, eng, st, status, value):
        if status == "raise":
            return [("raises_only_for_a_non_positive_sample_count", self.n < 1)]
        if not isinstance(value, SymSeq):
            return [("returns_the_list_of_samples", BoolVal(False))]
        return [("returns_only_for_a_positive_sample_count", self.n >= 1), ("exactly_n_samples", value.n == self.n),
                ("sample_k_is_a_function_of_the_integer_seed_and_k", ForAll([k_], Implies(And(0 <= k_, k_ < value.n), value.raw(k_) == SINGLE(RSF(self.seed, k_)))))]


class BootstrapArguments(Contract):
    """The bootstrap part of MetricFrame.__init__ (from `self._ci_quantiles = ci_quantiles` to the end): argument validation (C20/C18) and the wiring of the
    resampling call (same data frame, annotated functions, feature names and the caller's random_state / n_boot as the point estimates)."""
    source, function = "fairlearn/metrics/_metric_frame.py", "MetricFrame.__init__"

    def __init__(self, n_boot_kind, ci_kind):
        self.nk, self.ck = n_boot_kind, ci_kind
        self.variant = f"[n_boot:{n_boot_kind},ci:{ci_kind}]"

    def body(self, fn):
        import ast
        for idx, s in enumerate(fn.body):
            if isinstance(s, ast.Assign) and ast.unparse(s.targets[0]) == "self._ci_quantiles":
                return fn.body[idx:]
        raise Unsupported("start of the bootstrap block not found")

    def params(self, eng, st):
        from ..pyvc.core import PyList
        self.nb = {"none": None, "int": Int("n_boot"), "float": z3.Real("n_boot_f")}[self.nk]
        qs = {"none": None, "empty": [], "one": [z3.Real("q0")], "two": [z3.Real("q0"), z3.Real("q1")], "int_entry": [z3.Real("q0"), Int("qi")]}[self.ck]
        self.qs = qs
        self.ci = None if qs is None else PyList(qs)
        self.a = {"all_data": Abstract("all_data"), "annotated_funcs": Abstract("funcs"), "random_state": Abstract("rs")}
        st.env.update(self.a)
        st.env.update({"self": Obj("MetricFrame", {"_sf_names": Abstract("sfn"), "_cf_names": Abstract("cfn")}), "n_boot": self.nb, "ci_quantiles": self.ci})
        self.gen = None
        self.pop = None

    def on_call(self, eng, st, node, name, recv, args, kwargs):
        if name == "generate_bootstrap_samples":
            st.ghost["gen"] = dict(kwargs)
            return Abstract("samples")
        if name == "_populate_results_ci":
            st.ghost["pop"] = list(args)
            return None
        if name == "str":
            return "x"
        return NotImplemented

    def post(self, eng, st, status, value):
        q_ok = BoolVal(True)
        if self.qs:
            q_ok = And(*[And(q > 0, q < 1) if z3.is_real(q) else BoolVal(False) for q in self.qs])
        have_ci = bool(self.qs)
        have_n = self.nb is not None
        n_ok = (self.nb >= 1) if self.nk == "int" else BoolVal(False)
        if status == "raise":
            bad = BoolVal(have_ci != have_n) if not (have_ci and have_n) else z3.Not(And(n_ok, q_ok))
            return [("raises_only_for_invalid_bootstrap_arguments", bad), ("raises_ValueError", BoolVal(value.typ == "ValueError"))]
        out = [("both_or_neither_bootstrap_argument", BoolVal(have_ci == have_n))]
        g, p = st.ghost.get("gen"), st.ghost.get("pop")
        if have_ci and have_n:
            out += [("n_boot_is_a_positive_int", n_ok), ("every_quantile_is_a_float_strictly_between_0_and_1", q_ok),
                    ("resampling_uses_the_point_estimates_data_functions_names_seed_and_n_boot",
                     BoolVal(g is not None and g.get("n_samples") is self.nb and g.get("random_state") is self.a["random_state"] and g.get("data") is self.a["all_data"]
                             and g.get("annotated_functions") is self.a["annotated_funcs"] and g.get("sensitive_feature_names") is st.env["self"].fields["_sf_names"]
                             and g.get("control_feature_names") is st.env["self"].fields["_cf_names"])),
                    ("intervals_computed_from_those_samples_at_the_requested_quantiles", BoolVal(p is not None and len(p) == 2 and isinstance(p[0], Abstract) and p[0].tag == "samples" and p[1] is st.env["ci_quantiles"]))]
        else:
            out.append(("no_resampling_without_bootstrap_arguments", BoolVal(g is None)))
        return out
