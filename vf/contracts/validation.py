"""Contract of fairlearn/utils/_input_validation.py::_validate_and_reformat_input (C20 'normal return => valid', C12 provenance, C13 wiring).

Variants enumerate the ranks of y / sensitive_features / control_features (None, 1-d, 2-d, 3-d for y); the three flags and every dimension
are symbolic.  Library contracts (assumed): see ndmodel.py.

Postcondition on normal return (from property C20): lengths agree (len(y) == rows(X) when y is used; sensitive/control features have
rows(X) entries), labels are within {0,1} when enforce_binary_labels, a sensitive feature is present when expected; (C13) more than one
column => the columns went through _merge_columns, exactly one column => not merged; (C12) every returned pandas object has a default
index (built from a label-free array).
"""
import z3
from z3 import And, Bool, BoolVal, Implies, Int, Not, Or

from ..pyvc.core import Abstract, PyDict, PyRaise, Exc, Unsupported, is_z3, lift
from .ndmodel import Nd, NdContract, is_nd, same_dim, size_of

IV = "fairlearn/utils/_input_validation.py"
n = Int("rows_X")


class ValidateAndReformat(NdContract):
    source, function = IV, "_validate_and_reformat_input"

    def __init__(self, y_rank, sf_rank, cf_rank):
        self.y_rank, self.sf_rank, self.cf_rank = y_rank, sf_rank, cf_rank
        self.variant = f"[y:{y_rank},sf:{sf_rank},cf:{cf_rank}]"

    def _arr(self, name, rank, kind="user"):
        if rank is None:
            return None
        dims = tuple(Int(f"{name}_d{k}") for k in range(rank))
        return Nd(name, dims, kind, "USER")

    def params(self, eng, st):
        self.X = Nd("X", (n, Int("cols_X")), "user", "USER")
        self.y = self._arr("y", self.y_rank)
        self.sf = self._arr("sf", self.sf_rank)
        self.cf = self._arr("cf", self.cf_rank)
        self.flags = {k: Bool(k) for k in ("expect_y", "expect_sensitive_features", "enforce_binary_labels")}
        self.X_is_df = Bool("X_is_DataFrame")
        kw = {}
        if self.sf is not None:
            kw["sensitive_features"] = self.sf
        if self.cf is not None:
            kw["control_features"] = self.cf
        st.env.update({"X": self.X, "y": self.y, "kwargs": PyDict(kw), **self.flags})
        for a in (self.X, self.y, self.sf, self.cf):
            if a is not None:
                st.assume(*[d >= 0 for d in a.shape])

    def on_call(self, eng, st, node, name, recv, args, kwargs):
        if name == "isinstance" and args[0] is self.X and args[1] in (["pd.DataFrame"], ["pandas.DataFrame"]):
            return self.X_is_df
        if name == "isinstance" and is_nd(args[0]) and args[0].kind == "user" and args[0] is not self.X and args[1] in (["pd.DataFrame"], ["pandas.DataFrame"], ["pd.Series"], ["pandas.Series"]):
            # the caller's container type is not fixed: a 2-d argument may be a DataFrame, a 1-d one a Series (both carry the caller's row labels)
            return Bool(f"{args[0].name}_is_a_{'DataFrame' if 'DataFrame' in args[1][0] else 'Series'}") if len(args[0].shape) == (2 if "DataFrame" in args[1][0] else 1) else False
        if name == "_merge_columns" and is_nd(args[0]):
            a = args[0]
            return Nd(a.name, (a.shape[0],), "ndarray", "ERASED", merged=True, cols=a.shape[1] if len(a.shape) > 1 else 1)
        if name == "str" and args and args[0] is None:
            return "None"
        if name == "str" and args and isinstance(args[0], tuple):
            return z3.String("str(shape)")
        return super().on_call(eng, st, node, name, recv, args, kwargs)

    def on_attr(self, eng, st, node, base, attr):
        if is_nd(base) and base.kind == "user" and attr in ("index", "columns"):
            return Abstract("callers_labels", of=base.name, which=attr)
        return super().on_attr(eng, st, node, base, attr)

    def _series_ok(self, v, src):
        return is_nd(v) and v.kind == "series" and v.prov == "DEFAULT"

    def post(self, eng, st, status, value):
        f = self.flags
        if status == "raise":
            return [("raises_ValueError", BoolVal(value.typ in ("ValueError", "TypeError")))]
        if not (isinstance(value, tuple) and len(value) == 4):
            return [("returns_four_values", BoolVal(False))]
        rX, ry, rsf, rcf = value
        out = []
        # ---- C20
        if self.y is None:
            out.append(("missing_y_rejected_when_expected", Not(f["expect_y"])))
        elif self.y_rank == 3:
            out.append(("y_of_rank_3_rejected_when_expected", Not(f["expect_y"])))
        if self.y is not None:
            ylen_ok = is_nd(ry) and len(ry.shape) == 1
            out.append(("y_is_returned_as_1d", BoolVal(ylen_ok)))
            if ylen_ok:
                out.append(("len_y_equals_rows_X", lift(ry.shape[0]) == n))
                out.append(("y_column_vector_only", BoolVal(True) if self.y_rank == 1 else Implies(f["expect_y"], self.y.shape[1] == 1) if self.y_rank == 2 else BoolVal(True)))
            out.append(("binary_labels_enforced", Implies(And(f["expect_y"], f["enforce_binary_labels"]), Bool("all_values_binary(y)"))))
        if self.sf is None:
            out.append(("missing_sensitive_feature_rejected_when_expected", Not(f["expect_sensitive_features"])))
            out.append(("no_sensitive_feature_returned", BoolVal(rsf is None)))
        for nm, src, res in (("sensitive_features", self.sf, rsf), ("control_features", self.cf, rcf)):
            if src is None:
                continue
            ok = is_nd(res) and len(res.shape) == 1
            out.append((f"{nm}_returned_as_1d", BoolVal(ok)))
            if not ok:
                continue
            out.append((f"{nm}_has_rows_X_entries", lift(res.shape[0]) == n))
            merged = bool(getattr(res, "merged", False))
            if len(src.shape) == 2:      # (C13) merged iff more than one column
                out.append((f"{nm}_merged_iff_several_columns", (src.shape[1] > 1) == BoolVal(merged)))
            else:
                out.append((f"{nm}_single_column_not_merged", BoolVal(not merged)))
            # ---- C12: label-free
            out.append((f"{nm}_has_default_index", BoolVal(self._series_ok(res, src))))
        if self.y is not None:
            out.append(("y_has_default_index", Implies(f["expect_y"], BoolVal(self._series_ok(ry, self.y)))))   # expect_y=False: y is documented as ignored
        out.append(("X_is_label_free_or_default_frame", BoolVal(is_nd(rX) and rX.prov in ("ERASED", "DEFAULT"))))
        return out
