"""Contracts for ExponentiatedGradient (C08): _Lagrangian._eval, _Lagrangian.eval_gap, and the iteration/selection logic of
ExponentiatedGradient.fit (whole method; vectors are opaque, the gap bookkeeping is exact).

_eval(Q, lambda): with lambda' = project_lambda(lambda) when opt_lambda (else lambda):  L = error + sum(lambda' * (gamma - bound)),
   L_high = error + B*max(0, max(gamma - bound)); returns (L, L_high, gamma, error).
eval_gap(Q, lambda_hat, nu): result.L / L_high are _eval(Q, lambda_hat); result.L_low = min(L, min over the multipliers tried of the Lagrangian of
   best_h(mul*lambda_hat) at lambda_hat); mul = 1 is always tried.
fit: ghost view of the lists gaps / Qs / gaps_EG.  For every iteration t: gaps[t] = min(gap_EG(t), gap_LP(t)) (gap_LP = +inf at t = 0 or without the LP
   step) and Qs[t] is the distribution that gap was computed for, both evaluated at the caller's nu; `break` only when gaps[t] < nu and t >= _MIN_ITER;
   afterwards best_iter_ is the last index with gaps <= min(gaps) + _PRECISION, best_gap_ = gaps[best_iter_], weights_ = Qs[best_iter_].
   Consequence (property C08): stopping before max_iter iterations implies best_gap_ < nu + _PRECISION.
"""
import ast

import z3
from z3 import And, Bool, BoolVal, ForAll, Function, If, Implies, Int, IntSort, IntVal, K as ConstArray, Not, Or, Real, RealSort, Select

from ..pyvc.core import Abstract, Contract, Ext, IterSpec, LoopSpec, Obj, PyList, SymSeq, Unsupported, fresh, is_z3, to_real

LG = "fairlearn/reductions/_exponentiated_gradient/_lagrangian.py"
EG = "fairlearn/reductions/_exponentiated_gradient/exponentiated_gradient.py"


def vec(name, **kw):
    return Abstract("vec", name=name, **kw)


class _VecMixin(Contract):
    """opaque vector arithmetic: every operation on a vector yields a vector tagged with its operands"""

    def on_binop(self, eng, st, node, op, a, b):
        if (isinstance(a, Abstract) and a.tag == "vec") or (isinstance(b, Abstract) and b.tag == "vec"):
            return vec("expr", op=op, a=a, b=b)
        return NotImplemented


class Eval(_VecMixin):
    source, function = LG, "_Lagrangian._eval"

    def __init__(self, q_callable):
        self.q_callable = q_callable
        self.variant = "[Q callable]" if q_callable else "[Q weights]"

    def params(self, eng, st):
        self.opt, self.B, self.err, self.maxc, self.sumterm = Bool("opt_lambda"), Real("B"), Real("error"), Real("max_constraint"), Real("sum_lambda_times_violation")
        self.lam, self.Q = vec("lambda_vec"), (Abstract("predictor") if self.q_callable else Abstract("Qweights"))
        self.cons, self.obj = Abstract("constraints"), Abstract("objective")
        st.env.update({"self": Obj("_Lagrangian", {"obj": self.obj, "constraints": self.cons, "opt_lambda": self.opt, "B": self.B,
                                                   "errors": Abstract("errors"), "gammas": Abstract("gammas")}), "Q": self.Q, "lambda_vec": self.lam})
        st.assume(self.B > 0)

    def on_call(self, eng, st, node, name, recv, args, kwargs):
        if name == "callable":
            return self.q_callable
        if name == "gamma" and recv is self.obj and args[0] is self.Q:
            return Abstract("objgamma")
        if name == "gamma" and recv is self.cons and args[0] is self.Q:
            return vec("gamma", how="constraints.gamma(Q)")
        if name == "dot" and isinstance(recv, Abstract) and recv.tag == "selected" and args[0] is self.Q:
            return self.err if recv.of == "errors" else vec("gamma", how="gammas[Q.index].dot(Q)")
        if name == "project_lambda" and recv is self.cons:
            return vec("projected", of=args[0])
        if name == "bound" and recv is self.cons:
            return vec("bound")
        if name == "numpy.sum" and isinstance(args[0], Abstract) and args[0].tag == "vec":
            st.ghost["summed"] = args[0]
            return self.sumterm
        if name == "max" and isinstance(recv, Abstract) and recv.tag == "vec":
            st.ghost["maxed"] = recv
            return self.maxc
        return NotImplemented

    def on_attr(self, eng, st, node, base, attr):
        if isinstance(base, Abstract) and base.tag == "objgamma" and attr == "iloc":
            return Abstract("objgamma_iloc")
        if base is self.Q and attr == "index":
            return Abstract("Qindex")
        return NotImplemented

    def on_subscript(self, eng, st, node, base, index):
        if isinstance(base, Abstract) and base.tag == "objgamma_iloc" and index == 0:
            return self.err
        if isinstance(base, Abstract) and base.tag in ("errors", "gammas") and isinstance(index, Abstract) and index.tag == "Qindex":
            return Abstract("selected", of=base.tag)
        return NotImplemented

    def post(self, eng, st, status, value):
        if status != "return" or not (isinstance(value, tuple) and len(value) == 4):
            return [("returns_L_Lhigh_gamma_error", BoolVal(False))]
        L, Lh, gamma, err = value

        def is_violation(v, lam_ok):
            # v = lam * (gamma - bound)
            if not (isinstance(v, Abstract) and v.tag == "vec" and getattr(v, "op", None) == "Mult"):
                return False
            d = v.b
            return lam_ok(v.a) and isinstance(d, Abstract) and getattr(d, "op", None) == "Sub" and d.a is gamma and getattr(d.b, "name", "") == "bound"
        proj = lambda x: isinstance(x, Abstract) and getattr(x, "name", "") == "projected" and x.of is self.lam
        raw = lambda x: x is self.lam
        s = st.ghost.get("summed")
        mx = st.ghost.get("maxed")
        return [("gamma_is_the_constraint_vector_of_Q", BoolVal(isinstance(gamma, Abstract) and getattr(gamma, "name", "") == "gamma")),
                ("error_is_the_objective_of_Q", BoolVal(err is self.err)),
                ("L_is_error_plus_lambda_dot_violation", to_real(L) == self.err + self.sumterm),
                ("lambda_is_projected_iff_opt_lambda", If(self.opt, BoolVal(is_violation(s, proj)), BoolVal(is_violation(s, raw)))),
                ("max_constraint_is_the_largest_violation", BoolVal(isinstance(mx, Abstract) and getattr(mx, "op", None) == "Sub" and mx.a is gamma and getattr(mx.b, "name", "") == "bound")),
                ("L_high_is_error_plus_B_times_positive_part_of_the_largest_violation", to_real(Lh) == self.err + If(self.maxc > 0, self.B * self.maxc, 0))]


class EvalGap(_VecMixin):
    source, function = LG, "_Lagrangian.eval_gap"

    def params(self, eng, st):
        self.L0, self.LH0, self.nu = Real("L"), Real("L_high"), Real("nu")
        self.LLOW = Function("lagrangian_of_best_response", z3.RealSort(), RealSort())     # multiplier -> L(h_mul, lambda_hat)
        self.lam, self.Q = vec("lambda_hat"), Abstract("Q")
        st.env.update({"self": Obj("_Lagrangian"), "Q": self.Q, "lambda_hat": self.lam, "nu": self.nu})
        self.tried = []

    def on_call(self, eng, st, node, name, recv, args, kwargs):
        if name == "_eval" and isinstance(recv, Obj):
            if args[0] is self.Q:
                eng.oblige(st, "gap_of_Q_at_lambda_hat", BoolVal(args[1] is self.lam), "wiring", node)
                return (self.L0, self.LH0, vec("gamma"), Real("error"))
            if isinstance(args[0], Abstract) and args[0].tag == "unit_Q":
                eng.oblige(st, "best_response_evaluated_at_lambda_hat", BoolVal(args[1] is self.lam), "wiring", node)
                return (self.LLOW(args[0].mul), Real("lh_"), vec("g_"), Real("e_"))
            raise Unsupported("_eval of something else")
        if name == "_GapResult":
            return Obj("_GapResult", {"L": args[0], "L_low": args[1], "L_high": args[2], "gamma": args[3], "error": args[4]})
        if name == "best_h" and isinstance(recv, Obj):
            v = args[0]
            ok = isinstance(v, Abstract) and v.tag == "vec" and getattr(v, "op", None) == "Mult" and (v.b is self.lam or v.a is self.lam)
            eng.oblige(st, "best_response_to_a_multiple_of_lambda_hat", BoolVal(bool(ok)), "wiring", node)
            mul = v.a if v.b is self.lam else v.b
            idx = fresh("h_idx")
            self.tried.append(mul)
            return (Abstract("h"), Abstract("hidx", idx=idx, mul=to_real(mul)))
        if name == "pandas.Series" and args and hasattr(args[0], "d") and len(args[0].d) == 1:
            (k, v), = args[0].d.items()
            if isinstance(k, Abstract) and k.tag == "hidx" and v == 1.0:
                return Abstract("unit_Q", mul=k.mul)
            raise Unsupported("unit distribution of something else")
        if name == "gap" and isinstance(recv, Obj) and recv.cls == "_GapResult":
            f = recv.fields
            a, b = to_real(f["L"]) - to_real(f["L_low"]), to_real(f["L_high"]) - to_real(f["L"])
            return If(a > b, a, b)            # contract of _GapResult.gap (proved separately)
        return NotImplemented

    def post(self, eng, st, status, value):
        if status != "return" or not isinstance(value, Obj):
            return [("returns_a_gap_result", BoolVal(False))]
        f = value.fields
        low = to_real(f["L_low"])
        one = z3.RealVal(1)
        return [("L_and_L_high_are_those_of_Q", And(to_real(f["L"]) == self.L0, to_real(f["L_high"]) == self.LH0)),
                ("L_low_at_most_L", low <= self.L0),
                ("L_low_at_most_the_best_response_to_lambda_hat_itself", low <= self.LLOW(one)),
                ("L_low_is_attained", Or(low == self.L0, *[low == self.LLOW(z3.RealVal(m)) for m in (1, 2, 5, 10)]))]


GAPEG, GAPLP = Function("gap_EG", IntSort(), RealSort()), Function("gap_LP", IntSort(), RealSort())
k_ = Int("k")


class FitLoop(_VecMixin):
    source, function = EG, "ExponentiatedGradient.fit"
    prune = False

    def on_binop(self, eng, st, node, op, a, b):
        if op == "Div" and a is st.env.get("Qsum") and "$k0" in st.env:
            return Abstract("Q", which="EG", t=st.env["$k0"])         # the normalised running sum = the averaged iterate of iteration t
        return super().on_binop(eng, st, node, op, a, b)

    def __init__(self, run_lp):
        self.run_lp = run_lp
        self.variant = f"[run_linprog_step={run_lp}]"

    def droppable(self, s):
        return isinstance(s, ast.Expr) and isinstance(s.value, ast.Call) and ast.unparse(s.value.func).startswith("logger.")

    def params(self, eng, st):
        self.nu, self.MI, self.eps = Real("nu"), Int("max_iter"), Real("eps")
        st.assume(self.MI >= 1, self.eps > 0, self.nu >= 0)          # a requested threshold (any non-negative number, 0 = never stop early)
        self.lag = Abstract("lagrangian")
        st.env.update({"self": Obj("ExponentiatedGradient", {"eps": self.eps, "nu": self.nu, "max_iter": self.MI, "eta0": Real("eta0"), "run_linprog_step": self.run_lp,
                                                             "estimator": Abstract("est"), "constraints": Abstract("cons"), "objective": Abstract("obj"),
                                                             "sample_weight_name": "sample_weight"}),
                       "X": Abstract("X"), "y": Abstract("y"), "kwargs": Abstract("kw")})
        st.ghost["broke"] = BoolVal(False)

    # ---- opaque pandas/numpy plumbing
    def on_call(self, eng, st, node, name, recv, args, kwargs):
        if name == "pandas.DataFrame" and not args:
            return Abstract("frame")
        if name == "_Lagrangian":
            return self.lag
        if name == "pandas.Series":
            if args and isinstance(args[0], SymSeq):
                return Abstract("gaps_series", seq=args[0])
            return vec("series")
        if name in ("numpy.exp",):
            return vec("exp")
        if name in ("sum", "std") and isinstance(recv, Abstract) and recv.tag == "vec":
            return fresh("scalar", RealSort())
        if name in ("mean", "abs", "copy") and isinstance(recv, Abstract) and recv.tag in ("vec", "frame"):
            return vec(name)
        if name == "numpy.sqrt":
            r = fresh("sqrt", RealSort())
            st.assume(r > 0)
            return r
        if name == "best_h" and recv is self.lag:
            return (Abstract("h"), fresh("h_idx"))
        if name == "$call" and isinstance(recv, Abstract) and recv.tag == "h":
            return vec("h(X)")
        if name == "eval_gap" and recv is self.lag:
            t = st.env["$k0"]
            eng.oblige(st, "gap_of_the_average_iterate_at_the_callers_nu", BoolVal(len(args) == 3 and args[2] is st.env["self"].fields["nu"]), "wiring", node)
            return Abstract("gapres", which="EG", t=t, Q=args[0])
        if name == "solve_linprog" and recv is self.lag:
            t = st.env["$k0"]
            eng.oblige(st, "linprog_step_at_the_callers_nu", BoolVal(len(args) == 1 and args[0] is st.env["self"].fields["nu"]), "wiring", node)
            return (Abstract("Q", which="LP", t=t), vec("lambda_LP"), Abstract("gapres", which="LP", t=t, Q=None))
        if name == "gap" and isinstance(recv, Abstract) and recv.tag == "gapres":
            return GAPEG(recv.t) if recv.which == "EG" else GAPLP(recv.t)
        if name == "bound":
            return vec("bound")
        if name == "append" and isinstance(recv, SymSeq) and recv.tag == "Qs":
            q = args[0]
            if not (isinstance(q, Abstract) and q.tag == "Q"):
                raise Unsupported("Qs.append of something else")
            recv.over.append((recv.n, 2 * q.t + (0 if q.which == "EG" else 1)))
            recv.n = recv.n + 1
            return None
        if name == "min" and len(args) == 1 and isinstance(args[0], SymSeq):
            s, mv, j = args[0], fresh("min_value", RealSort()), Int("jm")
            st.assume(ForAll([j], Implies(And(0 <= j, j < s.n), mv <= s.raw(j))))
            return mv
        if name == "min" and isinstance(recv, Abstract) and recv.tag == "gaps_series":
            s, mv, j, wit = recv.seq, fresh("min_gap", RealSort()), Int("jm"), fresh("min_witness")
            eng.oblige(st, "at_least_one_iteration_recorded", s.n >= 1, "bounds", node)
            st.assume(ForAll([j], Implies(And(0 <= j, j < s.n), mv <= s.raw(j))), 0 <= wit, wit < s.n, s.raw(wit) == mv)
            return mv
        if name == "len" and isinstance(args[0], SymSeq):
            return args[0].n
        return NotImplemented

    def on_attr(self, eng, st, node, base, attr):
        if is_z3(base) and attr in ("index", "at"):          # the distribution token stored in weights_ (padding with zeros is not tracked here)
            return Abstract("vecattr", of=base, name=attr)
        if base is self.lag:
            if attr in ("best_h", "eval_gap", "solve_linprog"):
                return NotImplemented
            return Abstract("lagfield", name=attr) if attr not in ("constraints",) else Abstract("cons")
        if isinstance(base, Abstract) and base.tag in ("vec", "cons", "lagfield", "selected_gaps") and attr in ("index", "at", "_y_as_series", "total_samples"):
            if attr == "total_samples":
                r = fresh("n", RealSort())
                st.assume(r > 0)
                return r
            if attr == "index" and base.tag == "selected_gaps":
                return Abstract("selected_index", of=base)
            return Abstract("vecattr", of=base, name=attr) if attr != "_y_as_series" else vec("y")
        return NotImplemented

    def on_compare(self, eng, st, node, op, a, b):
        if op in ("In", "NotIn") and isinstance(b, Abstract) and b.tag == "vecattr":
            return fresh("membership", z3.BoolSort())
        if op == "LtE" and isinstance(a, Abstract) and a.tag == "gaps_series":
            return Abstract("gaps_mask", of=a, thr=to_real(b))
        return NotImplemented

    def on_subscript(self, eng, st, node, base, index):
        if isinstance(base, Abstract) and base.tag in ("vec", "lagfield", "frame"):
            return fresh("cell", RealSort()) if base.tag == "vec" else vec("column")
        if isinstance(base, Abstract) and base.tag == "gaps_series" and isinstance(index, Abstract) and index.tag == "gaps_mask":
            return Abstract("selected_gaps", mask=index)
        if isinstance(base, Abstract) and base.tag == "selected_index" and index == -1:
            m = base.of.mask
            s, best, j = m.of.seq, fresh("best_iter"), Int("jb")
            # pandas: boolean-mask selection keeps order; the last selected label of a default index is the last position that satisfies the mask
            st.assume(0 <= best, best < s.n, s.raw(best) <= m.thr, ForAll([j], Implies(And(best < j, j < s.n), Not(s.raw(j) <= m.thr))))
            return best
        return NotImplemented

    def on_store_subscript(self, eng, st, node, base, index, value):
        if isinstance(base, Abstract) and base.tag in ("frame", "vec", "vecattr", "lagfield"):
            return True
        return NotImplemented

    def on_iter(self, eng, st, node, it):
        if isinstance(it, Abstract) and it.tag == "vecattr":
            return IterSpec(fresh("n_hs"), lambda kk: fresh("h_id"))
        return NotImplemented

    def havoc_abstract(self, eng, st, name, v):
        return v

    # ---- loop
    @staticmethod
    def _prep(st):
        for nm in ("gaps_EG", "gaps", "Qs"):
            v = st.env.get(nm)
            if isinstance(v, PyList):
                if v.items:
                    raise Unsupported(f"{nm} is expected to start empty")
                st.env[nm] = SymSeq(ConstArray(IntSort(), z3.RealVal(0) if nm != "Qs" else IntVal(0)), IntVal(0), unwrap=(to_real if nm != "Qs" else None), tag=nm)

    def recorded(self, st):
        gaps, Qs, gEG = st.env["gaps"], st.env["Qs"], st.env["gaps_EG"]
        lp = lambda t: And(BoolVal(self.run_lp), t != 0)
        chosen = lambda t: If(And(lp(t), Not(GAPEG(t) < GAPLP(t))), GAPLP(t), GAPEG(t))
        which = lambda t: If(And(lp(t), Not(GAPEG(t) < GAPLP(t))), 2 * t + 1, 2 * t)
        return [("gap_of_iteration_t_is_the_smaller_of_EG_and_LP", ForAll([k_], Implies(And(0 <= k_, k_ < gaps.n), gaps.raw(k_) == chosen(k_)), patterns=[Select(gaps.arr, k_)])),
                ("Q_of_iteration_t_is_the_one_whose_gap_is_recorded", ForAll([k_], Implies(And(0 <= k_, k_ < Qs.n), Qs.raw(k_) == which(k_)), patterns=[Select(Qs.arr, k_)])),
                ("EG_gaps_recorded", ForAll([k_], Implies(And(0 <= k_, k_ < gEG.n), gEG.raw(k_) == GAPEG(k_)), patterns=[Select(gEG.arr, k_)]))]

    def inv(self, st):
        t = st.env["$k0"]
        gaps, Qs, gEG = st.env["gaps"], st.env["Qs"], st.env["gaps_EG"]
        nu = to_real(st.env["self"].fields["nu"])
        return [("t_range", And(0 <= t, t <= self.MI)), ("one_record_per_iteration", And(gaps.n == t, Qs.n == t, gEG.n == t)),
                ("nu_is_the_callers_threshold", nu == self.nu),
                ("no_earlier_iteration_met_the_stopping_rule", ForAll([k_], Implies(And(0 <= k_, k_ < gaps.n), Not(And(gaps.raw(k_) < self.nu, k_ >= 5))), patterns=[Select(gaps.arr, k_)]))] + self.recorded(st)

    def inv_padding(self, st):
        f = st.env["self"].fields
        return [("padding_keeps_the_returned_distribution", f["weights_"] == st.env["Qs"].raw(f["best_iter_"]))]

    def loops(self):
        # eta is first assigned in iteration 0 and read in the later ones: an unconstrained real at the loop head
        return {0: LoopSpec(self.inv, prepare=self._prep, havoc_types={"eta": lambda st: fresh("eta", RealSort())}), 1: LoopSpec(self.inv_padding)}

    def post(self, eng, st, status, value):
        if status != "return":
            return [("no_exception", BoolVal(False))]
        f = st.env["self"].fields
        gaps, Qs = st.env["gaps"], st.env["Qs"]
        best, bg, w = f.get("best_iter_"), f.get("best_gap_"), f.get("weights_")
        if not (is_z3(best) and is_z3(bg) and is_z3(w)):
            return [("best_iter_best_gap_weights_are_set", BoolVal(False))]
        j = Int("jp")
        n = gaps.n
        stopped_early = n < self.MI
        return [("returns_self", BoolVal(value is st.env["self"])), ("at_least_one_iteration", n >= 1), ("one_Q_per_gap", Qs.n == n)] + self.recorded(st) + [
            ("best_gap_is_the_gap_of_the_returned_iteration", And(0 <= best, best < n, to_real(bg) == gaps.raw(best))),
            ("weights_are_the_distribution_of_the_returned_iteration", w == Qs.raw(best)),
            ("best_gap_within_precision_of_the_smallest_gap", ForAll([j], Implies(And(0 <= j, j < n), to_real(bg) <= gaps.raw(j) + z3.RealVal("1e-8") if False else to_real(bg) <= gaps.raw(j) + z3.Q(1, 100000000)))),
            ("later_iterations_are_worse_by_more_than_precision", ForAll([j], Implies(And(best < j, j < n), gaps.raw(j) > to_real(bg) - z3.Q(1, 100000000)))),
            ("stopping_early_certifies_convergence", Implies(stopped_early, to_real(bg) < self.nu + z3.Q(1, 100000000))),
            ("an_early_stop_happens_at_an_iteration_whose_gap_is_strictly_below_nu", Implies(stopped_early, gaps.raw(n - 1) < self.nu))]



def _native_case(c):
    from ..bounded import C08 as X
    try:
        return X._check(c)[2]
    except Exception:
        return None


def _fit_native_search(self, ob, r):
    """bounded native search after a refuted / undecided obligation of the fit loop: the real ExponentiatedGradient.fit with the exact learner of the
    stand-in (vf/bounded/C08.py) on ~650 seeded small cases (forked worker pool), all guarantees re-evaluated from first principles"""
    import multiprocessing as mp
    import os
    from ..bounded import C08 as X
    cases = [c for c in X._cases(0, 3, 2, 40) if c[7] <= 20]
    zero_nu = [c[:7] + (20,) + c[8:10] + (0.0,) + c[11:] for c in cases if not c[8]][:30] + [c[:7] + (20,) + c[8:10] + (0.0,) + c[11:] for c in cases if c[8]][:30]          # requested nu = 0: fitting must never stop early
    # the rare histories (a predictor discovered by the gap evaluation before it is selected, non-monotone gaps) need the EG iterate to be returned,
    # i.e. run_linprog_step=False
    cases = zero_nu + [c for c in cases if c[8]][:60] + [c for c in cases if not c[8]][:550]
    known = set()
    workers = int(os.environ.get("VF_WORKERS", "0") or 0) or min(16, os.cpu_count() or 4)
    with mp.get_context("fork").Pool(workers) as pool:
        for res in pool.imap(_native_case, cases, chunksize=8):
            if res is not None and res[0] not in known:
                key, what, rp = res
                pool.terminate()
                return {"confirmed": True, "key": key, "what": what, "replay": rp}
    return {"confirmed": False}


FitLoop.replay = _fit_native_search
