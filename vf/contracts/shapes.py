"""Shape contracts ('returned as a scalar', C14/C11) for selection_rate and mean_prediction, over the numpy shape model of ndmodel.py."""
import z3
from z3 import BoolVal, Int

from ..pyvc.core import Abstract, Unsupported
from .ndmodel import Nd, NdContract, is_nd

BM = "fairlearn/metrics/_base_metrics.py"
n = Int("n")


class ScalarShape(NdContract):
    """for every number of rows n >= 1 the result is a 0-d value; n == 0 raises ValueError (selection_rate)."""
    source = BM
    check_pointwise_division = False      # the weight total is positive by the property's precondition (positive weights, n >= 1)

    def __init__(self, fname, weighted, column_vector=False):
        self.function, self.weighted, self.col = fname, weighted, column_vector
        self.variant = f"[weights={'given' if weighted else 'None'},{'(n,1)' if column_vector else '(n,)'}]"

    def params(self, eng, st):
        shape = (n, 1) if self.col else (n,)
        st.assume(n >= 0)
        st.env["y_true"] = Nd("y_true", shape, "list")
        st.env["y_pred"] = Nd("y_pred", shape, "list", wdtype="user")
        st.env["pos_label"] = Int("pos_label")
        st.env["sample_weight"] = Nd("sample_weight", (n,), "list", wdtype="user") if self.weighted else None

    def on_call(self, eng, st, node, name, recv, args, kwargs):
        """dtype width of the weighted sum (the one place where A1 'machine arithmetic = real arithmetic' is NOT assumed for these two functions, because
        the repository once broke there: fix dbf340a).  `wdtype` is carried along every derived array: "user" = still the caller's dtype (may be uint8 / int8:
        np.dot of two narrow integer arrays wraps around), "float64" = widened by astype(float) / built by np.ones.  np.dot(a, w) with the caller's weights is
        accepted only when at least one operand is known to be float64; operands of unknown history generate no obligation."""
        if name == "numpy.dot" and len(args) == 2 and all(is_nd(a) for a in args) and self.weighted:
            kinds = [getattr(a, "wdtype", None) for a in args]
            if all(k is not None for k in kinds):          # both histories known: decided either way (an operand of unknown history generates no obligation)
                eng.oblige(st, "weighted_sum_is_accumulated_in_float64_not_in_the_callers_possibly_narrow_dtype", BoolVal("float64" in kinds), "dtype", node)
        r = super().on_call(eng, st, node, name, recv, args, kwargs)
        if name == "astype" and is_nd(r) and "astype(float)" in str(r.name):
            r.wdtype = "float64"
        if name == "numpy.ones" and is_nd(r):
            r.wdtype = "float64"
        if name in ("numpy.asarray", "numpy.array", "numpy.asanyarray", "numpy.ascontiguousarray") and is_nd(r) and (len(args) > 1 or "dtype" in kwargs):
            # conversion with an explicit dtype: float / float64 widens; any other explicit dtype has a history this model does not follow (no obligation)
            dt = kwargs.get("dtype", args[1] if len(args) > 1 else None)
            nm = dt if isinstance(dt, str) else getattr(dt, "name", None) or repr(dt)
            r.wdtype = "float64" if nm in ("float", "float64", "numpy.float64", "np.float64", "builtin float", "f8", "d") else None
        return r

    def on_attr(self, eng, st, node, base, attr):
        # `arr.dtype.kind`: the caller's dtype is arbitrary, so its kind is a free string (both outcomes of a test on it are explored)
        if is_nd(base) and getattr(base, "wdtype", None) == "user" and attr == "dtype":
            return Abstract("dtype_of", of=base)
        if isinstance(base, Abstract) and base.tag == "dtype_of" and attr == "kind":
            return z3.String("dtype_kind_of_" + str(base.of.name).split(".")[0])
        return super().on_attr(eng, st, node, base, attr)

    def on_compare(self, eng, st, node, op, a, b):
        r = super().on_compare(eng, st, node, op, a, b)
        if is_nd(r) and (getattr(a, "wdtype", None) or getattr(b, "wdtype", None)):
            r.wdtype = "bool"
        return r

    def post(self, eng, st, status, value):
        if status == "raise":
            if self.function == "selection_rate":
                return [("raises_only_for_empty_predictions", n == 0), ("raises_ValueError", BoolVal(value.typ == "ValueError"))]
            return [("raises_only_for_empty_predictions", n == 0)]
        ok = is_nd(value) and len(value.shape) == 0
        out = [("result_is_a_scalar", BoolVal(ok))]
        if self.function == "selection_rate":
            out.append(("returns_only_for_nonempty_predictions", n >= 1))
        return out

    def replay(self, ob, r):
        import numpy as np
        import fairlearn.metrics as fm
        from ..pyvc.util import model_int
        f = getattr(fm, self.function)
        if "narrow_dtype" in ob.name:
            # the failed obligation is about dtype width, not about n: replay with the narrowest integer and floating-point weights numpy offers
            yp, w = np.ones(100, dtype=np.uint8), np.full(100, 3, dtype=np.uint8)
            try:
                got = float(f(yp, yp, sample_weight=w))
            except Exception as ex:          # noqa: BLE001
                got = f"{type(ex).__name__}: {ex}"[:80]
            if got == 1.0:
                rng = np.random.default_rng(0)
                yp16, w16 = rng.integers(0, 2, 5000).astype(np.uint8), rng.integers(1, 4, 5000).astype(np.float16)
                want = float(np.dot(yp16.astype(float), w16.astype(float)) / w16.astype(float).sum())
                try:
                    got16 = float(f(yp16, yp16, sample_weight=w16))
                except Exception as ex:          # noqa: BLE001
                    got16 = f"{type(ex).__name__}: {ex}"[:80]
                return {"confirmed": not (isinstance(got16, float) and abs(got16 - want) <= 1e-9), "key": f"C14:{self.function}:narrow-weight-dtype",
                        "what": f"{self.function} on 5000 rows (seed 0) with weights in {{1,2,3}} stored as float16 = {got16!r}; the weighted rate is {want!r}",
                        "replay": {"function": self.function, "y_pred": "default_rng(0).integers(0,2,5000).astype(uint8)", "sample_weight": "then .integers(1,4,5000).astype(float16)",
                                   "got": got16, "expected": want}}
            return {"confirmed": got != 1.0, "key": f"C14:{self.function}:narrow-weight-dtype",
                    "what": f"{self.function}(ones(100, uint8), ones(100, uint8), sample_weight=full(100, 3, uint8)) = {got!r}; every row is selected, the weighted rate is 1.0",
                    "replay": {"function": self.function, "y_pred": "np.ones(100, dtype=np.uint8)", "sample_weight": "np.full(100, 3, dtype=np.uint8)", "got": got}}
        k = max(model_int(r.model, "n", 1), 0)
        yp = [1] * k
        yp = [[v] for v in yp] if self.col else yp
        w = [2.0] * k if self.weighted else None
        try:
            out = f(yp, yp, sample_weight=w)
            got = ("shape", list(np.shape(out)))
            bad = np.ndim(out) != 0 or k == 0
        except ValueError as ex:
            got = ("ValueError", str(ex)[:80])
            bad = k >= 1
        return {"confirmed": bool(bad), "key": f"C14:{self.function}:not-scalar",
                "what": f"{self.function}(y, {yp}, sample_weight={w}) -> {got}; a scalar is required for every n >= 1",
                "replay": {"function": self.function, "y_pred": yp, "sample_weight": w, "got": list(got)}}
