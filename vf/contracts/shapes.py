"""Shape contracts ('returned as a scalar', C14/C11) for selection_rate and mean_prediction, over the numpy shape model of ndmodel.py."""
import z3
from z3 import BoolVal, Int

from ..pyvc.core import Abstract, Unsupported
from .ndmodel import Nd, NdContract, is_nd

BM = "fairlearn/metrics/_base_metrics.py"
n = Int("n")


class ScalarShape(NdContract):
    """for every number of rows n >= 1 the result is a 0-d value; n == 0 raises ValueError (selection_rate)."""
    source = BM
    check_pointwise_division = False      # the weight total is positive by the property's precondition (positive weights, n >= 1)

    def __init__(self, fname, weighted, column_vector=False):
        self.function, self.weighted, self.col = fname, weighted, column_vector
        self.variant = f"[weights={'given' if weighted else 'None'},{'(n,1)' if column_vector else '(n,)'}]"

    def params(self, eng, st):
        shape = (n, 1) if self.col else (n,)
        st.assume(n >= 0)
        st.env["y_true"] = Nd("y_true", shape, "list")
        st.env["y_pred"] = Nd("y_pred", shape, "list")
        st.env["pos_label"] = Int("pos_label")
        st.env["sample_weight"] = Nd("sample_weight", (n,), "list") if self.weighted else None

    def post(self, eng, st, status, value):
        if status == "raise":
            if self.function == "selection_rate":
                return [("raises_only_for_empty_predictions", n == 0), ("raises_ValueError", BoolVal(value.typ == "ValueError"))]
            return [("raises_only_for_empty_predictions", n == 0)]
        ok = is_nd(value) and len(value.shape) == 0
        out = [("result_is_a_scalar", BoolVal(ok))]
        if self.function == "selection_rate":
            out.append(("returns_only_for_nonempty_predictions", n >= 1))
        return out

    def replay(self, ob, r):
        import numpy as np
        import fairlearn.metrics as fm
        from ..pyvc.util import model_int
        k = max(model_int(r.model, "n", 1), 0)
        yp = [1] * k
        yp = [[v] for v in yp] if self.col else yp
        w = [2.0] * k if self.weighted else None
        f = getattr(fm, self.function)
        try:
            out = f(yp, yp, sample_weight=w)
            got = ("shape", list(np.shape(out)))
            bad = np.ndim(out) != 0 or k == 0
        except ValueError as ex:
            got = ("ValueError", str(ex)[:80])
            bad = k >= 1
        return {"confirmed": bool(bad), "key": f"C14:{self.function}:not-scalar",
                "what": f"{self.function}(y, {yp}, sample_weight={w}) -> {got}; a scalar is required for every n >= 1",
                "replay": {"function": self.function, "y_pred": yp, "sample_weight": w, "got": list(got)}}
