"""Sidecar contract of _AdversarialFairness.fit (fairlearn/adversarial/_adversarial_mitigation.py): the step schedule of C17.

Verified text: the method body from `if self.epochs == -1 and self.max_iter == -1:` to the end (the statements before it - the
`first_call` test and the `_validate_input` call - are outside this VC: X, y, A are abstract arrays with n >= 1 rows).
Dropped after an effect check (assign only untracked names, call only pure functions, contain no control transfer): the
`if self.progress_updates:` block and the bookkeeping of predictor_losses/adversary_losses/start_time/last_update_time.

Abstractions (everything else is executed from the real AST):
  * self.backendEngine_.train_step(X[s], y[s], A[s])  -> ghost append of (lo, hi, epoch, batch) to the trace T; the three slices must
    be the same slice of X, y and A
  * a callback call cb(self, step=...) -> an uninterpreted result (truthy?, is-bool?) = CB(callback index, step); ghost append of
    (step, callback index) to C
  * ceil(a / b) for positive ints -> c with (c-1)*b < a <= c*b (dependency contract of math.ceil on an exact quotient)
  * precondition: shuffle is False, n >= 1, batch_size/epochs/max_iter each -1 or >= 1 (validated by __setup)

Postcondition (property C17): with bs = n if batch_size = -1, B = ceil(n/bs), E = epochs or ceil(max_iter/B): the k-th train_step call has
k = e*B + b, 0 <= b < B, slice [b*bs, min((b+1)*bs, n)); every callback is invoked once after each completed step with step numbers
1,2,... except after a step that exhausts max_iter; fit returns at the first step at which a callback returned True; otherwise the
number of steps is E*B capped by max_iter; a truthy non-bool callback result raises RuntimeError.
"""
import ast

import z3
from z3 import (And, Bool, BoolSort, BoolVal, ForAll, Function, If, Implies, Int, IntSort, IntVal, K, MultiPattern, Not, Or, Select)

from ..pyvc.core import Abstract, Contract, IterSpec, LoopSpec, Obj, PyList, SymSeq, Unsupported, fresh, is_z3
from ..pyvc.verify import Lemma

AM = "fairlearn/adversarial/_adversarial_mitigation.py"
UNTRACKED = {"start_time", "last_update_time", "predictor_losses", "adversary_losses", "progress", "ETA", "predictor_model", "adversary_model"}
PURE = {"time", "len", "round", "str", "logger.info", "_PROGRESS_UPDATE.format"}
MUL = Function("mul", IntSort(), IntSort(), IntSort())
CBT = Function("cb_truthy", IntSort(), IntSort(), BoolSort())     # callback c returned a truthy value at step s
CBB = Function("cb_isbool", IntSort(), IntSort(), BoolSort())
k = Int("k")
n = Int("n")


def seq(name):
    return SymSeq(K(IntSort(), IntVal(0)), IntVal(0), tag=name)


class FitSchedule(Contract):
    source, function = AM, "_AdversarialFairness.fit"
    prune = True

    def __init__(self, n_callbacks):
        self.ncb = n_callbacks
        self.variant = f"[callbacks={n_callbacks}]"

    def body(self, fn):
        for idx, s in enumerate(fn.body):
            if isinstance(s, ast.If) and ast.unparse(s.test) == "self.epochs == -1 and self.max_iter == -1":
                return fn.body[idx:]
        raise Unsupported("start statement `if self.epochs == -1 and self.max_iter == -1` not found")

    def params(self, eng, st):
        bs, ep, mi = Int("self_batch_size"), Int("self_epochs"), Int("self_max_iter")
        self.attrs = (bs, ep, mi)
        cbs = PyList([Abstract("cb", idx=c) for c in range(self.ncb)]) if self.ncb else None
        st.env["self"] = Obj("_AdversarialFairness", {
            "batch_size": bs, "epochs": ep, "max_iter": mi, "shuffle": False, "progress_updates": Int("self_progress_updates"),
            "callbacks_": cbs, "backendEngine_": Abstract("engine"), "predictor_model": Abstract("model"), "adversary_model": Abstract("model")})
        for nm in ("X", "y", "A"):
            st.env[nm] = Abstract("arr", name=nm)
        st.env["sensitive_features"] = Abstract("arr", name="sensitive_features")
        st.assume(n >= 1, Or(bs == -1, bs >= 1), Or(ep == -1, ep >= 1), Or(mi == -1, mi >= 1))
        st.ghost.update({"T_lo": seq("T_lo"), "T_hi": seq("T_hi"), "T_e": seq("T_e"), "T_b": seq("T_b"), "C_step": seq("C_step"), "C_cb": seq("C_cb")})

    def replay(self, ob, r):
        """bounded native search (after a refuted / undecided obligation): the real fit with a recording engine on a small grid, against the loop
        schedule written from the statement (shared with the stand-in: vf/bounded/C17.py)."""
        import itertools
        from ..bounded.C17 import _check_schedule
        for i, (n_, bs, ep, mi, stop, lay) in enumerate(itertools.product((1, 2, 3, 4), (-1, 1, 2, 3), (-1, 1, 2), (-1, 2, 3), (None, 1, 2), ("callable", "two-first", "two-second"))):
            if ep == -1 and mi == -1:
                continue
            res = _check_schedule((n_, bs, ep, mi, stop, lay, bool(i % 2), bool((i // 2) % 2)))[2]
            if res is None and i % 5 == 0:          # the same configuration on an estimator that was fitted before (warm_start on / off)
                res = _check_schedule((n_, bs, ep, mi, stop, lay, bool(i % 2), bool((i // 2) % 2), ("warm", "cold")[(i // 5) % 2]))[2]
            if res is not None:
                key, what, rp = res
                return {"confirmed": True, "key": key, "what": what, "replay": rp}
        return {"confirmed": False}

    def axioms(self):
        x, b = Int("x"), Int("b")
        return [Lemma("mul.def.zero", ForAll([b], MUL(0, b) == 0, patterns=[MUL(0, b)])),
                Lemma("mul.def.succ", ForAll([x, b], Implies(x >= 1, MUL(x, b) == MUL(x - 1, b) + b), patterns=[MUL(x, b)]))]

    # ------------------------------------------------------------------ extraction: what is dropped
    def droppable(self, s):
        if isinstance(s, ast.If) and ast.unparse(s.test) == "self.progress_updates":
            pass
        elif isinstance(s, (ast.Assign, ast.Expr)):
            pass
        elif isinstance(s, ast.If) and all(isinstance(x, ast.Assign) for x in s.body + s.orelse):
            pass
        else:
            return False
        assigned, calls, reads_tracked = set(), set(), False
        for x in ast.walk(s):
            if isinstance(x, (ast.Return, ast.Raise, ast.Break, ast.Continue)):
                return False
            if isinstance(x, (ast.Assign, ast.AugAssign)):
                for t in (x.targets if isinstance(x, ast.Assign) else [x.target]):
                    for m in ast.walk(t):
                        if isinstance(m, ast.Name):
                            assigned.add(m.id)
                        elif isinstance(m, ast.Attribute):
                            assigned.add("self." + m.attr)
            if isinstance(x, ast.Call):
                f = ast.unparse(x.func)
                if isinstance(x.func, ast.Attribute) and f.split(".")[0] in UNTRACKED and x.func.attr == "append":
                    assigned.add(f.split(".")[0])
                else:
                    calls.add(f)
        if isinstance(s, ast.Expr) and not assigned:
            return False
        return bool(assigned) and assigned <= UNTRACKED and calls <= PURE

    # ------------------------------------------------------------------ value model
    def on_attr(self, eng, st, node, base, attr):
        if isinstance(base, Abstract) and base.tag == "arr" and attr == "shape":
            return (n, Int("n_features_" + base.name))
        return NotImplemented

    def on_subscript(self, eng, st, node, base, index):
        if isinstance(base, Abstract) and base.tag == "arr" and isinstance(index, Abstract) and index.tag == "slice":
            if index.step is not None:
                raise Unsupported("slice step")
            return Abstract("sliced", of=base.name, lo=index.lo, hi=index.hi)
        return NotImplemented

    def havoc_abstract(self, eng, st, name, v):
        return v          # X, y, A after shuffle: another array of the same shape (only the shape is observed)

    def on_call(self, eng, st, node, name, recv, args, kwargs):
        if name == "math.ceil" and node is not None and isinstance(node.args[0], ast.BinOp) and isinstance(node.args[0].op, ast.Div):
            a, b = eng.ev(node.args[0].left, st), eng.ev(node.args[0].right, st)
            eng.oblige(st, "ceil_of_a_positive_quotient", And(b >= 1, a >= 1), "arith", node)
            c = fresh("ceil")
            st.assume((c - 1) * b < a, a <= c * b, c >= 1)
            return c
        if name == "train_step":
            ok = len(args) == 3 and all(isinstance(a, Abstract) and a.tag == "sliced" for a in args) and \
                [a.of for a in args] == ["X", "y", "A"]
            eng.oblige(st, "train_step_gets_slices_of_X_y_A", BoolVal(ok), "wiring", node)
            if not ok:
                raise Unsupported("train_step arguments")
            lo, hi = args[0].lo, args[0].hi
            eng.oblige(st, "same_slice_for_X_y_A", And(*[And(a.lo == lo, a.hi == hi) for a in args[1:]]), "wiring", node)
            g = st.ghost
            for key, val in (("T_lo", lo), ("T_hi", hi), ("T_e", st.env["$k0"]), ("T_b", st.env["$k1"])):
                g[key].over.append((g[key].n, val))
                g[key].n = g[key].n + 1
            return (fresh("LP", z3.RealSort()), fresh("LA", z3.RealSort()))
        if name == "$call" and isinstance(recv, Abstract) and recv.tag == "cb":
            step = kwargs.get("step")
            eng.oblige(st, "callback_gets_the_estimator_and_step", BoolVal(bool(args) and args[0] is st.env["self"] and step is not None), "wiring", node)
            g = st.ghost
            for key, val in (("C_step", step), ("C_cb", IntVal(recv.idx))):
                g[key].over.append((g[key].n, val))
                g[key].n = g[key].n + 1
            return Abstract("cbres", truthy=CBT(recv.idx, step), isbool=CBB(recv.idx, step))
        if name == "isinstance" and isinstance(args[0], Abstract) and args[0].tag == "cbres" and args[1] == ["bool"]:
            return args[0].isbool
        if name == "shuffle":
            return (st.env["X"], st.env["y"], st.env["A"])
        if name == "str" and isinstance(args[0], str):
            return args[0]
        return NotImplemented

    def on_truth(self, eng, st, v):
        if isinstance(v, Abstract) and v.tag == "cbres":
            return v.truthy
        if isinstance(v, Abstract) and v.tag in ("model", "engine", "cb"):
            return True
        return NotImplemented

    # ------------------------------------------------------------------ invariants
    def _stop(self, s):
        return Or(*[CBT(c, s) for c in range(self.ncb)]) if self.ncb else BoolVal(False)

    def trace_ok(self, st, e_cur, strict):
        g = st.ghost
        lo, hi, e, b = g["T_lo"], g["T_hi"], g["T_e"], g["T_b"]
        bs, B = st.env["batch_size"], st.env["batches"]
        ni, mi = st.env["self"].fields["n_iter_"], st.env["self"].fields["max_iter"]
        pats = [Select(s.arr, k) for s in (lo, hi, e, b)]
        out = [("trace_len", And(lo.n == ni, hi.n == ni, e.n == ni, b.n == ni, ni >= 0)),
               ("trace_rows", ForAll([k], Implies(And(0 <= k, k < lo.n),
                                                   And(0 <= b.raw(k), b.raw(k) < B, 0 <= e.raw(k), e.raw(k) <= e_cur,
                                                       Implies(BoolVal(strict), e.raw(k) < e_cur), k == MUL(e.raw(k), B) + b.raw(k),
                                                       lo.raw(k) == b.raw(k) * bs,
                                                       hi.raw(k) == If((b.raw(k) + 1) * bs <= n, (b.raw(k) + 1) * bs, n))), patterns=pats)),
               ("budget_not_exhausted", Implies(mi != -1, ni < mi))]
        cs, cc = g["C_step"], g["C_cb"]
        if self.ncb:
            m = self.ncb
            q = Int("q")
            out += [("callbacks_len", And(cs.n == m * ni, cc.n == m * ni)),
                    ("callbacks_steps", ForAll([k], Implies(And(0 <= k, k < cs.n),
                                                            And(0 <= cc.raw(k), cc.raw(k) < m, k == m * (cs.raw(k) - 1) + cc.raw(k),
                                                                1 <= cs.raw(k), cs.raw(k) <= ni)),
                                               patterns=[Select(cs.arr, k), Select(cc.arr, k)])),
                    ("no_stop_so_far", ForAll([q], Implies(And(1 <= q, q <= ni), Not(self._stop(q))), patterns=[CBT(0, q)]))]
        else:
            out += [("no_callbacks", And(cs.n == 0, cc.n == 0))]
        return out

    def inv_epoch(self, st):
        e = st.env["$k0"]
        ni = st.env["self"].fields["n_iter_"]
        return [("epoch_range", And(0 <= e, e <= st.env["epochs"])), ("steps_so_far", ni == MUL(e, st.env["batches"]))] + self.trace_ok(st, e, True)

    def inv_batch(self, st):
        e, b = st.env["$k0"], st.env["$k1"]
        g = st.ghost
        ni = st.env["self"].fields["n_iter_"]
        return [("batch_range", And(0 <= b, b <= st.env["batches"], 0 <= e, e < st.env["epochs"])),
                ("steps_so_far", ni == MUL(e, st.env["batches"]) + b)] + self.trace_ok(st, e, False) + \
               [("current_epoch_batches_below_b", ForAll([k], Implies(And(0 <= k, k < g["T_e"].n, g["T_e"].raw(k) == e), g["T_b"].raw(k) < b),
                                                        patterns=[Select(g["T_e"].arr, k), Select(g["T_b"].arr, k)]))]

    @staticmethod
    def _ghost_havoc(st):
        for key in ("T_lo", "T_hi", "T_e", "T_b", "C_step", "C_cb"):
            ln = fresh(key + "_len")
            st.assume(ln >= 0)
            st.ghost[key] = SymSeq(fresh(key + "_arr", z3.ArraySort(IntSort(), IntSort())), ln, tag=key)

    def loops(self):
        return {0: LoopSpec(self.inv_epoch, ghost_havoc=self._ghost_havoc), 1: LoopSpec(self.inv_batch, ghost_havoc=self._ghost_havoc)}

    # ------------------------------------------------------------------ postcondition
    def post(self, eng, st, status, value):
        bs0, ep0, mi = self.attrs
        f = st.env["self"].fields
        if status == "raise":
            if "batches" not in st.env:          # the configuration check before the loops
                return [("raises_only_without_any_budget", And(ep0 == -1, mi == -1)), ("raises_ValueError", BoolVal(value.typ == "ValueError"))]
            q, c = Int("q"), Int("c")
            bad = Or(*[And(CBT(cc, f["n_iter_"]), Not(CBB(cc, f["n_iter_"]))) for cc in range(self.ncb)]) if self.ncb else BoolVal(False)
            return [("raises_only_for_truthy_non_bool_callback_result", bad), ("raises_RuntimeError", BoolVal(value.typ == "RuntimeError"))]
        ni, B, E = f["n_iter_"], st.env["batches"], st.env["epochs"]
        g = st.ghost
        T_ok = self.trace_ok(st, E, False)
        rows = dict(T_ok)["trace_rows"]
        q = Int("q")
        out = [("returns_self", BoolVal(value is st.env["self"])),
               ("has_a_budget", Not(And(ep0 == -1, mi == -1))),
               ("batch_size_resolved", st.env["batch_size"] == If(bs0 == -1, n, bs0)),
               ("batches_is_ceil_n_over_bs", And((B - 1) * st.env["batch_size"] < n, n <= B * st.env["batch_size"])),
               ("n_iter_counts_train_steps", g["T_lo"].n == ni),
               ("every_step_is_the_scheduled_slice", rows)]
        normal = And(ni == MUL(E, B), Implies(mi != -1, ni < mi))
        budget = And(mi != -1, ni == mi)
        if self.ncb:
            m = self.ncb
            no_stop_before = ForAll([q], Implies(And(1 <= q, q < ni), Not(self._stop(q))))
            cb_all = g["C_step"].n == m * ni
            stopped = And(self._stop(ni), cb_all)
            out += [("exit_kind", Or(And(normal, cb_all, Implies(ni >= 1, Not(self._stop(ni)))), And(budget, g["C_step"].n == m * (ni - 1)), stopped)),
                    ("no_callback_said_stop_before_the_last_step", no_stop_before)]
        else:
            out += [("exit_kind", Or(normal, budget)), ("no_callbacks_invoked", g["C_step"].n == 0)]
        return out
