"""Sidecar contracts for fairlearn/metrics/_base_metrics.py (C14, C11, C03)."""
import z3
from z3 import And, BoolVal, Implies, Int, IntSort, Not, Or, Real, String, StringSort

from ..pyvc.core import Abstract, Contract, Obj, PyList, SymSeq, Unsupported, fresh, is_z3, lift
from ..pyvc.util import model_int, model_str

BM = "fairlearn/metrics/_base_metrics.py"
INT64_MIN = -(2 ** 63)


class GetLabels(Contract):
    """_get_labels_for_confusion_matrix(labels, pos_label).

    Dependency contract (assumed, A2): np.unique(labels) is the strictly increasing list of the distinct values.
    Variants: number of distinct values L in {1, 2, many (>= 3)}, pos_label given or None, values ints or strings."""
    source, function = BM, "_get_labels_for_confusion_matrix"

    def __init__(self, L, pos_given, sort):
        self.L, self.pos_given, self.sort = L, pos_given, sort
        self.variant = f"[L={L},pos={'given' if pos_given else 'None'},{sort}]"

    def _mk(self, name):
        return Int(name) if self.sort == "int" else String(name)

    def params(self, eng, st):
        st.env["labels"] = Abstract("arr", name="labels")
        st.env["pos_label"] = self._mk("pos_label") if self.pos_given else None
        if self.L == "many":
            n = Int("n_unique")
            st.assume(n >= 3)
            self.uniq = SymSeq(z3.Const("uniq", z3.ArraySort(IntSort(), IntSort() if self.sort == "int" else StringSort())), n)
        else:
            us = [self._mk(f"u{k}") for k in range(self.L)]
            if self.sort == "int":
                st.assume(*[us[k] < us[k + 1] for k in range(self.L - 1)], *[u != INT64_MIN for u in us])
            else:
                st.assume(*[us[k] != us[k + 1] for k in range(self.L - 1)])     # string order is not modelled, only distinctness
            self.uniq = PyList(us)
        self.u0 = list(self.uniq.items) if isinstance(self.uniq, PyList) else None

    def on_call(self, eng, st, node, name, recv, args, kwargs):
        if name == "numpy.unique":
            if args[0] is not st.env["labels"]:
                eng.oblige(st, "unique_of_the_labels_argument", BoolVal(False), "wiring", node)
            return self.uniq
        if name == "numpy.iinfo":
            return Obj("iinfo", {"min": INT64_MIN, "max": 2 ** 63 - 1})
        if name in ("issuperset", "issubset") and isinstance(args[0], SymSeq):
            return fresh("superset_of_many", z3.BoolSort())
        return NotImplemented

    def _invalid(self, st):
        pos = st.env["pos_label"]           # at exit: rebound to 1 by the code when it was None (only on non-raising paths)
        if self.L == "many":
            return BoolVal(True)
        u = self.u0
        conds = []
        if not self.pos_given:
            if self.sort == "int":
                in01 = And(*[Or(x == 0, x == 1) for x in u])
                in11 = And(*[Or(x == -1, x == 1) for x in u])
                conds.append(Not(Or(in01, in11)))
            else:
                conds.append(BoolVal(True))
            p = 1
        else:
            p = self.pos0
        if self.L == 2:
            eqs = [eng_eq(x, p) for x in u]
            conds.append(Not(Or(*eqs)))
        return Or(*conds)

    def post(self, eng, st, status, value):
        self.pos0 = self._mk("pos_label") if self.pos_given else 1
        invalid = self._invalid(st)
        if status == "raise":
            return [("raises_only_for_unsupported_encoding", invalid), ("raises_ValueError", BoolVal(value.typ == "ValueError"))]
        out = [("returns_only_for_supported_encoding", Not(invalid))]
        if not isinstance(value, PyList) or len(value.items) != 2:
            return out + [("returns_two_labels", BoolVal(False))]
        neg, pos = value.items
        p = self.pos0
        out.append(("positive_label_last", eng_eq(pos, p)))
        u = self.u0
        if self.L == 2:
            out.append(("negative_is_the_other_value", Or(And(eng_eq(u[0], p), eng_eq(neg, u[1])), And(eng_eq(u[1], p), eng_eq(neg, u[0])))))
        elif self.L == 1:
            out.append(("single_value_negative", z3.If(eng_eq(u[0], p), eng_eq(neg, INT64_MIN), eng_eq(neg, u[0]))))
            out.append(("negative_differs_from_positive", Not(eng_eq(neg, p))) if self.sort == "int" else ("negative_differs_from_positive", BoolVal(True)))
        return out

    def replay(self, ob, r):
        import numpy as np
        from fairlearn.metrics._base_metrics import _get_labels_for_confusion_matrix as f
        m = r.model
        if self.L == "many":
            return None
        get = (lambda n: model_int(m, n)) if self.sort == "int" else (lambda n: model_str(m, n))
        us = [get(f"u{k}") for k in range(self.L)]
        pos = get("pos_label") if self.pos_given else None
        try:
            got = list(f(np.array(us), pos))
        except ValueError as ex:
            got = "ValueError"
        p = pos if self.pos_given else 1
        ok_encoding = (self.pos_given or set(us) <= {0, 1} or set(us) <= {-1, 1}) and (self.L == 1 or p in us)
        if not ok_encoding:
            bad = got != "ValueError"
        else:
            bad = got == "ValueError" or len(got) != 2 or got[1] != p or (self.L == 2 and set(got) != set(us)) or \
                (self.L == 1 and us[0] != p and got[0] != us[0])
        return {"confirmed": bool(bad), "key": f"C14:_get_labels_for_confusion_matrix:{self.variant}",
                "what": f"_get_labels_for_confusion_matrix(unique={us}, pos_label={pos!r}) -> {got!r}",
                "replay": {"unique_labels": [repr(x) for x in us], "pos_label": repr(pos), "got": repr(got)}}


def eng_eq(a, b):
    """equality of engine values that may be python constants, ints or strings"""
    if not is_z3(a) and not is_z3(b):
        return BoolVal(a == b)
    za, zb = lift(a), lift(b)
    if za.sort() != zb.sort():
        return BoolVal(False)
    return za == zb


class Rate(Contract):
    """true/false positive/negative rate: wiring against the (assumed) contract of sklearn.metrics.confusion_matrix:
    with labels=[neg,pos] and normalize='true', ravel() is (tnr, fpr, fnr, tpr) of the weighted rows."""
    source = BM
    COMPONENT = {"true_negative_rate": 0, "false_positive_rate": 1, "false_negative_rate": 2, "true_positive_rate": 3}

    def __init__(self, fname):
        self.function = fname

    def params(self, eng, st):
        for n in ("y_true", "y_pred", "sample_weight"):
            st.env[n] = Abstract("arr", name=n)
        st.env["pos_label"] = Abstract("scalar", name="pos_label")
        self.cells = tuple(Real(f"cm{k}") for k in ("00", "01", "10", "11"))

    def on_call(self, eng, st, node, name, recv, args, kwargs):
        if name == "numpy.vstack":
            parts = args[0] if isinstance(args[0], tuple) else ()
            return Abstract("vstack", parts=parts)
        if name == "_get_labels_for_confusion_matrix":
            a = args[0]
            ok = isinstance(a, Abstract) and a.tag == "vstack" and len(a.parts) == 2 and a.parts[0] is st.env["y_true"] and a.parts[1] is st.env["y_pred"]
            eng.oblige(st, "labels_from_y_true_and_y_pred", BoolVal(ok), "wiring", node)
            eng.oblige(st, "pos_label_forwarded", BoolVal(len(args) > 1 and args[1] is st.env["pos_label"]), "wiring", node)
            return Abstract("label_pair")
        if name == "sklearn.metrics.confusion_matrix":
            eng.oblige(st, "cm_rows_are_y_true", BoolVal(len(args) > 0 and args[0] is st.env["y_true"]), "wiring", node)
            eng.oblige(st, "cm_cols_are_y_pred", BoolVal(len(args) > 1 and args[1] is st.env["y_pred"]), "wiring", node)
            eng.oblige(st, "cm_weighted_by_sample_weight", BoolVal(kwargs.get("sample_weight") is st.env["sample_weight"]), "wiring", node)
            lab = kwargs.get("labels")
            eng.oblige(st, "cm_labels_neg_pos", BoolVal(isinstance(lab, Abstract) and lab.tag == "label_pair"), "wiring", node)
            eng.oblige(st, "cm_row_normalised", BoolVal(kwargs.get("normalize") == "true"), "wiring", node)
            return Abstract("cm")
        if name == "ravel" and isinstance(recv, Abstract) and recv.tag == "cm":
            return self.cells
        return NotImplemented

    def post(self, eng, st, status, value):
        if status != "return":
            return [("no_raise_of_its_own", BoolVal(False))]
        want = self.cells[self.COMPONENT[self.function]]
        return [("returns_its_confusion_cell", BoolVal(is_z3(value) and value.eq(want)))]
