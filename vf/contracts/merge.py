"""Contract of fairlearn/utils/_input_validation.py::_merge_columns (C13): the merged key is an injective function of the string tuple.

The engine executes the real function symbolically over an abstract string table and *extracts* the per-row pipeline
    SEP.join([name.replace(A1, B1).replace(A2, B2) for name in row])   over   feature_columns.astype(str)
with the constants evaluated from the module.  The extracted constants instantiate a Lean 4 theorem (lemmas/Merge.lean, core library only):
    e != s  ->  names |-> join s (map (escape e s) names)  is injective on non-empty lists          (merge_injective)
    replace(s,[e,s]) . replace(e,[e,e]) = escape e s                                               (repl_repl)
where `repl` is the dependency contract of Python's str.replace for a one-character pattern (assumed, conformance-tested here on every run).
The generated instance is closed by `decide` on the concrete characters; a changed constant, a dropped or reordered replace makes it fail.
"""
import itertools
import os
import subprocess
import tempfile
import time

import z3
from z3 import BoolVal

from ..pyvc.core import Abstract, Contract, Obj, PyList, Unsupported
from ..report import ROOT

IV = "fairlearn/utils/_input_validation.py"


class MergeColumns(Contract):
    source, function = IV, "_merge_columns"

    def __init__(self, is_ndarray=True):
        self.is_ndarray = is_ndarray
        self.variant = "[ndarray]" if is_ndarray else "[not-ndarray]"
        self.extracted = None

    def params(self, eng, st):
        st.env["feature_columns"] = Abstract("table")

    def on_call(self, eng, st, node, name, recv, args, kwargs):
        if name == "isinstance" and isinstance(args[0], Abstract) and args[0].tag == "table":
            return self.is_ndarray
        if name == "type":
            return Obj("type", {"__name__": "list"})
        if name == "astype" and isinstance(recv, Abstract) and recv.tag == "table":
            eng.oblige(st, "cells_compared_as_strings", BoolVal(bool(args) and isinstance(args[0], Abstract) and getattr(args[0], "name", "") == "str"), "wiring", node)
            return Abstract("strtable")
        if name == "$listcomp":
            it, (comp,) = recv, args
            g = comp.generators[0]
            if g.ifs:
                raise Unsupported("filtered comprehension")
            if isinstance(it, Abstract) and it.tag == "strtable":
                eng.assign(g.target, Abstract("row"), st)
                return Abstract("mapped_table", elem=eng.ev(comp.elt, st))
            if isinstance(it, Abstract) and it.tag == "row":
                eng.assign(g.target, Abstract("cell", ops=()), st)
                return Abstract("mapped_row", elem=eng.ev(comp.elt, st))
            raise Unsupported("comprehension over " + repr(it))
        if name == "replace" and isinstance(recv, Abstract) and recv.tag == "cell":
            if len(args) != 2 or not all(isinstance(a, str) for a in args):
                raise Unsupported("replace with non-constant arguments")
            return Abstract("cell", ops=recv.ops + ((args[0], args[1]),))
        if name == "join" and isinstance(recv, str) and args and isinstance(args[0], Abstract) and args[0].tag == "mapped_row":
            return Abstract("joined", sep=recv, row=args[0])
        if name == "numpy.array" and args and isinstance(args[0], Abstract) and args[0].tag == "mapped_table":
            return Abstract("result", table=args[0])
        return NotImplemented

    def post(self, eng, st, status, value):
        if status == "raise":
            return [("raises_only_for_non_ndarray", BoolVal(not self.is_ndarray)), ("raises_ValueError", BoolVal(value.typ == "ValueError"))]
        ok = isinstance(value, Abstract) and value.tag == "result" and isinstance(value.table.elem, Abstract) and value.table.elem.tag == "joined" \
            and isinstance(value.table.elem.row.elem, Abstract) and value.table.elem.row.elem.tag == "cell"
        if ok:
            j = value.table.elem
            self.extracted = {"sep": j.sep, "ops": list(j.row.elem.ops)}
        return [("returns_only_for_ndarray", BoolVal(self.is_ndarray)),
                ("one_key_per_row_joined_from_escaped_cells", BoolVal(ok))]


# ------------------------------------------------------------------------------------------------ Lean instance
def _chars(s):
    return "[" + ", ".join(f"Char.ofNat {ord(c)}" for c in s) + "]"


def lean_instance(ex):
    """Lean text: the extracted pipeline is `escape e s` followed by `join s`, hence injective."""
    ops, sep = ex["ops"], ex["sep"]
    if len(ops) != 2 or any(len(a) != 1 for a, _ in ops) or len(sep) != 1:
        return None
    (a1, b1), (a2, b2) = ops
    return f"""
namespace Instance
open Merge
def e : Char := Char.ofNat {ord(a1)}
def s : Char := Char.ofNat {ord(a2)}
def SEP : List Char := {_chars(sep)}
def B1 : List Char := {_chars(b1)}
def B2 : List Char := {_chars(b2)}
theorem e_ne_s : e ≠ s := by decide
theorem consts_ok : B1 = [e, e] ∧ B2 = [e, s] ∧ SEP = [s] := by decide
/-- the pipeline exactly as extracted from the source: first replace `e` by B1, then `s` by B2 -/
def pipeline (w : List Char) : List Char := repl s B2 (repl e B1 w)
theorem pipeline_is_escape (w : List Char) : pipeline w = escape e s w := by
  have h := repl_repl e s e_ne_s w
  simpa [pipeline, consts_ok.1, consts_ok.2.1] using h
theorem merged_key_injective (ws vs : List (List Char)) (hw : ws ≠ []) (hv : vs ≠ [])
    (h : join s (ws.map pipeline) = join s (vs.map pipeline)) : ws = vs := by
  have hp : pipeline = escape e s := funext pipeline_is_escape
  rw [hp] at h
  exact merge_injective e s e_ne_s ws vs hw hv h
end Instance
#print axioms Instance.merged_key_injective
"""


def run_lean(ex, check_olean=False):
    """-> (ok, seconds, output)"""
    inst = lean_instance(ex)
    if inst is None:
        return False, 0.0, "extracted pipeline does not have the shape replace(c1,..).replace(c2,..) joined by a one-character separator"
    base = open(os.path.join(ROOT, "lemmas", "Merge.lean")).read()
    d = tempfile.mkdtemp(prefix="vf_lean_")
    path = os.path.join(d, "MergeInstance.lean")
    open(path, "w").write(base + "\n" + inst)
    t0 = time.time()
    try:
        p = subprocess.run(["lean", path], capture_output=True, text=True, timeout=600)
        out = p.stdout + p.stderr
        ok = p.returncode == 0 and "error" not in out and "sorry" not in out
        if ok:
            ax = out[out.index("depends on axioms"):] if "depends on axioms" in out else ""
            allowed = {"propext", "Quot.sound", "Classical.choice"}
            import re
            used = set(re.findall(r"[A-Za-z_.]+", ax.split(":", 1)[1])) if ":" in ax else set()
            ok = used <= allowed
        return ok, time.time() - t0, out[-1500:]
    except Exception as exn:
        return False, time.time() - t0, repr(exn)
    finally:
        import shutil
        shutil.rmtree(d, ignore_errors=True)


def replace_conformance(trials=300, seed=0):
    """Python's str.replace for a one-character pattern == repl (the dependency contract the Lean proof assumes)"""
    import random
    rng = random.Random(seed)
    for _ in range(trials):
        w = "".join(rng.choice("a,\\b ") for _ in range(rng.randint(0, 8)))
        a = rng.choice(",\\a")
        r = "".join(rng.choice(",\\x") for _ in range(rng.randint(0, 3)))
        spec = "".join(r if c == a else c for c in w)
        if w.replace(a, r) != spec:
            return False, (w, a, r)
    return True, None


def native_collision_search(maxlen=2, alphabet=("a", ",", "\\")):
    """bounded search for two different string tuples with the same merged key through the REAL function"""
    import numpy as np
    from fairlearn.utils._input_validation import _merge_columns
    words = [""]
    for n in range(1, maxlen + 1):
        words += ["".join(t) for t in itertools.product(alphabet, repeat=n)]
    rows = [list(t) for t in itertools.product(words, repeat=2)]
    keys = _merge_columns(np.array(rows, dtype=object))
    seen = {}
    for r, k in zip(rows, keys):
        r2 = [str(x) for x in r]
        if k in seen and seen[k] != r2:
            return {"row_a": seen[k], "row_b": r2, "merged_key": str(k)}
        seen[k] = r2
    # the key of a row is a function of that row alone (the same tuple gets the same key at fit and at predict time, whatever else is in the table)
    for r, k in zip(rows, keys):
        for other in (None, ["a", "a"], [",", "a"], ["a" * 9, "a"]):
            table = [r] if other is None else [r, other]
            alone = _merge_columns(np.array(table, dtype=object))[0]
            if str(alone) != str(k):
                return {"row_a": [str(x) for x in r], "row_b": other, "merged_key": str(k), "key_in_another_table": str(alone), "kind": "key depends on the other rows of the table"}
    return None
