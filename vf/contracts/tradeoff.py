"""Sidecar contract of fairlearn/postprocessing/_tradeoff_curve_utilities.py::_calculate_tradeoff_points (C04, C05, C20).

For each concrete (x_metric, y_metric, flip) and otherwise symbolic input of any length n:
  every emitted row k carries a threshold t_k and a ghost cut position c_k such that
     Sep(t_k, c_k):   scores[j] > t_k for j < c_k   and   scores[j] < t_k for c_k <= j < n
  (so `score > t_k` selects exactly the first c_k rows of the score-sorted group and `score < t_k` exactly the others), and
  (x_k, y_k) are the x/y metric of the confusion counts of that selection (of the complementary selection for operator '<');
  the first row has c = 0, the last row has c = n (the two constant rules), no index is out of range, no division by zero,
  no inf-inf, and a group lacking one of the two labels raises ValueError (C20) - and only then.

Ghost state: cut[k] (appended whenever an operation is appended).  cnt(v,i) = #{j<i : label_j = v} is a ghost counting function
with its recursive definition as (trusted) definitional axioms; cnt(0,n)+cnt(1,n) = n is proved by induction (base/step lemmas).
Callee contract assumed here (its own obligations: see GetScoresLabelsCounts): scores finite and non-increasing, labels in {0,1}.
"""
import ast

import z3
from z3 import (And, BoolSort, BoolVal, ForAll, Function, If, Implies, Int, IntSort, IntVal, K, MultiPattern, Not, Or, RealSort,
                RealVal, Select, ToReal)

from ..pyvc.core import Abstract, Contract, Ext, LoopSpec, PyDict, PyList, SymSeq, Unsupported, fresh, is_z3, to_real
from ..pyvc.verify import Lemma

TC = "fairlearn/postprocessing/_tradeoff_curve_utilities.py"
Sv = Function("Sv", IntSort(), RealSort())             # finite score of row j of the sorted group (0 <= j < n)
Lb = Function("Lb", IntSort(), IntSort())              # its label
CNT = Function("cnt", IntSort(), IntSort(), IntSort())
N = Int("n")
j, j2, k, v_ = Int("j"), Int("j2"), Int("k"), Int("v")

OpT = z3.Datatype("OpT")
OpT.declare("mk", ("kind", IntSort()), ("pinf", BoolSort()), ("ninf", BoolSort()), ("val", RealSort()))
OpT = OpT.create()

X_METRICS = ["selection_rate", "true_positive_rate", "false_positive_rate", "true_negative_rate", "false_negative_rate"]
Y_METRICS = ["accuracy_score", "balanced_accuracy_score", "selection_rate", "true_positive_rate", "true_negative_rate"]


def gt_ext(v, t):          # finite v > t
    return Or(t.ninf, And(Not(t.pinf), v > t.val))


def lt_ext(v, t):
    return Or(t.pinf, And(Not(t.ninf), v < t.val))


def spec_metric(name, fp, tp, tn, fn):
    """the metric as a function of confusion counts, written from the definitions in the property statements (C04/C14)"""
    fp, tp, tn, fn = to_real(fp), to_real(tp), to_real(tn), to_real(fn)
    n = tp + tn + fp + fn
    return {"selection_rate": (tp + fp) / n, "false_positive_rate": fp / (tn + fp), "false_negative_rate": fn / (tp + fn),
            "true_positive_rate": tp / (tp + fn), "true_negative_rate": tn / (tn + fp), "accuracy_score": (tp + tn) / n,
            "balanced_accuracy_score": (tp / (tp + fn) + tn / (tn + fp)) / 2}[name]


def callee_post():
    return [N >= 1,
            ForAll([j, j2], Implies(And(0 <= j, j < j2, j2 < N), Sv(j) >= Sv(j2)), patterns=[MultiPattern(Sv(j), Sv(j2))]),
            ForAll([j], Implies(And(0 <= j, j < N), Or(Lb(j) == 0, Lb(j) == 1)), patterns=[Lb(j)])]


def cnt_unfold(i):
    return [CNT(0, i + 1) == CNT(0, i) + If(Lb(i) == 0, 1, 0), CNT(1, i + 1) == CNT(1, i) + If(Lb(i) == 1, 1, 0)]


class Rows:
    """view of the three result lists + ghost cut as parallel symbolic sequences"""

    def __init__(self, st):
        self.x, self.y, self.op, self.cut = st.env["x_list"], st.env["y_list"], st.env["operation_list"], st.ghost["cut"]
        for s in (self.x, self.y, self.op, self.cut):
            if not isinstance(s, SymSeq):
                raise Unsupported("result lists are expected to be symbolic sequences at this point")
        self.n = self.x.n

    def same_len(self):
        return And(self.y.n == self.n, self.op.n == self.n, self.cut.n == self.n)

    def thr(self, kk):
        o = self.op.raw(kk)
        return Ext(OpT.pinf(o), OpT.ninf(o), OpT.val(o))

    def kind(self, kk):
        return OpT.kind(self.op.raw(kk))

    def patterns(self, kk):
        return [Select(s.arr, kk) for s in (self.cut, self.x, self.y, self.op)]


class TradeoffPoints(Contract):
    source, function = TC, "_calculate_tradeoff_points"
    prune = False

    def __init__(self, x_metric, y_metric, flip):
        self.xm, self.ym, self.flip = x_metric, y_metric, flip
        self.variant = f"[{x_metric},{y_metric},flip={flip}]"

    # ------------------------------------------------------------------ parameters, axioms
    def params(self, eng, st):
        st.env.update({"data": Abstract("data"), "sensitive_feature_value": Abstract("sfv"), "flip": self.flip,
                       "x_metric": self.xm, "y_metric": self.ym})
        st.ghost["cut"] = SymSeq(K(IntSort(), IntVal(0)), IntVal(0))

    def axioms(self):
        i = Int("i")
        hyp_lab = Or(Lb(i) == 0, Lb(i) == 1)
        total = lambda t: CNT(0, t) + CNT(1, t) == t
        nonneg = lambda t: And(CNT(0, t) >= 0, CNT(1, t) >= 0)
        P = lambda t: And(total(t), nonneg(t))
        return [
            Lemma("cnt.def.base", And(CNT(0, 0) == 0, CNT(1, 0) == 0)),
            # induction: P(0) and (P(i) /\ label_i in {0,1} => P(i+1)) proved; P(n) follows by induction on n (schema trusted)
            Lemma("cnt.total.base", BoolVal(True), proof=([CNT(0, 0) == 0, CNT(1, 0) == 0], P(IntVal(0)))),
            Lemma("cnt.total.step", BoolVal(True), proof=([P(i), hyp_lab] + cnt_unfold(i), P(i + 1))),
            Lemma("cnt.total(induction-schema)", And(total(N), nonneg(N))),
        ]

    # ------------------------------------------------------------------ value model hooks
    def on_call(self, eng, st, node, name, recv, args, kwargs):
        if name == "_get_scores_labels_and_counts":
            if not (args and args[0] is st.env["data"]):
                eng.oblige(st, "counts_of_the_group_data", BoolVal(False), "wiring", node)
            st.assume(*callee_post())
            return (Abstract("scores", sentinel=False), Abstract("labels", sentinel=False), N, CNT(1, N), CNT(0, N))
        if name == "append" and isinstance(recv, Abstract) and recv.tag == "scores":
            v = args[0]
            eng.oblige(st, "score_sentinel_is_minus_inf", And(v.ninf, Not(v.pinf)) if isinstance(v, Ext) else BoolVal(False), "sentinel", node)
            recv.sentinel = True
            return None
        if name == "append" and isinstance(recv, Abstract) and recv.tag == "labels":
            recv.sentinel = True
            return None
        if name == "ThresholdOperation":
            if args[0] not in (">", "<") or not isinstance(args[1], Ext):
                raise Unsupported("ThresholdOperation arguments")
            return Abstract("op", kind=0 if args[0] == ">" else 1, thr=args[1])
        if name == "append" and isinstance(recv, SymSeq) and recv is st.env.get("operation_list"):
            st.ghost["cut"].over.append((st.ghost["cut"].n, st.env["i"]))       # ghost: the cut position of this rule
            st.ghost["cut"].n = st.ghost["cut"].n + 1
            return NotImplemented
        if name == "str" and isinstance(args[0], Abstract):
            return z3.String("str_of_" + args[0].tag)
        if name == "pandas.DataFrame" and args and isinstance(args[0], PyDict):
            d = args[0].d
            ok = list(d.keys()) == ["x", "y", "operation"] and d["x"] is st.env["x_list"] and d["y"] is st.env["y_list"] \
                and d["operation"] is st.env["operation_list"]
            eng.oblige(st, "frame_columns_are_the_three_lists", BoolVal(ok), "wiring", node)
            return Abstract("points", sorted_by=None)
        if name == "sort_values" and isinstance(recv, Abstract) and recv.tag == "points":
            by = kwargs.get("by", args[0] if args else None)
            ok = isinstance(by, PyList) and by.items == ["x", "y"] and kwargs.get("ascending", True) is True
            eng.oblige(st, "sorted_lexicographically_by_x_then_y", BoolVal(ok), "wiring", node)
            return Abstract("points", sorted_by=("x", "y"))
        if name == "reset_index" and isinstance(recv, Abstract) and recv.tag == "points":
            return recv
        return NotImplemented

    def on_attr(self, eng, st, node, base, attr):
        if attr == "np.nan":
            return Abstract("nan")
        return NotImplemented

    def on_subscript(self, eng, st, node, base, index):
        if isinstance(base, Abstract) and base.tag == "scores":
            hi = (index <= N) if base.sentinel else (index < N)
            eng.oblige(st, "scores_index_in_bounds", And(0 <= index, hi), "bounds", node)
            return Ext(BoolVal(False), And(BoolVal(base.sentinel), index == N), Sv(index))
        if isinstance(base, Abstract) and base.tag == "labels":
            eng.oblige(st, "labels_index_is_a_real_row", And(0 <= index, index < N), "bounds", node)
            return Lb(index)
        return NotImplemented

    def on_store_subscript(self, eng, st, node, base, index, value):
        if base is st.env.get("count") and "i" in st.env and is_z3(st.env["i"]):
            st.assume(*cnt_unfold(st.env["i"]))          # instance of the definition of the ghost function cnt at the current i
        return NotImplemented

    # ------------------------------------------------------------------ loops
    def row_ok(self, R, kk):
        c, t = R.cut.raw(kk), R.thr(kk)
        fp, tp = CNT(0, c), CNT(1, c)
        tn, fn = CNT(0, N) - fp, CNT(1, N) - tp
        flipped = R.kind(kk) == 1
        xp, yp = spec_metric(self.xm, fp, tp, tn, fn), spec_metric(self.ym, fp, tp, tn, fn)
        xf, yf = spec_metric(self.xm, tn, fn, fp, tp), spec_metric(self.ym, tn, fn, fp, tp)
        # without flip every rule is a '>' rule (C10: the probability of a positive prediction then never decreases with the score)
        return And(0 <= c, c <= N, Or(R.kind(kk) == 0, R.kind(kk) == 1) if self.flip else R.kind(kk) == 0, Not(And(t.pinf, t.ninf)),
                   ForAll([j], Implies(And(0 <= j, j < c), gt_ext(Sv(j), t)), patterns=[Sv(j)]),
                   ForAll([j], Implies(And(c <= j, j < N), lt_ext(Sv(j), t)), patterns=[Sv(j)]),
                   R.x.raw(kk) == If(flipped, xf, xp), R.y.raw(kk) == If(flipped, yf, yp))

    def common(self, st):
        i, cnt, R = st.env["i"], st.env["count"], Rows(st)
        if not isinstance(cnt, PyList) or len(cnt.items) != 2:
            raise Unsupported("count is expected to be a two-element list")
        return [("i_range", And(0 <= i, i <= N)), ("count_neg", cnt.items[0] == CNT(0, i)), ("count_pos", cnt.items[1] == CNT(1, i)),
                ("rows_len", And(R.n >= 0, R.same_len())), ("both_labels_present", And(CNT(0, N) > 0, CNT(1, N) > 0)),
                ("rows_ok", ForAll([k], Implies(And(0 <= k, k < R.n), self.row_ok(R, k)), patterns=R.patterns(k))),
                ("first_row_is_cut_0", Implies(R.n > 0, R.cut.raw(0) == 0))]

    def inv_outer(self, st):
        i, R = st.env["i"], Rows(st)
        return self.common(st) + [("no_rows_means_start", Implies(R.n == 0, i == 0)),
                                  ("last_row_is_current_cut", Implies(i > 0, And(R.n > 0, R.cut.raw(R.n - 1) == i)))]

    def inv_inner(self, st):
        i, i0, thr, R = st.env["i"], st.env["$i0"], st.env["$thr0"], Rows(st)
        cur = st.env["threshold"]
        return self.common(st) + [("i0_le_i", And(i0 <= i, i0 < N)), ("rows_nonempty", R.n > 0),
                                  ("threshold_is_score_i0", And(Not(thr.pinf), Not(thr.ninf), thr.val == Sv(i0))),
                                  ("threshold_unchanged", cur.eq(thr) if isinstance(cur, Ext) else BoolVal(False)),
                                  ("tie_block", ForAll([j], Implies(And(i0 <= j, j < i), Sv(j) == thr.val), patterns=[Sv(j)]))]

    @staticmethod
    def _prep_outer(st):
        for nm, sort in (("x_list", RealSort()), ("y_list", RealSort()), ("operation_list", OpT)):
            v = st.env.get(nm)
            if isinstance(v, PyList):
                if v.items:
                    raise Unsupported(f"{nm} is expected to start empty")
                default = RealVal(0) if sort == RealSort() else OpT.mk(0, False, False, 0)
                if nm == "operation_list":
                    st.env[nm] = SymSeq(K(IntSort(), default), IntVal(0),
                                        wrap=lambda t: Abstract("op", kind=OpT.kind(t), thr=Ext(OpT.pinf(t), OpT.ninf(t), OpT.val(t))),
                                        unwrap=lambda o: OpT.mk(o.kind, o.thr.pinf, o.thr.ninf, o.thr.val))
                else:
                    st.env[nm] = SymSeq(K(IntSort(), default), IntVal(0), unwrap=to_real)

    @staticmethod
    def _prep_inner(st):
        st.env["$i0"], st.env["$thr0"] = st.env["i"], st.env["threshold"]

    @staticmethod
    def _ghost_havoc(st):
        n = fresh("cut_len")
        st.assume(n >= 0)
        st.ghost["cut"] = SymSeq(fresh("cut_arr", z3.ArraySort(IntSort(), IntSort())), n)

    def loops(self):
        return {0: LoopSpec(self.inv_outer, prepare=self._prep_outer, ghost_havoc=self._ghost_havoc),
                1: LoopSpec(self.inv_inner, prepare=self._prep_inner)}

    # ------------------------------------------------------------------ postcondition
    def post(self, eng, st, status, value):
        if status == "raise":
            return [("raises_only_for_a_group_lacking_a_label", Or(CNT(1, N) == 0, CNT(0, N) == 0)),
                    ("raises_ValueError", BoolVal(value.typ == "ValueError"))]
        R = Rows(st)
        ok = isinstance(value, Abstract) and value.tag == "points" and value.sorted_by == ("x", "y")
        return [("returns_the_sorted_frame_of_rows", BoolVal(ok)),
                ("returns_only_with_both_labels", And(CNT(1, N) > 0, CNT(0, N) > 0)),
                ("at_least_one_row", R.n >= 1), ("has_rule_selecting_nothing", R.cut.raw(0) == 0),
                ("has_rule_selecting_everything", R.cut.raw(R.n - 1) == N),
                ("every_row_is_a_threshold_rule_with_its_metrics", ForAll([k], Implies(And(0 <= k, k < R.n), self.row_ok(R, k))))]

    def replay(self, ob, r):
        found = native_search(self.xm, self.ym, self.flip)
        if found:
            return {"confirmed": True, "key": f"C04:_calculate_tradeoff_points:{found['violated']}",
                    "what": f"_calculate_tradeoff_points({self.variant}) on scores={found['scores']} labels={found['labels']}: {found['detail']}",
                    "replay": found}
        return {"confirmed": False}


# ------------------------------------------------------------------------------------------------ native replay search
def native_search(xm, ym, flip, nmax=5):
    """bounded search for a concrete group on which the real function violates the contract (replay of a failed obligation only)"""
    import itertools
    import math
    from fractions import Fraction as Fr
    import pandas as pd
    from fairlearn.postprocessing._tradeoff_curve_utilities import _calculate_tradeoff_points as f

    def metric(name, fp, tp, tn, fn):
        n = tp + tn + fp + fn
        return {"selection_rate": Fr(tp + fp, n), "false_positive_rate": Fr(fp, tn + fp), "false_negative_rate": Fr(fn, tp + fn),
                "true_positive_rate": Fr(tp, tp + fn), "true_negative_rate": Fr(tn, tn + fp), "accuracy_score": Fr(tp + tn, n),
                "balanced_accuracy_score": (Fr(tp, tp + fn) + Fr(tn, tn + fp)) / 2}[name]
    for n in range(1, min(nmax, 4) + 1):
        for scores in itertools.combinations_with_replacement((0.0, 1.0, 1.0000000005, 1.0000000012, 2.0), n):     # incl. a chain of near ties (relative gaps 5e-10 and 7e-10)
            for labels in itertools.product((0, 1), repeat=n):
                df = pd.DataFrame({"score": list(scores), "label": list(labels)})
                degenerate = sum(labels) in (0, n)
                try:
                    out = f(df, "g", flip=flip, x_metric=xm, y_metric=ym)
                except ValueError as ex:
                    if degenerate:
                        continue
                    return {"scores": scores, "labels": labels, "violated": "raises", "detail": f"raised {ex!r} although both labels are present"}
                base = {"scores": scores, "labels": labels}
                if degenerate:
                    return dict(base, violated="degenerate-accepted", detail="group lacking one label did not raise")
                rows = [(float(a), float(b), o.operator, o.threshold) for a, b, o in zip(out["x"], out["y"], out["operation"])]
                if rows != sorted(rows, key=lambda t: (t[0], t[1])):
                    return dict(base, violated="not-sorted", detail=f"rows {rows} are not sorted by (x,y)")
                seen_cuts = set()
                for (x, y, op, t) in rows:
                    sel = [(s > t) if op == ">" else (s < t) for s in scores]
                    if any(s == t for s in scores):
                        return dict(base, violated="threshold-on-score", detail=f"threshold {t} equals a score")
                    tp = sum(1 for s, l in zip(sel, labels) if s and l == 1)
                    fp = sum(1 for s, l in zip(sel, labels) if s and l == 0)
                    fn = sum(1 for s, l in zip(sel, labels) if not s and l == 1)
                    tn = sum(1 for s, l in zip(sel, labels) if not s and l == 0)
                    ex, ey = metric(xm, fp, tp, tn, fn), metric(ym, fp, tp, tn, fn)
                    if abs(float(ex) - x) > 1e-12 or abs(float(ey) - y) > 1e-12:
                        return dict(base, violated="row-metrics", detail=f"row ({x},{y},{op}{t}) but the rule has x={ex}, y={ey}")
                    if op == ">":
                        seen_cuts.add(sum(sel))
                if 0 not in seen_cuts or n not in seen_cuts:
                    return dict(base, violated="constant-rules-missing", detail=f"cuts {sorted(seen_cuts)} lack 0 or n")
                # completeness: between any two DIFFERENT score values there is a thresholding (scores that differ, however little, can be separated)
                want = {sum(1 for s in scores if s >= d) for d in set(scores)} | {0}
                if not want <= seen_cuts:
                    return dict(base, violated="thresholding-missing", detail=f"no '>' rule selects exactly the {sorted(want - seen_cuts)} highest scores (rules select {sorted(seen_cuts)})")
    return None


class GetScoresLabelsCounts(Contract):
    """callee of _calculate_tradeoff_points: wiring against the assumed pandas contracts (sort_values(by, ascending=False) sorts the rows by
    non-increasing score and keeps row content; list(column) is the column in row order): scores and labels are the two columns of the SAME
    sorted frame, the counts are those of these labels, results are returned in the order (scores, labels, n, n_positive, n_negative)."""
    source, function = TC, "_get_scores_labels_and_counts"

    def params(self, eng, st):
        self.data = Abstract("data")
        st.env["data"] = self.data

    def on_call(self, eng, st, node, name, recv, args, kwargs):
        if name == "sort_values" and recv is self.data:
            ok = kwargs.get("by") == "score" and kwargs.get("ascending") is False and not args
            eng.oblige(st, "rows_sorted_by_decreasing_score", BoolVal(bool(ok)), "wiring", node)
            return Abstract("sorted_frame")
        if name == "list" and args and isinstance(args[0], Abstract) and args[0].tag == "sorted_col":
            return Abstract("listed", col=args[0].col)
        if name == "_get_counts":
            a = args[0] if args else None
            eng.oblige(st, "counts_of_the_sorted_labels", BoolVal(isinstance(a, Abstract) and a.tag == "listed" and a.col == "label"), "wiring", node)
            return (Abstract("count", which="n"), Abstract("count", which="pos"), Abstract("count", which="neg"))
        return NotImplemented

    def on_subscript(self, eng, st, node, base, index):
        if isinstance(base, Abstract) and base.tag == "sorted_frame" and isinstance(index, str):
            return Abstract("sorted_col", col=index)
        if base is self.data and isinstance(index, str):
            return Abstract("sorted_col", col="UNSORTED:" + index)
        return NotImplemented

    def post(self, eng, st, status, value):
        ok = status == "return" and isinstance(value, tuple) and len(value) == 5
        if not ok:
            return [("returns_five_values", BoolVal(False))]
        s, l, n_, p, q = value
        col = lambda v, c: isinstance(v, Abstract) and v.tag == "listed" and v.col == c
        cnt = lambda v, w: isinstance(v, Abstract) and v.tag == "count" and v.which == w
        return [("scores_and_labels_are_columns_of_the_same_sorted_frame", BoolVal(col(s, "score") and col(l, "label"))),
                ("counts_returned_as_n_positive_negative", BoolVal(cnt(n_, "n") and cnt(p, "pos") and cnt(q, "neg")))]


class GetCounts(Contract):
    """_get_counts(labels): n = len, n_positive = sum(labels), n_negative = n - n_positive (labels in {0,1}: sum = number of positives)."""
    source, function = TC, "_get_counts"

    def params(self, eng, st):
        self.n, self.s = Int("len_labels"), Int("sum_labels")
        st.env["labels"] = Abstract("labels")

    def on_call(self, eng, st, node, name, recv, args, kwargs):
        if name == "len" and isinstance(args[0], Abstract):
            return self.n
        if name == "sum" and isinstance(args[0], Abstract):
            return self.s
        return NotImplemented

    def post(self, eng, st, status, value):
        ok = status == "return" and isinstance(value, tuple) and len(value) == 3 and all(is_z3(v) for v in value)
        if not ok:
            return [("returns_three_counts", BoolVal(False))]
        return [("n_is_the_length", value[0] == self.n), ("positives_are_the_label_sum", value[1] == self.s), ("negatives_are_the_rest", value[2] == self.n - self.s)]
