"""Sidecar contracts for the pure-Python pieces of fairlearn/reductions/_moments (C06, C20)."""
import ast

import z3
from z3 import And, Bool, BoolVal, If, Implies, Not, Or, Real, RealVal, String, StringVal

from ..pyvc.core import Abstract, Contract, Exc, Obj, Unsupported, is_z3
from ..pyvc.util import model_str, model_bool, model_real

UP = "fairlearn/reductions/_moments/utility_parity.py"


def optstr(name):
    return Abstract("optstr", null=Bool(name + "_null"), s=String(name + "_s"))


class CombineEventAndControl(Contract):
    """_combine_event_and_control(event, control): both arguments are 'nullable strings' (NaN/None or a str)."""
    source, function = UP, "_combine_event_and_control"

    def params(self, eng, st):
        st.env["event"], st.env["control"] = optstr("event"), optstr("control")

    def on_call(self, eng, st, node, name, recv, args, kwargs):
        if name in ("pandas.notnull", "pandas.notna") and isinstance(args[0], Abstract) and args[0].tag == "optstr":
            return Not(args[0].null)
        if name in ("pandas.isnull", "pandas.isna") and isinstance(args[0], Abstract) and args[0].tag == "optstr":
            return args[0].null
        if name == "str" and isinstance(args[0], Abstract) and args[0].tag == "optstr":
            return If(args[0].null, StringVal("nan"), args[0].s)       # format() of a float NaN is 'nan'
        return NotImplemented

    @staticmethod
    def _res(value):
        if isinstance(value, Abstract) and value.tag == "optstr":
            return value.null, value.s
        if isinstance(value, str):
            return BoolVal(False), StringVal(value)
        if is_z3(value) and z3.is_string(value):
            return BoolVal(False), value
        raise Unsupported(f"result shape {value!r}")

    def post(self, eng, st, status, value):
        if status != "return":
            return [("never_raises", BoolVal(False))]
        ev, ct = st.env["event"], st.env["control"]
        rn, rs = self._res(value)
        return [
            # property C06: "rows outside the conditioned label class belong to no event"
            ("null_event_stays_null", Implies(ev.null, rn)),
            ("event_within_stratum", Implies(And(Not(ev.null), Not(ct.null)),
                                             And(Not(rn), rs == z3.Concat(StringVal("control="), ct.s, StringVal(","), ev.s)))),
            ("no_control_keeps_event", Implies(And(Not(ev.null), ct.null), And(Not(rn), rs == ev.s))),
        ]

    def replay(self, ob, r):
        import math
        from fairlearn.reductions._moments import utility_parity as up
        m = r.model
        e = float("nan") if model_bool(m, "event_null") else model_str(m, "event_s")
        c = float("nan") if model_bool(m, "control_null") else model_str(m, "control_s")
        out = up._combine_event_and_control(e, c)
        isnull = lambda v: isinstance(v, float) and math.isnan(v)
        if isnull(e):
            ok = isnull(out)
        elif isnull(c):
            ok = out == e
        else:
            ok = out == f"control={c},{e}"
        return {"confirmed": not ok, "key": "C06:_combine_event_and_control:" + ("null-event" if isnull(e) else "format"),
                "what": f"_combine_event_and_control({e!r}, {c!r}) returned {out!r}",
                "replay": {"call": "fairlearn.reductions._moments.utility_parity._combine_event_and_control", "args": [repr(e), repr(c)], "got": repr(out)}}


class UtilityParityInit(Contract):
    """UtilityParity.__init__ for one None-pattern of (difference_bound, ratio_bound)."""
    source, function = UP, "UtilityParity.__init__"

    def __init__(self, db_given, rb_given):
        self.db_given, self.rb_given = db_given, rb_given

    def params(self, eng, st):
        st.env["self"] = Obj("UtilityParity")
        st.env["difference_bound"] = Real("difference_bound") if self.db_given else None
        st.env["ratio_bound"] = Real("ratio_bound") if self.rb_given else None
        st.env["ratio_bound_slack"] = Real("ratio_bound_slack")

    def on_call(self, eng, st, node, name, recv, args, kwargs):
        if name == "super":
            return Abstract("super")
        if name == "__init__" and isinstance(recv, Abstract) and recv.tag == "super":
            st.env["self"].fields["data_loaded"] = False         # Moment.__init__ (frame: only data_loaded)
            return None
        return NotImplemented

    def post(self, eng, st, status, value):
        db, rb, slack = st.env["difference_bound"], st.env["ratio_bound"], st.env["ratio_bound_slack"]
        f = st.env["self"].fields
        invalid = BoolVal(True) if (self.db_given and self.rb_given) else (Not(And(rb > 0, rb <= 1)) if self.rb_given else BoolVal(False))
        if status == "raise":
            return [("raises_only_on_invalid_bounds", invalid), ("raises_ValueError", BoolVal(value.typ == "ValueError"))]
        out = [("returns_only_on_valid_bounds", Not(invalid))]          # C20: conflicting / out-of-range bounds never return normally
        if "eps" not in f or "ratio" not in f:
            return out + [("sets_eps_and_ratio", BoolVal(False))]
        eps, ratio = f["eps"], f["ratio"]
        from ..pyvc.core import to_real
        eps, ratio = to_real(eps), to_real(ratio)
        if not self.db_given and not self.rb_given:
            out += [("default_bound", And(eps == RealVal("0.01"), ratio == 1))]
        elif self.db_given and not self.rb_given:
            out += [("difference_bound", And(eps == db, ratio == 1))]
        elif self.rb_given and not self.db_given:
            out += [("ratio_bound", And(eps == slack, ratio == rb, rb > 0, rb <= 1))]
        return out

    def replay(self, ob, r):
        from fairlearn.reductions import DemographicParity
        m = r.model
        kw = {}
        if self.db_given:
            kw["difference_bound"] = float(model_real(m, "difference_bound", 0))
        if self.rb_given:
            kw["ratio_bound"] = float(model_real(m, "ratio_bound", 0))
        kw["ratio_bound_slack"] = float(model_real(m, "ratio_bound_slack", 0))
        try:
            o = DemographicParity(**kw)
            got = ("ok", o.eps, o.ratio)
        except ValueError as ex:
            got = ("ValueError", str(ex))
        if self.db_given and self.rb_given:
            exp = ("ValueError",)
        elif self.rb_given:
            rb = kw["ratio_bound"]
            exp = ("ok", kw["ratio_bound_slack"], rb) if 0 < rb <= 1 else ("ValueError",)
        elif self.db_given:
            exp = ("ok", kw["difference_bound"], 1.0)
        else:
            exp = ("ok", 0.01, 1.0)
        bad = got[0] != exp[0] or (got[0] == "ok" and tuple(got[1:]) != tuple(exp[1:]))
        return {"confirmed": bad, "key": f"C20:UtilityParity.__init__:{sorted(kw)}", "what": f"DemographicParity(**{kw}) -> {got}, expected {exp}",
                "replay": {"call": "DemographicParity", "kwargs": kw, "got": repr(got)}}
