"""Contracts of ExponentiatedGradient.predict and _pmf_predict (C10) - wiring against the assumed pandas/numpy contracts.

predict, classification moment: result = 1[p_i >= u_i] * 1 with p = second column of _pmf_predict(X) and u = random_state.rand(len(p)) (one uniform draw per
row from the generator derived from the caller's random_state) - with lemma bernoulli: P(result_i = 1) = p_i, deterministic for p in {0,1} up to the null event u = 0.
predict, regression moment: for every row i the result is random_state.choice(values of the stored predictors on row i, p = weights_ RE-INDEXED BY THE
COLUMNS of that value frame) - numpy's choice pairs values and probabilities by position, so the probabilities must be put in column order.
_pmf_predict: column t of the value frame is h_t(X) (zeros when weights_[t] == 0); classification: positive probability = pred[weights_.index].dot(weights_)
(label-aligned mixture), rows (1 - p, p).
"""
import z3
from z3 import And, Bool, BoolVal, Int, IntSort

from ..pyvc.core import Abstract, Contract, IterSpec, LoopSpec, Obj, Unsupported, fresh, is_z3

EGF = "fairlearn/reductions/_exponentiated_gradient/exponentiated_gradient.py"


class Predict(Contract):
    source, function = EGF, "ExponentiatedGradient.predict"
    prune = False

    def __init__(self, classification):
        self.clf = classification
        self.variant = "[classification]" if classification else "[regression]"

    def params(self, eng, st):
        self.X, self.rs_in, self.w = Abstract("X"), Abstract("random_state_arg"), Abstract("weights_")
        st.env.update({"self": Obj("ExponentiatedGradient", {"constraints": Abstract("constraints"), "weights_": self.w}), "X": self.X, "random_state": self.rs_in})

    def on_call(self, eng, st, node, name, recv, args, kwargs):
        if name.endswith("check_is_fitted"):
            return None
        if name.endswith("check_random_state"):
            eng.oblige(st, "generator_derived_from_the_callers_random_state", BoolVal(bool(args) and args[0] is self.rs_in), "wiring", node)
            return Abstract("rng")
        if name == "isinstance" and isinstance(args[0], Abstract) and args[0].tag == "constraints":
            return self.clf
        if name == "_pmf_predict" and isinstance(recv, Obj):
            eng.oblige(st, "pmf_of_the_given_X", BoolVal(bool(args) and args[0] is self.X), "wiring", node)
            return Abstract("pmf" if self.clf else "values")
        if name == "len" and isinstance(args[0], Abstract) and args[0].tag == "pos":
            return Abstract("len_pos")
        if name == "rand" and isinstance(recv, Abstract) and recv.tag == "rng":
            return Abstract("uniform", n=args[0] if args else None)
        if name == "numpy.zeros":
            return Abstract("out", n=args[0], stores=[])
        if name == "choice" and isinstance(recv, Abstract) and recv.tag == "rng":
            return Abstract("draw", values=args[0] if args else None, p=kwargs.get("p"))
        return NotImplemented

    def on_subscript(self, eng, st, node, base, index):
        if isinstance(base, Abstract) and base.tag == "pmf" and isinstance(index, tuple) and len(index) == 2 and index[1] == 1:
            return Abstract("pos")
        if isinstance(base, Abstract) and base.tag == "values_iloc" and isinstance(index, tuple) and len(index) == 2:
            return Abstract("row_values", i=index[0])
        if base is self.w and isinstance(index, Abstract) and index.tag == "value_columns":
            return Abstract("weights_in_column_order")
        if isinstance(base, tuple) and index == 0:
            return base[0]
        return NotImplemented

    def on_attr(self, eng, st, node, base, attr):
        if isinstance(base, Abstract) and base.tag == "values":
            if attr == "shape":
                return (Int("n_rows"), Int("n_predictors"))
            if attr == "iloc":
                return Abstract("values_iloc")
            if attr == "columns":
                return Abstract("value_columns")
        return NotImplemented

    def on_compare(self, eng, st, node, op, a, b):
        if op == "GtE" and isinstance(a, Abstract) and a.tag == "pos" and isinstance(b, Abstract) and b.tag == "uniform":
            return Abstract("bern", u=b)
        return NotImplemented

    def on_binop(self, eng, st, node, op, a, b):
        if op == "Mult" and isinstance(a, Abstract) and a.tag == "bern" and b == 1:
            return Abstract("labels", u=a.u)
        return NotImplemented

    def on_store_subscript(self, eng, st, node, base, index, value):
        if isinstance(base, Abstract) and base.tag == "out":
            base.stores.append((index, value))
            return True
        return NotImplemented

    def havoc_abstract(self, eng, st, name, v):
        return v

    def loops(self):
        return {0: LoopSpec(lambda st: [])}

    def post(self, eng, st, status, value):
        if status != "return":
            return [("no_exception", BoolVal(False))]
        if self.clf:
            ok = isinstance(value, Abstract) and value.tag == "labels"
            return [("label_is_one_exactly_when_probability_at_least_the_uniform_draw", BoolVal(ok)),
                    ("one_uniform_draw_per_row", BoolVal(ok and isinstance(value.u.n, Abstract) and value.u.n.tag == "len_pos"))]
        ok = isinstance(value, Abstract) and value.tag == "out" and len(value.stores) == 1
        if not ok:
            return [("returns_one_draw_per_row", BoolVal(False))]
        idx, d = value.stores[0]
        good = isinstance(d, Abstract) and d.tag == "draw" and isinstance(d.values, Abstract) and d.values.tag == "row_values" and is_z3(idx) and d.values.i.eq(idx)
        return [("row_i_is_a_draw_from_the_stored_predictors_values_on_row_i", BoolVal(bool(good))),
                ("draw_probabilities_are_the_weights_in_the_order_of_the_value_columns", BoolVal(bool(good) and isinstance(d.p, Abstract) and d.p.tag == "weights_in_column_order"))]
