"""Contracts of ExponentiatedGradient.predict and _pmf_predict (C10) - wiring against the assumed pandas/numpy contracts.

predict, classification moment: result = 1[p_i >= u_i] * 1 with p = second column of _pmf_predict(X) and u = random_state.rand(len(p)) (one uniform draw per
row from the generator derived from the caller's random_state) - with lemma bernoulli: P(result_i = 1) = p_i, deterministic for p in {0,1} up to the null event u = 0.
predict, regression moment: for every row i the result is random_state.choice(values of the stored predictors on row i, p = weights_ RE-INDEXED BY THE
COLUMNS of that value frame) - numpy's choice pairs values and probabilities by position, so the probabilities must be put in column order.
_pmf_predict: column t of the value frame is h_t(X) (zeros when weights_[t] == 0); classification: positive probability = pred[weights_.index].dot(weights_)
(label-aligned mixture), rows (1 - p, p).
"""
import z3
from z3 import And, Bool, BoolVal, Int, IntSort

from ..pyvc.core import Abstract, Contract, IterSpec, LoopSpec, Obj, Unsupported, fresh, is_z3

EGF = "fairlearn/reductions/_exponentiated_gradient/exponentiated_gradient.py"


class Predict(Contract):
    source, function = EGF, "ExponentiatedGradient.predict"
    prune = False

    def __init__(self, classification):
        self.clf = classification
        self.variant = "[classification]" if classification else "[regression]"

    def params(self, eng, st):
        self.X, self.rs_in, self.w = Abstract("X"), Abstract("random_state_arg"), Abstract("weights_")
        st.env.update({"self": Obj("ExponentiatedGradient", {"constraints": Abstract("constraints"), "weights_": self.w}), "X": self.X, "random_state": self.rs_in})

    def on_call(self, eng, st, node, name, recv, args, kwargs):
        if name.endswith("check_is_fitted"):
            return None
        if name.endswith("check_random_state"):
            eng.oblige(st, "generator_derived_from_the_callers_random_state", BoolVal(bool(args) and args[0] is self.rs_in), "wiring", node)
            return Abstract("rng")
        if name == "isinstance" and isinstance(args[0], Abstract) and args[0].tag == "constraints":
            return self.clf
        if name == "_pmf_predict" and isinstance(recv, Obj):
            eng.oblige(st, "pmf_of_the_given_X", BoolVal(bool(args) and args[0] is self.X), "wiring", node)
            return Abstract("pmf" if self.clf else "values")
        if name == "len" and isinstance(args[0], Abstract) and args[0].tag == "pos":
            return Abstract("len_pos")
        if name == "rand" and isinstance(recv, Abstract) and recv.tag == "rng":
            return Abstract("uniform", n=args[0] if args else None, seeded=True)
        if name in ("numpy.random.rand", "numpy.random.random", "numpy.random.uniform"):          # numpy's global generator: not the caller's random_state
            return Abstract("uniform", n=args[0] if args else kwargs.get("size"), seeded=False)
        if name == "numpy.random.choice":
            return Abstract("draw", values=args[0] if args else None, p=kwargs.get("p"), seeded=False)
        if name == "numpy.zeros":
            return Abstract("out", n=args[0], stores=[])
        if name == "choice" and isinstance(recv, Abstract) and recv.tag == "rng":
            return Abstract("draw", values=args[0] if args else None, p=kwargs.get("p"), seeded=True)
        return NotImplemented

    def on_subscript(self, eng, st, node, base, index):
        if isinstance(base, Abstract) and base.tag == "pmf" and isinstance(index, tuple) and len(index) == 2 and index[1] == 1:
            return Abstract("pos")
        if isinstance(base, Abstract) and base.tag == "values_iloc" and isinstance(index, tuple) and len(index) == 2:
            return Abstract("row_values", i=index[0])
        if base is self.w and isinstance(index, Abstract) and index.tag == "value_columns":
            return Abstract("weights_in_column_order")
        if isinstance(base, tuple) and index == 0:
            return base[0]
        return NotImplemented

    def on_attr(self, eng, st, node, base, attr):
        if isinstance(base, Abstract) and base.tag == "values":
            if attr == "shape":
                return (Int("n_rows"), Int("n_predictors"))
            if attr == "iloc":
                return Abstract("values_iloc")
            if attr == "columns":
                return Abstract("value_columns")
        return NotImplemented

    def on_compare(self, eng, st, node, op, a, b):
        if op == "GtE" and isinstance(a, Abstract) and a.tag == "pos" and isinstance(b, Abstract) and b.tag == "uniform":
            return Abstract("bern", u=b)
        return NotImplemented

    def on_binop(self, eng, st, node, op, a, b):
        if op == "Mult" and isinstance(a, Abstract) and a.tag == "bern" and b == 1:
            return Abstract("labels", u=a.u)
        return NotImplemented

    def on_store_subscript(self, eng, st, node, base, index, value):
        if isinstance(base, Abstract) and base.tag == "out":
            base.stores.append((index, value))
            return True
        return NotImplemented

    def havoc_abstract(self, eng, st, name, v):
        return v

    def loops(self):
        return {0: LoopSpec(lambda st: [])}

    def post(self, eng, st, status, value):
        if status != "return":
            return [("no_exception", BoolVal(False))]
        if self.clf:
            ok = isinstance(value, Abstract) and value.tag == "labels"
            return [("label_is_one_exactly_when_probability_at_least_the_uniform_draw", BoolVal(ok)),
                    ("one_uniform_draw_per_row", BoolVal(ok and isinstance(value.u.n, Abstract) and value.u.n.tag == "len_pos")),
                    ("draws_come_from_the_generator_derived_from_the_callers_random_state", BoolVal(ok and value.u.seeded))]
        ok = isinstance(value, Abstract) and value.tag == "out" and len(value.stores) == 1
        if not ok:
            return [("returns_one_draw_per_row", BoolVal(False))]
        idx, d = value.stores[0]
        good = isinstance(d, Abstract) and d.tag == "draw" and isinstance(d.values, Abstract) and d.values.tag == "row_values" and is_z3(idx) and d.values.i.eq(idx)
        return [("row_i_is_a_draw_from_the_stored_predictors_values_on_row_i", BoolVal(bool(good))),
                ("draw_probabilities_are_the_weights_in_the_order_of_the_value_columns", BoolVal(bool(good) and isinstance(d.p, Abstract) and d.p.tag == "weights_in_column_order")),
                ("draws_come_from_the_generator_derived_from_the_callers_random_state", BoolVal(bool(good) and d.seeded))]


# ------------------------------------------------------------------------------------------------ _pmf_predict
from z3 import Function, Real, RealSort  # noqa: E402

WL = Function("weight_with_label", IntSort(), RealSort())          # weights_[t]: the weight whose INDEX LABEL is t (Series label lookup)
WP = Function("weight_at_position", IntSort(), RealSort())         # weights_.iloc[t]: the t-th stored weight (weights_ need not be stored in label order)
T_ = Int("n_predictors")


class PmfPredict(Contract):
    """ExponentiatedGradient._pmf_predict for any number T of stored predictors.  weights_ is a Series indexed by predictor label (a permutation of
    0..T-1 that is NOT in order when the duality-gap evaluation appended unselected predictors); `_hs[t]` is the predictor labelled t.
    Per loop iteration (generic t): column t receives h_t(X), or zeros ONLY IF the weight labelled t is zero (then zeroing does not change the
    mixture).  After the loop: classification = columns re-ordered by weights_.index, dotted with weights_ (label-aligned mixture), returned as
    rows (1 - p, p); regression = the value frame itself."""
    source, function = EGF, "ExponentiatedGradient._pmf_predict"
    prune = False

    def __init__(self, classification):
        self.clf = classification
        self.variant = "[classification]" if classification else "[regression]"

    def params(self, eng, st):
        self.X, self.w, self.hs = Abstract("X"), Abstract("weights_"), Abstract("hs")
        st.assume(T_ >= 0)
        st.env.update({"self": Obj("ExponentiatedGradient", {"constraints": Abstract("constraints"), "weights_": self.w, "_hs": self.hs}), "X": self.X})

    def on_call(self, eng, st, node, name, recv, args, kwargs):
        if name.endswith("check_is_fitted"):
            return None
        if name == "pandas.DataFrame" and not args and not kwargs:
            return Abstract("value_frame")
        if name == "len" and args[0] is self.hs:
            return T_
        if name == "len" and args[0] is self.X:
            return Int("n_rows")
        if name == "numpy.zeros":
            return Abstract("zeros", n=args[0])
        if name == "$call" and isinstance(recv, Abstract) and recv.tag == "predictor":
            return Abstract("prediction", t=recv.t, of=args[0] if len(args) == 1 else None)
        if name == "isinstance" and isinstance(args[0], Abstract) and args[0].tag == "constraints":
            return self.clf
        if name == "dot" and isinstance(recv, Abstract) and recv.tag == "columns_in_weight_label_order":
            return Abstract("mixture", aligned=args[0] is self.w)
        if name == "to_frame" and isinstance(recv, Abstract) and recv.tag == "mixture":
            return recv
        if name == "numpy.concatenate":
            parts = eng._concrete_items(args[0])
            return Abstract("pmf", parts=tuple(parts) if parts is not None else None, axis=kwargs.get("axis"))
        return NotImplemented

    def on_attr(self, eng, st, node, base, attr):
        if base is self.w and attr == "index":
            return Abstract("weight_labels")
        if base is self.w and attr == "iloc":
            return Abstract("weights_iloc")
        if base is self.w and attr in ("loc", "at"):
            return Abstract("weights_loc")
        return NotImplemented

    def on_subscript(self, eng, st, node, base, index):
        if base is self.w and is_z3(index):
            return WL(index)
        if isinstance(base, Abstract) and base.tag == "weights_iloc" and is_z3(index):
            return WP(index)
        if isinstance(base, Abstract) and base.tag == "weights_loc" and is_z3(index):
            return WL(index)
        if base is self.hs and is_z3(index):
            return Abstract("predictor", t=index)
        if isinstance(base, Abstract) and base.tag == "value_frame" and isinstance(index, Abstract) and index.tag == "weight_labels":
            return Abstract("columns_in_weight_label_order")
        return NotImplemented

    def on_binop(self, eng, st, node, op, a, b):
        if op == "Sub" and a == 1 and isinstance(b, Abstract) and b.tag == "mixture":
            return Abstract("one_minus", of=b)
        return NotImplemented

    def on_store_subscript(self, eng, st, node, base, index, value):
        if isinstance(base, Abstract) and base.tag == "value_frame":
            t = st.env.get("t")
            eng.oblige(st, "the_column_written_in_iteration_t_is_column_t", BoolVal(is_z3(index) and is_z3(t) and index.eq(t)), "wiring", node)
            if isinstance(value, Abstract) and value.tag == "zeros":
                eng.oblige(st, "a_column_is_zeroed_only_when_the_weight_labelled_like_it_is_zero", WL(index) == 0, "post", node)
            else:
                ok = isinstance(value, Abstract) and value.tag == "prediction" and is_z3(value.t) and value.t.eq(index) and value.of is self.X
                eng.oblige(st, "column_t_is_the_prediction_of_predictor_t_on_X", BoolVal(bool(ok)), "wiring", node)
            return True
        return NotImplemented

    def havoc_abstract(self, eng, st, name, v):
        return v

    def loops(self):
        return {0: LoopSpec(lambda st: [("t_in_range", And(0 <= st.env["$k0"], st.env["$k0"] <= T_))])}

    def post(self, eng, st, status, value):
        if status != "return":
            return [("no_exception", BoolVal(False))]
        if not self.clf:
            return [("regression_returns_the_value_frame", BoolVal(isinstance(value, Abstract) and value.tag == "value_frame"))]
        ok = isinstance(value, Abstract) and value.tag == "pmf" and value.parts is not None and len(value.parts) == 2 and value.axis == 1
        if not ok:
            return [("returns_rows_one_minus_p_and_p", BoolVal(False))]
        a, b = value.parts
        return [("returns_rows_one_minus_p_and_p", BoolVal(isinstance(a, Abstract) and a.tag == "one_minus" and a.of is b)),
                ("p_is_the_label_aligned_mixture_of_the_value_columns_with_weights_", BoolVal(isinstance(b, Abstract) and b.tag == "mixture" and b.aligned))]

    def replay(self, ob, r):
        """native check on the real method: weights_ stored out of label order (as after a duality-gap evaluation that appended an unselected predictor)"""
        import numpy as np
        import pandas as pd
        from fairlearn.reductions import DemographicParity, ExponentiatedGradient
        X = np.arange(6, dtype=float).reshape(-1, 1)
        hs = pd.Series({0: (lambda X: (X[:, 0] > 0) * 1.0), 1: (lambda X: (X[:, 0] > 2) * 1.0), 2: (lambda X: (X[:, 0] > 4) * 1.0), 3: (lambda X: (X[:, 0] > 1) * 1.0)})
        w = pd.Series([0.25, 0.0, 0.5, 0.25], index=[0, 3, 1, 2])
        eg = ExponentiatedGradient.__new__(ExponentiatedGradient)
        eg.constraints, eg._hs, eg.weights_ = DemographicParity(), hs, w
        eg.estimator = None
        try:
            got = np.asarray(eg._pmf_predict(X))[:, 1]
        except Exception as ex:
            return {"confirmed": True, "key": "C10:EG._pmf_predict:raises", "what": f"_pmf_predict raised {type(ex).__name__}: {ex}"[:200], "replay": {"weights_index": [0, 3, 1, 2]}}
        want = sum(float(w[t]) * np.asarray(hs[t](X), dtype=float) for t in w.index)
        bad = not np.allclose(got, want)
        if not bad:
            # second scenario: the query is a DataFrame whose row labels are not 0..n-1 and the stored predictors answer with a Series carrying those labels
            # (as least-squares learners written with pandas do); rows must still be paired by position.  (First weight > 0: with a zero first weight
            # the unmodified code aligns on labels as well - not judged here.)
            Xd = pd.DataFrame({"x": np.arange(6, dtype=float)}, index=[5, 3, 1, 4, 0, 2])
            mk = lambda thr: (lambda X_: pd.Series((np.asarray(X_)[:, 0] > thr) * 1.0, index=getattr(X_, "index", None)))
            hs2 = pd.Series({0: mk(0), 1: mk(2), 2: mk(4), 3: mk(1)})
            w2 = pd.Series([0.25, 0.25, 0.5, 0.0], index=[0, 1, 2, 3])
            eg._hs, eg.weights_ = hs2, w2
            try:
                got = np.asarray(eg._pmf_predict(Xd))[:, 1]
                want = sum(float(w2[t]) * np.asarray(hs2[t](Xd), dtype=float) for t in w2.index)
                bad = not np.allclose(got, want, equal_nan=False)
                X, w = Xd.to_numpy(), w2
            except Exception as ex:
                return {"confirmed": True, "key": "C10:EG._pmf_predict:raises", "what": f"_pmf_predict raised {type(ex).__name__}: {ex} for a DataFrame query with row labels [5,3,1,4,0,2]"[:200],
                        "replay": {"query_index": [5, 3, 1, 4, 0, 2]}}
        return {"confirmed": bool(bad), "key": "C10:EG._pmf_predict:mixture",
                "what": f"ExponentiatedGradient._pmf_predict with weights_ {w.tolist()} labelled {list(w.index)}: P(1) = {got.tolist()}, weighted mixture of the stored predictors = {want.tolist()}",
                "replay": {"X": X.tolist(), "weights": w.tolist(), "weights_index": list(w.index), "got": got.tolist(), "expected": want.tolist()}}


class ThresholderPredict(Predict):
    """InterpolatedThresholder.predict: label 1 exactly when the reported P(1) of the row is at least a uniform draw; one draw per row from the generator
    derived from the CALLER'S random_state (whatever its value - 0 is a seed like any other), pmf of the given X and sensitive features."""
    source, function = "fairlearn/postprocessing/_interpolated_thresholder.py", "InterpolatedThresholder.predict"

    def __init__(self):
        super().__init__(True)
        self.variant = ""

    def params(self, eng, st):
        super().params(eng, st)
        self.sf = Abstract("sensitive_features_arg")
        st.env["sensitive_features"] = self.sf
        st.env["self"] = Obj("InterpolatedThresholder", {})

    def on_truth(self, eng, st, v):
        if v is self.rs_in:
            return Bool("callers_random_state_is_truthy")          # e.g. the integer seed 0 is falsy
        return NotImplemented

    def on_call(self, eng, st, node, name, recv, args, kwargs):
        if name == "_pmf_predict" and isinstance(recv, Obj):
            eng.oblige(st, "pmf_of_the_given_X_and_sensitive_features", BoolVal(bool(args) and args[0] is self.X and kwargs.get("sensitive_features") is self.sf), "wiring", node)
            return Abstract("pmf")
        return super().on_call(eng, st, node, name, recv, args, kwargs)
