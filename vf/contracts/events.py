"""Contracts of the five parity moments' load_data: the event each row belongs to (C06).

Rows are point-wise: label YL(i) in {0,1} (validator contract: binary labels enforced, default index), control value CT(i) (a string, when control
features are given).  A nullable string cell is a pair (is_null, text).  `Series.apply(f)`, `.where(cond)` and `Series.combine(other, f)` are element-wise on
position-aligned operands (both have the default index produced by the validator - checked as an obligation).  `_combine_event_and_control` is used through
its own contract (proved separately): null event stays null; otherwise "control=<c>,<event>".

Postcondition per moment (event handed to UtilityParity.load_data, for every row i):
  DemographicParity / ErrorRateParity : event "all"                     (ErrorRateParity: utilities = [y, 1-y])
  TruePositiveRateParity              : "label=1" iff y_i = 1, else no event
  FalsePositiveRateParity             : "label=0" iff y_i = 0, else no event
  EqualizedOdds                       : "label=<y_i>"
  with control features: the same event prefixed by its stratum, "control=<c_i>,<event>"; rows outside the conditioned label class still have NO event.
and the validated labels / sensitive features (not the raw arguments) are what the base class receives.
"""
import z3
from z3 import And, BoolVal, Function, If, Implies, Int, IntSort, Not, StringSort, StringVal

from ..pyvc.core import Abstract, Closure, Obj, Unsupported, is_z3
from .ndmodel import GI, Nd, NdContract, in_range, is_nd

UP = "fairlearn/reductions/_moments/utility_parity.py"
n = Int("n_rows")
YL = Function("label_of_row", IntSort(), IntSort())
CT = Function("control_of_row", IntSort(), StringSort())

MOMENTS = {"DemographicParity": ("all", None), "TruePositiveRateParity": ("label", 1), "FalsePositiveRateParity": ("label", 0),
           "EqualizedOdds": ("label", None), "ErrorRateParity": ("all", None)}


def snd(name, cell, null=None, **kw):
    return Nd(name, (n,), "series", "DEFAULT", cell=cell, nullcell=null or (lambda i: BoolVal(False)), **kw)


class EventConstruction(NdContract):
    source = UP

    def __init__(self, moment, with_control):
        self.moment, self.with_control = moment, with_control
        self.function = f"{moment}.load_data"
        self.variant = "[control features]" if with_control else "[no control features]"

    def params(self, eng, st):
        st.assume(n >= 1, z3.ForAll([GI], z3.Or(YL(GI) == 0, YL(GI) == 1), patterns=[YL(GI)]))
        self.raw = {k: Abstract("raw", name=k) for k in ("X", "y", "sensitive_features", "control_features")}
        st.env.update(self.raw)
        st.env["self"] = Obj(self.moment)
        self.y = snd("y_train", lambda i: YL(i), is_y=True)
        self.sf = snd("sf_train", lambda i: Function("group_of_row", IntSort(), IntSort())(i))
        self.cf = snd("cf_train", lambda i: CT(i)) if self.with_control else None

    def on_call(self, eng, st, node, name, recv, args, kwargs):
        if name == "_validate_and_reformat_input":
            ok = len(args) >= 2 and args[0] is self.raw["X"] and args[1] is self.raw["y"] and kwargs.get("enforce_binary_labels") is True \
                and kwargs.get("sensitive_features") is self.raw["sensitive_features"] and kwargs.get("control_features") is self.raw["control_features"]
            eng.oblige(st, "validator_gets_the_raw_arguments_and_enforces_binary_labels", BoolVal(bool(ok)), "wiring", node)
            return (Abstract("X_validated"), self.y, self.sf, self.cf)
        if name == "pandas.Series" and kwargs.get("data") == "all" and isinstance(kwargs.get("index"), Abstract) and kwargs["index"].tag == "index_of_y":
            return snd("all_event", lambda i: StringVal("all"))
        if name == "apply" and is_nd(recv) and getattr(recv, "is_y", False) and args and isinstance(args[0], Closure):
            clo = args[0]
            return snd("label_event", lambda i: eng.summarize_closure(clo, [YL(i)], st))
        if name == "where" and is_nd(recv) and args and is_nd(args[0]) and args[0].cell:
            cond, old = args[0].cell, recv.nullcell
            return snd(recv.name + ".where", recv.cell, lambda i: z3.Or(old(i), Not(cond(i))))
        if name == "combine" and is_nd(recv) and args and is_nd(args[0]) and len(args) >= 2:
            other, f = args[0], args[1]
            ok = recv.prov == "DEFAULT" and other.prov == "DEFAULT" and getattr(getattr(f, "node", None), "name", None) == "_combine_event_and_control"
            eng.oblige(st, "events_and_control_values_are_combined_row_by_row_with_the_combine_helper", BoolVal(bool(ok)), "wiring", node)
            if not ok:
                raise Unsupported("combine arguments")
            ev, evn, ct = recv.cell, recv.nullcell, other.cell
            # contract of _combine_event_and_control (control values from the validator are never null)
            return snd("event", lambda i: z3.Concat(StringVal("control="), ct(i), StringVal(","), ev(i)), lambda i: evn(i))
        if name == "str" and is_z3(args[0]) and z3.is_int(args[0]):
            return z3.IntToStr(args[0])
        if name == "numpy.vstack":
            return Abstract("vstack", parts=list(args[0].items) if hasattr(args[0], "items") else None)
        if name == "super":
            return Abstract("super")
        if name == "load_data" and isinstance(recv, Abstract) and recv.tag == "super":
            st.ghost["base_call"] = (list(args), dict(kwargs))
            return None
        return super().on_call(eng, st, node, name, recv, args, kwargs)

    def on_attr(self, eng, st, node, base, attr):
        if base is self.y and attr == "index":
            return Abstract("index_of_y")
        if isinstance(base, Abstract) and base.tag == "vstack" and attr == "T":
            return Abstract("utilities", parts=base.parts)
        return super().on_attr(eng, st, node, base, attr)

    def post(self, eng, st, status, value):
        call = st.ghost.get("base_call")
        if status != "return" or call is None:
            return [("hands_the_data_to_the_base_class", BoolVal(False))]
        args, kw = call
        ev = kw.get("event")
        out = [("base_class_gets_the_validated_labels_and_sensitive_features", BoolVal(len(args) == 2 and args[0] is self.raw["X"] and args[1] is self.y and kw.get("sensitive_features") is self.sf))]
        if not (is_nd(ev) and ev.cell):
            return out + [("event_is_a_row_wise_series", BoolVal(False))]
        kind, lab = MOMENTS[self.moment]
        rng = in_range((n,), (GI,))
        i = GI
        base = StringVal("all") if kind == "all" else z3.Concat(StringVal("label="), z3.IntToStr(YL(i)))
        want_null = BoolVal(False) if lab is None else (YL(i) != lab)
        want_text = z3.Concat(StringVal("control="), CT(i), StringVal(","), base) if self.with_control else base
        out += [("rows_outside_the_conditioned_label_class_have_no_event", Implies(rng, ev.nullcell(i) == want_null)),
                ("event_names_the_label_class_within_its_control_stratum", Implies(And(rng, Not(want_null)), ev.cell(i) == want_text))]
        if self.moment == "ErrorRateParity":
            u = kw.get("utilities")
            ok = isinstance(u, Abstract) and u.tag == "utilities" and u.parts and len(u.parts) == 2 and u.parts[0] is self.y and is_nd(u.parts[1]) and u.parts[1].cell is not None
            out.append(("utilities_are_y_and_one_minus_y", Implies(rng, u.parts[1].cell(i) == 1 - YL(i)) if ok else BoolVal(False)))
        else:
            out.append(("default_utilities", BoolVal("utilities" not in kw)))
        return out
