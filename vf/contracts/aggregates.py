"""Contracts of DisaggregatedResult.apply_grouping / difference / ratio (C02) without control features, for any number K >= 1 of groups.

View: by_group is a frame with one row per sensitive-feature group; all pandas operations used are column-wise, so one *generic metric column*
with scalar, non-NaN cells V(g), g in [0,K), is verified (NaN cells of empty groups, control-feature strata and non-scalar cells: bounded stand-in).
Spec extrema: MIN/MAX are characterised by (forall g. MIN <= V(g)) and (exists g. V(g) = MIN) (and dually) - the assumed contract of pandas agg/min/max on
non-NaN data.  Element-wise `apply`/`transform` of a small Python function is executed symbolically on a generic element.

Postconditions (property C02): group_min / group_max are the extrema; difference(between_groups) = group_max - group_min; difference(to_overall) = max_g |V(g) - overall|;
ratio(between_groups) = group_min / group_max; ratio(to_overall) = min_g f(V(g)/overall) with f the code's ratio_sub_one (its own contract: = min(r, 1/r) for r > 0);
errors='raise' and 'coerce' agree for scalar cells; an unknown method / errors / grouping function raises ValueError.
"""
import z3
from z3 import And, BoolVal, ForAll, Function, If, Implies, Int, IntSort, Not, Or, Real, RealSort

from ..pyvc.core import Abstract, Closure, Obj, PyList, Unsupported, fresh, is_z3, to_real
from .ndmodel import GI, Nd, NdContract, _arith, in_range, is_nd

DR = "fairlearn/metrics/_disaggregated_result.py"
K = Int("n_groups")
V = Function("group_value", IntSort(), RealSort())
VI = Function("group_count", IntSort(), IntSort())          # integer-valued metric cells (counts): numpy integers are scalars too
OV = Real("overall")
# with control features: C strata (control-feature combinations) x K sensitive groups; obligations are stated for ONE generic stratum GI in [0,C)
C = Int("n_strata")
V2 = Function("stratum_group_value", IntSort(), IntSort(), RealSort())
OV2 = Function("stratum_overall", IntSort(), RealSort())


def at_generic_stratum(f):
    def cell(c):
        if c is not GI and not (is_z3(c) and c.eq(GI)):
            raise Unsupported("per-stratum value read at another stratum than the generic one")
        return f()
    return cell
g_ = Int("g")


def is_nan(v):
    return isinstance(v, Abstract) and v.tag == "nan"


def extremum(st, cell, kind, name, pat=None):
    """spec min/max of cell over [0,K): fresh value + witness (assumed pandas contract on non-NaN data; an all-NaN column gives NaN)"""
    if is_nan(cell(g_)):
        return Abstract("nan")
    m, w = fresh(name, RealSort()), fresh(name + "_at")
    st.assume(0 <= w, w < K, to_real(cell(w)) == m,
              ForAll([g_], Implies(And(0 <= g_, g_ < K), m <= to_real(cell(g_)) if kind == "min" else m >= to_real(cell(g_))), patterns=[pat(g_) if pat else V(g_)]))
    return m


class _Agg(NdContract):
    source = DR
    check_pointwise_division = True
    prune = True

    int_cells = False
    cf = False

    def val(self, g):
        return V2(GI, g) if self.cf else to_real(VI(g)) if self.int_cells else V(g)

    def pat(self, g):
        return V2(GI, g) if self.cf else VI(g) if self.int_cells else V(g)

    def ov(self):
        return OV2(GI) if self.cf else OV

    def result_value(self, value):
        """the aggregate of the generic stratum (one value per metric and control-feature combination), or None"""
        if not (is_nd(value) and value.cell):
            return None
        if self.cf:
            return value.cell(GI) if len(value.shape) == 1 and getattr(value, "by_control", False) else None
        return value.cell() if len(value.shape) == 0 else None

    def on_binop(self, eng, st, node, op, a, b):
        if op in ("Add", "Sub", "Mult", "Div") and is_nd(a) and is_nd(b) and getattr(a, "levels", 0) == 2 and getattr(b, "by_control", False) and a.cell and b.cell:
            # pandas aligns a (control, sensitive)-indexed frame with a control-indexed one on the shared levels: broadcast over the sensitive level (assumed)
            return self._derive(a, name=f"({a.name}{op}{b.name})", cell=lambda c, g: _arith(op, a.cell(c, g), b.cell(c)))
        r = super().on_binop(eng, st, node, op, a, b)
        if is_nd(r) and is_nd(a) and is_nd(b) and getattr(a, "by_control", False) and getattr(b, "by_control", False):
            r.by_control = True          # both operands carry one value per control-feature combination, same index
        return r

    def spec_extremum(self, st, kind, name):
        return extremum(st, self.val, kind, name, self.pat)

    def on_attr(self, eng, st, node, base, attr):
        if isinstance(base, Abstract) and base.tag == "module" and base.name == "numpy" and attr in ("np.nan", "numpy.nan", "nan"):
            return Abstract("nan")
        return super().on_attr(eng, st, node, base, attr)

    def base_env(self, st):
        st.assume(K >= 1)
        if self.cf:
            st.assume(C >= 1, 0 <= GI, GI < C)
            self.by_group = Nd("by_group", (C, K), "frame", "DEFAULT", cell=lambda c, g: V2(c, g), is_by_group=True, levels=2)
            self.overall = Nd("overall", (C,), "frame", "DEFAULT", cell=lambda c: OV2(c), by_control=True)
            return Obj("DisaggregatedResult", {"by_group": self.by_group, "overall": self.overall})
        self.by_group = Nd("by_group", (K,), "frame", "DEFAULT", cell=(lambda g: VI(g)) if self.int_cells else (lambda g: V(g)), is_by_group=True)
        self.overall = Nd("overall", (), "series", "DEFAULT", cell=lambda: OV)
        return Obj("DisaggregatedResult", {"by_group": self.by_group, "overall": self.overall})

    def on_call(self, eng, st, node, name, recv, args, kwargs):
        if name in ("apply", "transform") and is_nd(recv) and recv.cell and args and isinstance(args[0], Closure):
            clo = args[0]
            probe = self._derive(recv, name="column", kind="series", is_column=True)
            if getattr(recv, "is_column", False) or name == "transform":
                c = recv.cell          # element-wise application
                return self._derive(recv, cell=lambda *ix: eng.summarize_closure(clo, [c(*ix)], st))
            # frame.apply(f): f receives each column
            return eng.call(clo, [probe], {}, st, node)
        if name == "groupby" and is_nd(recv) and getattr(recv, "levels", 0) == 2:
            ok = not args and set(kwargs) == {"level"} and kwargs["level"] is st.env.get("control_feature_names")
            eng.oblige(st, "groups_by_the_control_levels_of_the_index", BoolVal(bool(ok)), "wiring", node)
            return Abstract("grouped", of=recv)
        if isinstance(recv, Abstract) and recv.tag == "grouped" and (name in ("min", "max") and not args or name == "agg" and args and args[0] in ("min", "max")):
            kind, of = (name if name != "agg" else args[0]), recv.of
            m = extremum(st, lambda g: of.cell(GI, g), kind, "stratum_" + kind, self.pat)
            return Nd(f"{kind}_per_stratum({of.name})", (C,), "frame", "DEFAULT", cell=at_generic_stratum(lambda: m), by_control=True)
        if name == "agg" and is_nd(recv) and recv.cell and args and args[0] in ("min", "max") and not getattr(recv, "levels", 0):
            m = extremum(st, recv.cell, args[0], "group_" + args[0], self.pat)
            return Nd(f"{args[0]}({recv.name})", (), "series", "DEFAULT", cell=lambda: m, extremum=(args[0], recv))
        if name in ("min", "max") and is_nd(recv) and recv.cell and len(recv.shape) == 1 and not args:
            m = extremum(st, recv.cell, name, "col_" + name, self.pat)
            return Nd(f"{name}({recv.name})", (), "series", "DEFAULT", cell=lambda: m)
        if name == "abs" and is_nd(recv) and recv.cell:
            c = recv.cell
            return self._derive(recv, cell=lambda *ix: If(to_real(c(*ix)) >= 0, to_real(c(*ix)), -to_real(c(*ix))))
        if name == "apply_grouping" and isinstance(recv, Obj):
            kind = args[0]
            if kind not in ("min", "max"):
                raise Unsupported("apply_grouping of another function")
            eng.oblige(st, "errors_setting_forwarded", BoolVal(kwargs.get("errors") is st.env.get("errors")), "wiring", node)
            eng.oblige(st, "control_feature_names_forwarded", BoolVal(len(args) == 2 and args[1] is st.env.get("control_feature_names")), "wiring", node)
            if self.cf:
                m = extremum(st, lambda g: V2(GI, g), kind, "group_" + kind, self.pat)
                return Nd(f"group_{kind}", (C,), "frame", "DEFAULT", cell=at_generic_stratum(lambda: m), by_control=True)
            m = extremum(st, self.by_group.cell, kind, "group_" + kind, self.pat)       # callee contract (ApplyGrouping, proved separately)
            return Nd(f"group_{kind}", (), "series", "DEFAULT", cell=lambda: m, extremum=(kind, self.by_group))
        if name == "numpy.isscalar" and is_z3(args[0]):
            return True          # python / numpy numbers of any kind (float, int, bool) are scalars
        if name == "numpy.isscalar" and is_nan(args[0]):
            return True
        return super().on_call(eng, st, node, name, recv, args, kwargs)


def native_search(kind, a, b, int_cells=False, kmax=3):
    """bounded native search on the real DisaggregatedResult for an input that contradicts the property's formula (used after a refuted / undecided
    obligation): group values from a small signed grid (difference, extrema) or a positive grid (ratio: the negative case is the separate known finding)."""
    import itertools
    import math
    import numpy as np
    import pandas as pd
    from fairlearn.metrics._disaggregated_result import DisaggregatedResult
    signed = [-2, -1, 0, 1, 3] if int_cells else [-2.0, -0.5, 0.0, 0.5, 1.0, 3.0]
    pos = [1, 2, 5] if int_cells else [0.25, 0.5, 1.0, 2.0]
    grid = pos if kind == "ratio" else signed
    if kind == "ratio" and a == "between_groups":
        grid = [0] + pos          # zero denominators: min / max is the floating-point quotient (0/0 = NaN)
    wrap = (lambda x: np.int64(x)) if int_cells else float
    grids = [grid] if int_cells else [grid, [g * 1e-9 for g in grid]]          # also values of tiny magnitude: the aggregates are exact functions, not "close to" ones
    for grid, k in [(g_, k_) for g_ in grids for k_ in range(1, kmax + 1)]:
        if grid is not grids[0] and k > 2:
            continue
        for vals in itertools.product(grid, repeat=k):
            ovs = (grid if b is not None and a == "to_overall" else grid[:1])
            if kind == "ratio" and a == "to_overall":
                ovs = list(ovs) + [0]          # zero denominator: r = group/0 = inf for a positive group, min(r, 1/r) = 0
            for ov in ovs:
                bg = pd.DataFrame({"m": [wrap(v) for v in vals]}, index=pd.Index([f"g{i}" for i in range(k)], name="sf"))
                dr = DisaggregatedResult(pd.Series({"m": wrap(ov)}), bg)
                try:
                    if kind == "grouping":
                        got, want = dr.apply_grouping(a, None, errors=b)["m"], (min(vals) if a == "min" else max(vals))
                    elif kind == "difference":
                        got = dr.difference(None, method=a, errors=b)["m"]
                        want = max(vals) - min(vals) if a == "between_groups" else max(abs(v - ov) for v in vals)
                    else:
                        got = dr.ratio(None, method=a, errors=b)["m"]
                        want = (math.nan if max(vals) == 0 else min(vals) / max(vals)) if a == "between_groups" else (0.0 if ov == 0 else min(min(v / ov, ov / v) for v in vals))
                except Exception as ex:
                    got, want = f"{type(ex).__name__}: {ex}"[:120], "a number"
                if isinstance(want, float) and math.isnan(want):
                    ok = isinstance(got, (float, np.floating)) and math.isnan(got)
                else:
                    ok = isinstance(got, (int, float, np.number)) and not (isinstance(got, float) and math.isnan(got)) \
                        and abs(float(got) - float(want)) <= 1e-9 * max(abs(float(want)), max(abs(float(v)) for v in vals))
                if not ok:
                    return {"by_group": [float(v) for v in vals], "overall": float(ov), "integer_cells": int_cells, "call": [kind, a, b], "got": repr(got), "expected": repr(want)}
    return None


class _Replay:
    kind = None

    def replay(self, ob, r):
        a, b = (self.fn_name, self.errors) if self.kind == "grouping" else (self.method, self.errors)
        if b not in ("raise", "coerce") or a not in ("min", "max", "between_groups", "to_overall"):
            return None
        found = native_search(self.kind, a, b, self.int_cells)
        if found is None:
            return {"confirmed": False}
        return {"confirmed": True, "key": f"C02:{self.kind}:{a}:{b}:wrong-value",
                "what": f"DisaggregatedResult {self.kind}({a}, errors={b}) on by_group={found['by_group']} overall={found['overall']} -> {found['got']}, expected {found['expected']}", "replay": found}


class ApplyGrouping(_Replay, _Agg):
    kind = "grouping"
    function = "DisaggregatedResult.apply_grouping"

    def __init__(self, fn_name, errors, int_cells=False, cf=False):
        self.fn_name, self.errors, self.int_cells, self.cf = fn_name, errors, int_cells, cf
        self.variant = f"[{fn_name},{errors}{',integer cells' if int_cells else ''}{',control features' if cf else ''}]"

    def params(self, eng, st):
        st.env.update({"self": self.base_env(st), "grouping_function": self.fn_name, "control_feature_names": PyList(["cf"]) if self.cf else None, "errors": self.errors})

    def post(self, eng, st, status, value):
        valid = self.fn_name in ("min", "max") and self.errors in ("raise", "coerce")
        if status == "raise":
            return [("raises_only_for_unknown_function_or_errors_value", BoolVal(not valid)), ("raises_ValueError", BoolVal(value.typ in ("ValueError", "AssertionError")))]
        rv = self.result_value(value)
        if rv is None:
            return [("returns_one_value_per_metric_and_control_combination", BoolVal(False))]
        if not is_z3(rv):
            return [("scalar_cells_are_never_coerced_to_NaN", BoolVal(False))]
        r = to_real(rv)
        cmp = (lambda a, b: a <= b) if self.fn_name == "min" else (lambda a, b: a >= b)
        w = Int("w")
        return [("returns_only_for_known_arguments", BoolVal(valid)),
                ("bounds_every_group", ForAll([g_], Implies(And(0 <= g_, g_ < K), cmp(r, self.val(g_))))),
                ("is_attained_by_some_group", z3.Exists([w], And(0 <= w, w < K, self.val(w) == r)))]


class Difference(_Replay, _Agg):
    kind = "difference"
    function = "DisaggregatedResult.difference"

    def __init__(self, method, errors, int_cells=False, cf=False):
        self.method, self.errors, self.int_cells, self.cf = method, errors, int_cells, cf
        self.variant = f"[{method},{errors}{',integer cells' if int_cells else ''}{',control features' if cf else ''}]"

    def params(self, eng, st):
        st.env.update({"self": self.base_env(st), "control_feature_names": PyList(["cf"]) if self.cf else None, "method": self.method, "errors": self.errors})

    def post(self, eng, st, status, value):
        valid = self.method in ("between_groups", "to_overall") and self.errors in ("raise", "coerce")
        if status == "raise":
            return [("raises_only_for_unknown_method_or_errors_value", BoolVal(not valid)), ("raises_ValueError", BoolVal(value.typ == "ValueError"))]
        rv = self.result_value(value)
        if rv is None:
            return [("returns_one_value_per_metric_and_control_combination", BoolVal(False))]
        if not is_z3(rv):
            return [("scalar_cells_are_never_coerced_to_NaN", BoolVal(False))]
        r = to_real(rv)
        mn, mx = self.spec_extremum(st, "min", "spec_min"), self.spec_extremum(st, "max", "spec_max")
        V = self.val
        out = [("returns_only_for_known_arguments", BoolVal(valid)), ("difference_is_non_negative", r >= 0)]
        if self.method == "between_groups":
            out.append(("difference_is_group_max_minus_group_min", r == mx - mn))
        else:
            w = Int("w")
            OV = self.ov()
            absd = lambda g: If(V(g) - OV >= 0, V(g) - OV, OV - V(g))
            out += [("bounds_every_groups_distance_to_overall", ForAll([g_], Implies(And(0 <= g_, g_ < K), absd(g_) <= r))),
                    ("is_the_distance_of_some_group", z3.Exists([w], And(0 <= w, w < K, absd(w) == r)))]
        return out


class Ratio(_Replay, _Agg):
    kind = "ratio"
    function = "DisaggregatedResult.ratio"

    def __init__(self, method, errors, int_cells=False, cf=False):
        self.method, self.errors, self.int_cells, self.cf = method, errors, int_cells, cf
        self.variant = f"[{method},{errors}{',integer cells' if int_cells else ''}{',control features' if cf else ''}]"

    def params(self, eng, st):
        st.env.update({"self": self.base_env(st), "control_feature_names": PyList(["cf"]) if self.cf else None, "method": self.method, "errors": self.errors})
        if self.method == "to_overall":
            st.assume(self.ov() != 0)
        else:
            st.assume(ForAll([g_], Implies(And(0 <= g_, g_ < K), self.val(g_) > 0), patterns=[self.pat(g_)]))      # positive metric values: min/max is defined and in (0,1]

    def post(self, eng, st, status, value):
        valid = self.method in ("between_groups", "to_overall") and self.errors in ("raise", "coerce")
        if status == "raise":
            return [("raises_only_for_unknown_method_or_errors_value", BoolVal(not valid)), ("raises_ValueError", BoolVal(value.typ == "ValueError"))]
        rv = self.result_value(value)
        if rv is None:
            return [("returns_one_value_per_metric_and_control_combination", BoolVal(False))]
        if not is_z3(rv):
            return [("scalar_cells_are_never_coerced_to_NaN", BoolVal(False))]
        r = to_real(rv)
        V = self.val
        out = [("returns_only_for_known_arguments", BoolVal(valid))]
        if self.method == "between_groups":
            mn, mx = self.spec_extremum(st, "min", "spec_min"), self.spec_extremum(st, "max", "spec_max")
            out += [("ratio_is_group_min_over_group_max", r * mx == mn), ("ratio_at_most_one", r <= 1), ("ratio_non_negative", r >= 0)]
        else:
            w = Int("w")
            OV = self.ov()
            q = lambda g: V(g) / OV
            f = lambda x: If(x > 1, 1 / x, x)                     # the code's ratio_sub_one (contract RatioSubOne: = min(r, 1/r) for r > 0)
            out += [("bounds_every_groups_folded_ratio", ForAll([g_], Implies(And(0 <= g_, g_ < K), r <= f(q(g_))))),
                    ("is_the_folded_ratio_of_some_group", z3.Exists([w], And(0 <= w, w < K, f(q(w)) == r))),
                    ("ratio_at_most_one", r <= 1)]
        return out
