"""Contracts of DisaggregatedResult.apply_grouping / difference / ratio (C02) without control features, for any number K >= 1 of groups.

View: by_group is a frame with one row per sensitive-feature group; all pandas operations used are column-wise, so one *generic metric column*
with scalar, non-NaN cells V(g), g in [0,K), is verified (NaN cells of empty groups, control-feature strata and non-scalar cells: bounded stand-in).
Spec extrema: MIN/MAX are characterised by (forall g. MIN <= V(g)) and (exists g. V(g) = MIN) (and dually) - the assumed contract of pandas agg/min/max on
non-NaN data.  Element-wise `apply`/`transform` of a small Python function is executed symbolically on a generic element.

Postconditions (property C02): group_min / group_max are the extrema; difference(between_groups) = group_max - group_min; difference(to_overall) = max_g |V(g) - overall|;
ratio(between_groups) = group_min / group_max; ratio(to_overall) = min_g f(V(g)/overall) with f the code's ratio_sub_one (its own contract: = min(r, 1/r) for r > 0);
errors='raise' and 'coerce' agree for scalar cells; an unknown method / errors / grouping function raises ValueError.
"""
import z3
from z3 import And, BoolVal, ForAll, Function, If, Implies, Int, IntSort, Not, Or, Real, RealSort

from ..pyvc.core import Abstract, Closure, Obj, Unsupported, fresh, is_z3, to_real
from .ndmodel import GI, Nd, NdContract, in_range, is_nd

DR = "fairlearn/metrics/_disaggregated_result.py"
K = Int("n_groups")
V = Function("group_value", IntSort(), RealSort())
OV = Real("overall")
g_ = Int("g")


def extremum(st, cell, kind, name):
    """spec min/max of cell over [0,K): fresh value + witness (assumed pandas contract on non-NaN data)"""
    m, w = fresh(name, RealSort()), fresh(name + "_at")
    st.assume(0 <= w, w < K, to_real(cell(w)) == m,
              ForAll([g_], Implies(And(0 <= g_, g_ < K), m <= to_real(cell(g_)) if kind == "min" else m >= to_real(cell(g_))), patterns=[V(g_)]))
    return m


class _Agg(NdContract):
    source = DR
    check_pointwise_division = True
    prune = True

    def base_env(self, st):
        st.assume(K >= 1)
        self.by_group = Nd("by_group", (K,), "frame", "DEFAULT", cell=lambda g: V(g), is_by_group=True)
        self.overall = Nd("overall", (), "series", "DEFAULT", cell=lambda: OV)
        return Obj("DisaggregatedResult", {"by_group": self.by_group, "overall": self.overall})

    def on_call(self, eng, st, node, name, recv, args, kwargs):
        if name in ("apply", "transform") and is_nd(recv) and recv.cell and args and isinstance(args[0], Closure):
            clo = args[0]
            probe = Nd("column", recv.shape, "series", "DEFAULT", cell=recv.cell, is_column=True)
            if getattr(recv, "is_column", False) or name == "transform":
                c = recv.cell          # element-wise application
                return self._derive(recv, cell=lambda *ix: eng.summarize_closure(clo, [c(*ix)], st))
            # frame.apply(f): f receives each column
            return eng.call(clo, [probe], {}, st, node)
        if name == "agg" and is_nd(recv) and recv.cell and args and args[0] in ("min", "max"):
            m = extremum(st, recv.cell, args[0], "group_" + args[0])
            return Nd(f"{args[0]}({recv.name})", (), "series", "DEFAULT", cell=lambda: m, extremum=(args[0], recv))
        if name in ("min", "max") and is_nd(recv) and recv.cell and len(recv.shape) == 1 and not args:
            m = extremum(st, recv.cell, name, "col_" + name)
            return Nd(f"{name}({recv.name})", (), "series", "DEFAULT", cell=lambda: m)
        if name == "abs" and is_nd(recv) and recv.cell:
            c = recv.cell
            return self._derive(recv, cell=lambda *ix: If(to_real(c(*ix)) >= 0, to_real(c(*ix)), -to_real(c(*ix))))
        if name == "apply_grouping" and isinstance(recv, Obj):
            kind = args[0]
            if kind not in ("min", "max"):
                raise Unsupported("apply_grouping of another function")
            eng.oblige(st, "errors_setting_forwarded", BoolVal(kwargs.get("errors") is st.env.get("errors")), "wiring", node)
            m = extremum(st, self.by_group.cell, kind, "group_" + kind)       # callee contract (ApplyGrouping, proved separately)
            return Nd(f"group_{kind}", (), "series", "DEFAULT", cell=lambda: m, extremum=(kind, self.by_group))
        if name == "numpy.isscalar" and is_z3(args[0]):
            return True
        return super().on_call(eng, st, node, name, recv, args, kwargs)


class ApplyGrouping(_Agg):
    function = "DisaggregatedResult.apply_grouping"

    def __init__(self, fn_name, errors):
        self.fn_name, self.errors = fn_name, errors
        self.variant = f"[{fn_name},{errors}]"

    def params(self, eng, st):
        st.env.update({"self": self.base_env(st), "grouping_function": self.fn_name, "control_feature_names": None, "errors": self.errors})

    def post(self, eng, st, status, value):
        valid = self.fn_name in ("min", "max") and self.errors in ("raise", "coerce")
        if status == "raise":
            return [("raises_only_for_unknown_function_or_errors_value", BoolVal(not valid)), ("raises_ValueError", BoolVal(value.typ in ("ValueError", "AssertionError")))]
        if not (is_nd(value) and value.cell and len(value.shape) == 0):
            return [("returns_one_value_per_metric", BoolVal(False))]
        r = to_real(value.cell())
        cmp = (lambda a, b: a <= b) if self.fn_name == "min" else (lambda a, b: a >= b)
        w = Int("w")
        return [("returns_only_for_known_arguments", BoolVal(valid)),
                ("bounds_every_group", ForAll([g_], Implies(And(0 <= g_, g_ < K), cmp(r, V(g_))))),
                ("is_attained_by_some_group", z3.Exists([w], And(0 <= w, w < K, V(w) == r)))]


class Difference(_Agg):
    function = "DisaggregatedResult.difference"

    def __init__(self, method, errors):
        self.method, self.errors = method, errors
        self.variant = f"[{method},{errors}]"

    def params(self, eng, st):
        st.env.update({"self": self.base_env(st), "control_feature_names": None, "method": self.method, "errors": self.errors})

    def post(self, eng, st, status, value):
        valid = self.method in ("between_groups", "to_overall") and self.errors in ("raise", "coerce")
        if status == "raise":
            return [("raises_only_for_unknown_method_or_errors_value", BoolVal(not valid)), ("raises_ValueError", BoolVal(value.typ == "ValueError"))]
        if not (is_nd(value) and value.cell and len(value.shape) == 0):
            return [("returns_one_value_per_metric", BoolVal(False))]
        r = to_real(value.cell())
        mn, mx = extremum(st, lambda g: V(g), "min", "spec_min"), extremum(st, lambda g: V(g), "max", "spec_max")
        out = [("returns_only_for_known_arguments", BoolVal(valid)), ("difference_is_non_negative", r >= 0)]
        if self.method == "between_groups":
            out.append(("difference_is_group_max_minus_group_min", r == mx - mn))
        else:
            w = Int("w")
            absd = lambda g: If(V(g) - OV >= 0, V(g) - OV, OV - V(g))
            out += [("bounds_every_groups_distance_to_overall", ForAll([g_], Implies(And(0 <= g_, g_ < K), absd(g_) <= r))),
                    ("is_the_distance_of_some_group", z3.Exists([w], And(0 <= w, w < K, absd(w) == r)))]
        return out


class Ratio(_Agg):
    function = "DisaggregatedResult.ratio"

    def __init__(self, method, errors):
        self.method, self.errors = method, errors
        self.variant = f"[{method},{errors}]"

    def params(self, eng, st):
        st.env.update({"self": self.base_env(st), "control_feature_names": None, "method": self.method, "errors": self.errors})
        if self.method == "to_overall":
            st.assume(OV != 0)
        else:
            st.assume(ForAll([g_], Implies(And(0 <= g_, g_ < K), V(g_) > 0), patterns=[V(g_)]))      # positive metric values: min/max is defined and in (0,1]

    def post(self, eng, st, status, value):
        valid = self.method in ("between_groups", "to_overall") and self.errors in ("raise", "coerce")
        if status == "raise":
            return [("raises_only_for_unknown_method_or_errors_value", BoolVal(not valid)), ("raises_ValueError", BoolVal(value.typ == "ValueError"))]
        if not (is_nd(value) and value.cell and len(value.shape) == 0):
            return [("returns_one_value_per_metric", BoolVal(False))]
        r = to_real(value.cell())
        out = [("returns_only_for_known_arguments", BoolVal(valid))]
        if self.method == "between_groups":
            mn, mx = extremum(st, lambda g: V(g), "min", "spec_min"), extremum(st, lambda g: V(g), "max", "spec_max")
            out += [("ratio_is_group_min_over_group_max", r * mx == mn), ("ratio_at_most_one", r <= 1), ("ratio_non_negative", r >= 0)]
        else:
            w = Int("w")
            q = lambda g: V(g) / OV
            f = lambda x: If(x > 1, 1 / x, x)                     # the code's ratio_sub_one (contract RatioSubOne: = min(r, 1/r) for r > 0)
            out += [("bounds_every_groups_folded_ratio", ForAll([g_], Implies(And(0 <= g_, g_ < K), r <= f(q(g_))))),
                    ("is_the_folded_ratio_of_some_group", z3.Exists([w], And(0 <= w, w < K, f(q(w)) == r))),
                    ("ratio_at_most_one", r <= 1)]
        return out
