"""Contracts of the discrete prediction functions of the adversarial estimators (C17, 'predict stays in label space').

_binary_predictor_function(pred): 1.0 exactly where pred >= threshold_value, else 0.0 (point-wise); AdversarialFairnessClassifier.__init__ fixes
threshold_value = 0.5 (call-site obligation on the super().__init__ call).  _set_predictor_function: 'binary' -> that function, 'continuous' -> the
identity, 'multiclass' -> one-hot of the row-wise argmax, anything else raises ValueError.
"""
import ast

import z3
from z3 import BoolVal, Function, If, Implies, Int, IntSort, Real, RealSort

from ..pyvc.core import Abstract, Closure, Contract, Obj, Unsupported, is_z3
from .ndmodel import GI, Nd, NdContract, in_range, is_nd

AM = "fairlearn/adversarial/_adversarial_mitigation.py"
n = Int("n_rows")
PRED = Function("predictor_output", IntSort(), RealSort())


class BinaryPredictor(NdContract):
    source, function = AM, "_AdversarialFairness._binary_predictor_function"

    def params(self, eng, st):
        self.thr = Real("threshold_value")
        st.env.update({"self": Obj("_AdversarialFairness", {"threshold_value": self.thr}), "pred": Nd("pred", (n,), "ndarray", "ERASED", cell=lambda i: PRED(i))})

    def on_call(self, eng, st, node, name, recv, args, kwargs):
        if name == "astype" and is_nd(recv) and recv.cell:
            c = recv.cell
            return self._derive(recv, cell=lambda i: If(c(i), z3.RealVal(1), z3.RealVal(0)) if z3.is_bool(c(i)) else c(i))
        return super().on_call(eng, st, node, name, recv, args, kwargs)

    def post(self, eng, st, status, value):
        if status != "return" or not (is_nd(value) and value.cell):
            return [("returns_an_array", BoolVal(False))]
        return [("positive_class_exactly_when_output_at_least_threshold",
                 Implies(in_range((n,), (GI,)), value.cell(GI) == If(PRED(GI) >= self.thr, z3.RealVal(1), z3.RealVal(0))))]


class SetPredictorFunction(NdContract):
    source, function = AM, "_AdversarialFairness._set_predictor_function"

    def __init__(self, kw):
        self.kw = kw
        self.variant = f"[{kw}]"

    def params(self, eng, st):
        self.user_fn = Abstract("user_callable", callable=True)
        st.env["self"] = Obj("_AdversarialFairness", {"predictor_function_": self.user_fn if self.kw == "<callable>" else (3 if self.kw == "<number>" else self.kw)})

    def on_call(self, eng, st, node, name, recv, args, kwargs):
        if name == "numpy.argmax":
            return Abstract("argmax", of=args[0], axis=kwargs.get("axis"))
        if name == "numpy.zeros":
            return Abstract("zeros", shape=args[0], stores=[])
        if name == "numpy.arange":
            return Abstract("arange", n=args[0])
        return super().on_call(eng, st, node, name, recv, args, kwargs)

    def on_attr(self, eng, st, node, base, attr):
        if isinstance(base, Obj) and attr == "_binary_predictor_function":
            return Abstract("bound_method", name=attr)
        if isinstance(base, Abstract) and base.tag == "probe" and attr == "shape":
            return (Int("rows"), Int("classes"))
        return super().on_attr(eng, st, node, base, attr)

    def on_store_subscript(self, eng, st, node, base, index, value):
        if isinstance(base, Abstract) and base.tag == "zeros":
            base.stores.append((index, value))
            return True
        return super().on_store_subscript(eng, st, node, base, index, value)

    def post(self, eng, st, status, value):
        valid = self.kw in ("binary", "multiclass", "continuous", "<callable>")
        if status == "raise":
            return [("raises_only_for_an_unknown_keyword", BoolVal(not valid)), ("raises_ValueError", BoolVal(value.typ == "ValueError"))]
        f = st.env["self"].fields["predictor_function_"]
        out = [("returns_only_for_a_known_keyword", BoolVal(valid))]
        if self.kw == "<callable>":
            out.append(("user_callable_is_kept", BoolVal(f is self.user_fn)))
        elif self.kw == "binary":
            out.append(("binary_uses_the_threshold_function", BoolVal(isinstance(f, Abstract) and f.tag == "bound_method" and f.name == "_binary_predictor_function")))
        elif self.kw == "continuous":
            probe = Real("x")
            ok = isinstance(f, Closure)
            res = eng.call(f, [probe], {}, st, None) if ok else None
            out.append(("continuous_is_the_identity", BoolVal(ok and res is probe)))
        elif self.kw == "multiclass":
            ok = isinstance(f, Closure)
            good = False
            if ok:
                p = Abstract("probe")
                res = eng.call(f, [p], {}, st, None)
                if isinstance(res, Abstract) and res.tag == "zeros" and len(res.stores) == 1:
                    (idx, val), = res.stores
                    good = (val == 1 and isinstance(idx, tuple) and len(idx) == 2 and isinstance(idx[0], Abstract) and idx[0].tag == "arange"
                            and isinstance(idx[1], Abstract) and idx[1].tag == "argmax" and idx[1].of is p and idx[1].axis == 1
                            and isinstance(res.shape, tuple) and is_z3(idx[0].n) and idx[0].n.eq(res.shape[0]))
            out.append(("multiclass_is_the_one_hot_of_the_row_argmax", BoolVal(bool(good))))
        return out


def classifier_threshold_obligation():
    """call-site obligation: AdversarialFairnessClassifier.__init__ passes threshold_value=0.5 to the base constructor"""
    from ..pyvc.core import Source
    src = Source.load(AM)
    fn = src.func("AdversarialFairnessClassifier.__init__")
    for c in ast.walk(fn):
        if isinstance(c, ast.Call) and "__init__" in ast.unparse(c.func):
            for kw in c.keywords:
                if kw.arg == "threshold_value":
                    return isinstance(kw.value, ast.Constant) and kw.value.value == 0.5, fn.lineno, src.sha("AdversarialFairnessClassifier.__init__")
    return False, fn.lineno, src.sha("AdversarialFairnessClassifier.__init__")
