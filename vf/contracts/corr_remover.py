"""Contracts of CorrelationRemover.fit / transform (C15) over the numpy shape model with point-wise cells (DESIGN 3.7).

Arrays are (shape, cell(i,j)) views; reductions and matrix products are opaque spec functions: mean_col<S>(j), dot<A|B>(i,j), and
np.linalg.lstsq(A, B) returns an opaque coefficient matrix tagged with its operands (normal-equation contract: A^T (B - A beta) = 0, assumed).
_split_X is replaced by its contract: X_use / X_sensitive are the non-sensitive / sensitive columns of X (own obligations: bounded stand-in).

fit   ensures  sensitive_mean_[j] == mean over rows of X_sensitive[:, j]            (property: 'per-column-centred sensitive columns')
               beta_ == lstsq(X_sensitive - 1*sensitive_mean_^T, X_use)             ('least-squares projection on the centred sensitive columns')
               returns self, records the number of input columns
transform ensures out[i,j] == alpha*(X_use[i,j] - ((X_sensitive - 1*sensitive_mean_^T) . beta_)[i,j]) + (1-alpha)*X_use[i,j]
               with the STORED mean and coefficients (same affine map on new data)
Lemma cov.zero (vf/deductive/C15.py): normal equations + column-centred S => zero sample covariance at alpha = 1.
"""
import z3
from z3 import And, BoolVal, Function, Implies, Int, IntSort, Real, RealSort

from ..pyvc.core import Abstract, Contract, Obj, PyList, Unsupported, is_z3, lift
from .ndmodel import Nd, NdContract, is_nd

CR = "fairlearn/preprocessing/_correlation_remover.py"
n, m, k = Int("n_rows"), Int("n_cols"), Int("n_sensitive")
XF = Function("X", IntSort(), IntSort(), RealSort())
UF = Function("X_use", IntSort(), IntSort(), RealSort())
SF = Function("X_sensitive", IntSort(), IntSort(), RealSort())
I, J = Int("i"), Int("j")


class _Base(NdContract):
    source = CR

    def common_env(self, st):
        st.assume(n >= 1, m >= 1, k >= 0, k <= m)
        self.X = Nd("X", (n, m), "user", "USER", cell=lambda i, j: XF(i, j))
        self.U = Nd("X_use", (n, m - k), "ndarray", "ERASED", cell=lambda i, j: UF(i, j))
        self.S = Nd("X_sensitive", (n, k), "ndarray", "ERASED", cell=lambda i, j: SF(i, j), base_name="X_sensitive")

    def on_call(self, eng, st, node, name, recv, args, kwargs):
        if name.endswith("validate_data"):
            return Nd("X", (n, m), "ndarray", "ERASED", cell=lambda i, j: XF(i, j), validated=True)
        if name in ("_check_sensitive_features_in_X", "check_is_fitted") or name.endswith("check_is_fitted"):
            return None
        if name == "_create_lookup":
            # callee contract (CreateLookup): lookup_ maps the column names / positions of ITS argument to positions
            st.env["self"].fields["lookup_"] = Abstract("lookup", of=args[0] if args else None)
            return args[0] if args else None
        if name == "_split_X":
            ok = args and is_nd(args[0]) and getattr(args[0], "validated", False)
            eng.oblige(st, "split_of_the_validated_matrix", BoolVal(bool(ok)), "wiring", node)
            lk = st.env["self"].fields.get("lookup_")
            want = self.lookup_source(st)
            eng.oblige(st, "columns_are_looked_up_in_the_layout_the_lookup_was_built_from",
                       BoolVal(isinstance(lk, Abstract) and lk.tag == "lookup" and (want is None or lk.of is want)), "wiring", node)
            return (self.U, self.S)
        if name == "numpy.array" and args and not is_nd(args[0]) and getattr(args[0], "items", None) == []:
            return Nd("empty", (0,), "ndarray", "ERASED", cell=lambda j: z3.RealVal(0))
        if name == "numpy.linalg.lstsq" and is_nd(args[0]) and is_nd(args[1]):
            A, B = args[0], args[1]
            f = Function("lstsq_beta", IntSort(), IntSort(), RealSort())
            beta = Nd("beta", (A.shape[1], B.shape[1]), "ndarray", "ERASED", lstsq=(A, B), cell=lambda i, j: f(i, j))
            return (beta, None, None, None)
        return super().on_call(eng, st, node, name, recv, args, kwargs)


class Fit(_Base):
    function = "CorrelationRemover.fit"

    def lookup_source(self, st):
        return self.X          # fit: the name -> position table must come from THIS call's X (also on a refit with re-ordered columns)

    def __init__(self, first_call):
        self.first_call = first_call
        self.variant = "[first call]" if first_call else "[refit]"

    def params(self, eng, st):
        self.common_env(st)
        fields = {"sensitive_feature_ids": Abstract("ids"), "alpha": Real("alpha")}
        if not self.first_call:
            fields["_n_features_in_"] = Int("previous_width")
            fields["lookup_"] = Abstract("lookup", of=Abstract("X_of_the_previous_fit"))
        st.env.update({"self": Obj("CorrelationRemover", fields), "X": self.X, "y": None})

    def post(self, eng, st, status, value):
        f = st.env["self"].fields
        if status == "raise":
            return [("raises_only_on_refit_with_another_width", BoolVal(not self.first_call) if self.first_call else Int("previous_width") != m)]
        out = [("returns_self", BoolVal(value is st.env["self"]))]
        mean, beta = f.get("sensitive_mean_"), f.get("beta_")
        if not is_nd(mean) or not is_nd(beta) or getattr(mean, "cell", None) is None:
            return out + [("stores_mean_and_coefficients", BoolVal(False))]
        colmean = Function("mean_col<X_sensitive>", IntSort(), RealSort())
        # generic column j of the sensitive block
        mc = mean.cell(J) if len(mean.shape) == 1 else mean.cell()
        out.append(("sensitive_mean_is_the_per_column_mean", Implies(And(k >= 1, 0 <= J, J < k), mc == colmean(J))))
        ls = getattr(beta, "lstsq", None)
        ok = ls is not None and ls[1] is self.U and getattr(ls[0], "cell", None) is not None
        out.append(("beta_is_least_squares_of_X_use_on_something", BoolVal(bool(ok))))
        if ok:
            out.append(("regressors_are_the_column_centred_sensitive_columns",
                        Implies(And(k >= 1, 0 <= I, I < n, 0 <= J, J < k), ls[0].cell(I, J) == SF(I, J) - colmean(J))))
        out.append(("records_input_width", BoolVal(is_z3(f.get("_n_features_in_")) and f["_n_features_in_"].eq(m))))
        return out


class Transform(_Base):
    function = "CorrelationRemover.transform"

    def lookup_source(self, st):
        return None            # transform: the fitted table (same layout is the documented precondition of transform)

    def params(self, eng, st):
        self.common_env(st)
        self.alpha = Real("alpha")
        MEAN = Function("stored_mean", IntSort(), RealSort())
        self.MEAN = MEAN
        self.beta = Nd("beta_", (k, m - k), "ndarray", "ERASED", cell=lambda i, j: Function("stored_beta", IntSort(), IntSort(), RealSort())(i, j))
        self.mean = Nd("sensitive_mean_", (k,), "ndarray", "ERASED", cell=lambda j: MEAN(j))
        self.width = Int("fitted_width")
        st.env.update({"self": Obj("CorrelationRemover", {"sensitive_feature_ids": Abstract("ids"), "alpha": self.alpha, "beta_": self.beta,
                                                          "sensitive_mean_": self.mean, "_n_features_in_": self.width, "lookup_": Abstract("lookup")}),
                       "X": self.X})

    def post(self, eng, st, status, value):
        if status == "raise":
            return [("raises_only_for_another_width", self.width != m)]
        out = [("returns_only_for_the_fitted_width", self.width == m)]
        if not is_nd(value) or getattr(value, "cell", None) is None:
            return out + [("returns_an_array_with_pointwise_meaning", BoolVal(False))]
        # find the matrix product inside the result by evaluating at a generic cell and checking the structural side conditions
        dots = []

        def walk(v, depth=0):
            if not is_nd(v) or depth > 8:
                return
            if getattr(v, "dot", None):
                dots.append(v)
            b = getattr(v, "binop", None)
            if b:
                walk(b[1], depth + 1)
                walk(b[2], depth + 1)
        walk(value)
        out.append(("uses_one_projection_term", BoolVal(len(dots) == 1)))
        if len(dots) != 1:
            return out
        d = dots[0]
        L, R = d.dot
        out.append(("projection_uses_the_stored_coefficients", BoolVal(R is self.beta)))
        rng = And(0 <= I, I < n, 0 <= J)
        out.append(("projection_regressors_centred_with_the_stored_mean",
                    Implies(And(rng, J < k), L.cell(I, J) == SF(I, J) - self.MEAN(J)) if getattr(L, "cell", None) else BoolVal(False)))
        a = self.alpha
        out.append(("output_is_alpha_residual_plus_one_minus_alpha_original",
                    Implies(And(rng, J < m - k), value.cell(I, J) == a * (UF(I, J) - d.cell(I, J)) + (1 - a) * UF(I, J))))
        return out


class SplitX(Contract):
    """CorrelationRemover._split_X for a concrete width m <= 3 and k <= m ids (label S: all id values, bounded shape): the sensitive positions are
    lookup_[id] for every id IN THE GIVEN ORDER - whatever the type of the id (an integer id is a column LABEL of a DataFrame, not a position) - and the
    other block is every position of 0..m-1 that is no sensitive position, in increasing order."""
    source, function = CR, "CorrelationRemover._split_X"

    def __init__(self, m_, k_, int_ids):
        self.m_, self.k_, self.int_ids = m_, k_, int_ids
        self.variant = f"[{m_} columns, {k_} {'integer' if int_ids else 'string'} id(s)]"

    def params(self, eng, st):
        sort = IntSort() if self.int_ids else z3.StringSort()
        self.LK = Function("lookup_position", sort, IntSort())
        self.ids = [z3.Const(f"id{j}", sort) for j in range(self.k_)]
        st.assume(*[And(0 <= self.LK(i), self.LK(i) < self.m_) for i in self.ids])          # _check_sensitive_features_in_X: every id is a column
        self.X = Abstract("matrix")
        st.env.update({"self": Obj("CorrelationRemover", {"lookup_": Abstract("lookup"), "sensitive_feature_ids": PyList(list(self.ids))}), "X": self.X})

    def on_subscript(self, eng, st, node, base, index):
        if isinstance(base, Abstract) and base.tag == "lookup":
            return self.LK(index) if is_z3(index) and index.sort() == self.LK.domain(0) else NotImplemented
        if base is self.X and isinstance(index, tuple) and len(index) == 2 and isinstance(index[0], Abstract) and index[0].tag == "slice" \
                and index[0].lo is None and index[0].hi is None and isinstance(index[1], PyList):
            return Abstract("columns", cols=list(index[1].items))
        return NotImplemented

    def on_attr(self, eng, st, node, base, attr):
        if base is self.X and attr == "shape":
            return (Int("n_rows"), self.m_)
        return NotImplemented

    def post(self, eng, st, status, value):
        if status != "return" or not (isinstance(value, tuple) and len(value) == 2 and all(isinstance(v, Abstract) and v.tag == "columns" for v in value)):
            return [("returns_the_two_column_blocks", BoolVal(False))]
        other, sens = value[0].cols, value[1].cols
        out = [("sensitive_block_is_the_looked_up_position_of_every_id_in_order",
                And(*[lift(p) == self.LK(i) for p, i in zip(sens, self.ids)]) if len(sens) == len(self.ids) else BoolVal(False)),
               ("other_block_is_in_increasing_order", BoolVal(all(isinstance(p, int) for p in other) and list(other) == sorted(set(other))))]
        for p in range(self.m_):
            is_sens = z3.Or(*[self.LK(i) == p for i in self.ids]) if self.ids else BoolVal(False)
            out.append((f"position_{p}_is_kept_iff_it_is_not_sensitive", BoolVal(p in other) == z3.Not(is_sens)))
        return out


# ------------------------------------------------------------------------------------------------ native replays
def _native_fit_check():
    import numpy as np
    from fairlearn.preprocessing import CorrelationRemover
    rng = np.random.default_rng(0)
    X = rng.normal(size=(6, 4)) + np.array([5.0, -3.0, 0.0, 1.0])
    cr = CorrelationRemover(sensitive_feature_ids=[0, 1]).fit(X)
    S = X[:, [0, 1]]
    mean_ok = np.shape(cr.sensitive_mean_) == (2,) and np.allclose(cr.sensitive_mean_, S.mean(axis=0))
    Z = cr.transform(X)
    cov = max(abs(np.cov(Z[:, a], S[:, b])[0, 1]) for a in range(Z.shape[1]) for b in range(2))
    return mean_ok and cov < 1e-9, {"X": X.tolist(), "sensitive_feature_ids": [0, 1], "sensitive_mean_": np.asarray(cr.sensitive_mean_).tolist(),
                                    "column_means": S.mean(axis=0).tolist(), "max_abs_covariance_after_fit_transform": float(cov)}


def _fit_replay(self, ob, r):
    ok, info = _native_fit_check()
    return {"confirmed": not ok, "key": "C15:fit:mean_per_column", "replay": info,
            "what": f"CorrelationRemover.fit on 2 sensitive columns: sensitive_mean_={info['sensitive_mean_']} (column means {info['column_means']}), "
                    f"max |cov(output, sensitive)| = {info['max_abs_covariance_after_fit_transform']:.3g}"}


def _transform_replay(self, ob, r):
    import numpy as np
    from fairlearn.preprocessing import CorrelationRemover
    rng = np.random.default_rng(1)
    X, X2 = rng.normal(size=(6, 4)) + 2.0, rng.normal(size=(5, 4)) - 1.0
    worst = 0.0
    for alpha in (0.0, 0.3, 1.0):
        cr = CorrelationRemover(sensitive_feature_ids=[1, 3], alpha=alpha).fit(X)
        S, U = X2[:, [1, 3]], X2[:, [0, 2]]
        exp = alpha * (U - (S - X[:, [1, 3]].mean(axis=0)) @ cr.beta_) + (1 - alpha) * U
        worst = max(worst, float(np.abs(cr.transform(X2) - exp).max()))
    return {"confirmed": worst > 1e-9, "key": "C15:transform:affine_map", "replay": {"X_fit": X.tolist(), "X_new": X2.tolist(), "max_abs_deviation": worst},
            "what": f"CorrelationRemover.transform deviates from alpha*(Z - (S - train_mean) beta) + (1-alpha)*Z by {worst:.3g} on new data"}


Fit.replay = _fit_replay
Transform.replay = _transform_replay


class CreateLookup(Contract):
    """CorrelationRemover._create_lookup(X) for a DataFrame with kcols columns carrying opaque, pairwise different labels: the callee contract that Fit assumes.
    Whatever column table an earlier fit left behind (the estimator starts with a stale table), afterwards lookup_ maps exactly the j-th column name of
    THIS X to position j, for every j, and nothing else; the values of X are returned.  (ndarray inputs: lookup_ = {i: i}, not under contract - stand-in.)"""
    source, function = CR, "CorrelationRemover._create_lookup"

    def __init__(self, kcols, stale):
        self.kcols, self.stale = kcols, stale
        self.variant = f"[DataFrame with {kcols} column(s), estimator {'holds the table of an earlier fit' if stale else 'is fresh'}]"

    def params(self, eng, st):
        from ..pyvc.core import PyDict
        self.names = [Abstract("column_label", j=j) for j in range(self.kcols)]          # opaque, pairwise different labels of any type (duplicate labels: not modelled)
        self.X = Abstract("dataframe", name="X")
        fields = {}
        if self.stale:          # same names, other order (the table of a previous fit on a re-ordered frame) plus a name that has gone
            fields["lookup_"] = PyDict({nm: (self.kcols - 1 - j) for j, nm in enumerate(self.names)})
            fields["lookup_"].d["gone"] = 7
        st.env.update({"self": Obj("CorrelationRemover", fields), "X": self.X})

    def on_call(self, eng, st, node, name, recv, args, kwargs):
        if name == "isinstance" and len(args) == 2 and args[0] is self.X:
            return any(t in ("pd.DataFrame", "pandas.DataFrame", "DataFrame") for t in args[1])
        return NotImplemented

    def on_attr(self, eng, st, node, base, attr):
        if base is self.X and attr == "columns":
            return PyList(list(self.names))
        if base is self.X and attr == "values":
            return Abstract("values_of", of=self.X)
        return NotImplemented

    def post(self, eng, st, status, value):
        from ..pyvc.core import PyDict
        if status != "return":
            return [("a_DataFrame_is_accepted", BoolVal(False))]
        lk = st.env["self"].fields.get("lookup_")
        ok_keys = isinstance(lk, PyDict) and len(lk.d) == self.kcols and all(any(key is nm for key in lk.d) for nm in self.names)
        ok_vals = ok_keys and all(next(v for key, v in lk.d.items() if key is nm) == j for j, nm in enumerate(self.names))
        return [("lookup_has_exactly_the_column_names_of_this_X", BoolVal(bool(ok_keys))),
                ("every_column_name_maps_to_its_position_in_this_X", BoolVal(bool(ok_vals))),
                ("returns_the_values_of_X", BoolVal(isinstance(value, Abstract) and value.tag == "values_of" and value.of is self.X))]
