"""Sidecar contract of fairlearn/postprocessing/_tradeoff_curve_utilities.py::_filter_points_to_get_convex_hull (C04, C05).

Abstract view: points_sorted is a frame with N rows; row k has reals X(k), Y(k); a record produced by itertuples() is represented by
its row id; `selected` is a symbolic-length list of row ids.  The geometric predicate Below is OPAQUE in the loop VCs; the five
geometric facts the induction needs are lemmas proved with the definition revealed (QF_NRA) in the same run (DESIGN 3.4, App. A.2).

Postcondition (from properties C04/C05): the result is a subsequence of the input rows keeping the first and the last row; every
input point lies on or below every result edge whose x-span contains it (coverage); consecutive triples are strictly concave;
abscissae strictly increase from index 1 on.
"""
import ast

import z3
from z3 import And, BoolSort, ForAll, Function, Implies, Int, IntSort, IntVal, K, MultiPattern, Not, Or, RealSort, Select

from ..pyvc.core import Abstract, Contract, IterSpec, LoopSpec, PyList, SymSeq, Unsupported, fresh
from ..pyvc.verify import Lemma

X = Function("X", IntSort(), RealSort())
Y = Function("Y", IntSort(), RealSort())
N = Int("N")
B = Function("Below", IntSort(), IntSort(), IntSort(), BoolSort())
i, j, j2, j3 = Int("i"), Int("j"), Int("j2"), Int("j3")
a_, b_, c_, p_ = Int("a"), Int("b"), Int("c"), Int("p")


def Bdef(a, b, p):
    """p on or below the line through a and b (cross-product form, safe for vertical edges)"""
    return (X(b) - X(a)) * (Y(p) - Y(a)) <= (Y(b) - Y(a)) * (X(p) - X(a))


def span(a, b, p):
    return And(X(a) <= X(p), X(p) <= X(b))


def lexle(a, b):
    return Or(X(a) < X(b), And(X(a) == X(b), Y(a) <= Y(b)))


def _lemmas(Bp):
    return {
        "L1_merge": (lambda a, b, c, p: Implies(And(X(a) <= X(b), X(b) <= X(c), Bp(a, c, b), span(a, c, p),
                                                    Implies(span(a, b, p), Bp(a, b, p)), Implies(span(b, c, p), Bp(b, c, p))), Bp(a, c, p)),
                     "abcp", lambda a, b, c, p: [MultiPattern(Bp(a, c, b), X(p))]),
        "L3_same_x_under_a": (lambda a, b, c, p: Implies(And(X(p) == X(a), Y(p) <= Y(a), X(a) <= X(b)), Bp(a, b, p)),
                              "abp", lambda a, b, c, p: [Bp(a, b, p)]),
        "L4_same_x_top_dropped": (lambda a, b, c, p: Implies(And(X(p) == X(b), Y(p) <= Y(b), X(a) <= X(p)), Bp(a, b, p)),
                                  "abp", lambda a, b, c, p: [Bp(a, b, p)]),
        "L5_endpoint": (lambda a, b, c, p: Bp(a, b, b), "ab", lambda a, b, c, p: [Bp(a, b, b)]),
    }


def rec(k):
    return Abstract("rec", k=k)


def chain_facts(L, k):
    """facts about `selected` shared by both invariants; k = number of rows already consumed.  Every index inside a Select is its
    own bound variable tied by an equation, so that an instance never creates a new trigger term (no matching loops)."""
    sel, m, A = L.raw, L.n, L.arr
    return [
        ("len_nonneg", m >= 0), ("len_le_consumed", m <= k),
        ("ids_are_consumed_rows", ForAll([j], Implies(And(0 <= j, j < m), And(0 <= sel(j), sel(j) < k)), patterns=[Select(A, j)])),
        ("subsequence_in_order", ForAll([j, j2], Implies(And(0 <= j, j < j2, j2 < m), sel(j) < sel(j2)),
                                        patterns=[MultiPattern(Select(A, j), Select(A, j2))])),
        ("first_row_kept", Implies(m >= 1, sel(0) == 0)),
        ("strictly_concave", ForAll([j, j2, j3], Implies(And(0 <= j, j2 == j + 1, j3 == j + 2, j3 < m), Not(B(sel(j), sel(j3), sel(j2)))),
                                    patterns=[MultiPattern(Select(A, j), Select(A, j2), Select(A, j3))])),
        ("abscissae_increase_from_1", ForAll([j, j2], Implies(And(1 <= j, j2 == j + 1, j2 < m), X(sel(j)) < X(sel(j2))),
                                             patterns=[MultiPattern(Select(A, j), Select(A, j2))])),
        ("coverage", ForAll([i, j, j2], Implies(And(0 <= i, i < k, 0 <= j, j2 == j + 1, j2 < m, span(sel(j), sel(j2), i)),
                                                B(sel(j), sel(j2), i)), patterns=[MultiPattern(X(i), Select(A, j), Select(A, j2))])),
    ]


class Hull(Contract):
    source, function = "fairlearn/postprocessing/_tradeoff_curve_utilities.py", "_filter_points_to_get_convex_hull"
    prune = False

    def params(self, eng, st):
        st.env["points_sorted"] = Abstract("frame")
        st.assume(N >= 1, ForAll([i, j], Implies(And(0 <= i, i < j, j < N), lexle(i, j)), patterns=[MultiPattern(X(i), X(j))]))

    def axioms(self):
        out = []
        opaque, revealed = _lemmas(B), _lemmas(Bdef)
        A_, Bq, C_, P_ = Int("A"), Int("Bq"), Int("C"), Int("P")
        for name, (f, used, pat) in opaque.items():
            vs = [v for v in (a_, b_, c_, p_) if str(v) in used]
            stmt = ForAll(vs, f(a_, b_, c_, p_), patterns=pat(a_, b_, c_, p_))
            out.append(Lemma("hull." + name, stmt, proof=([], revealed[name][0](A_, Bq, C_, P_))))
        return out

    # ---- value model hooks
    def on_call(self, eng, st, node, name, recv, args, kwargs):
        if name == "itertuples" and isinstance(recv, Abstract) and recv.tag == "frame":
            return Abstract("rows")
        if name == "pandas.DataFrame" and args and isinstance(args[0], SymSeq):
            return Abstract("frame_of", seq=args[0])
        return NotImplemented

    def on_iter(self, eng, st, node, it):
        if isinstance(it, Abstract) and it.tag == "rows":
            return IterSpec(N, lambda k: rec(k))
        return NotImplemented

    def on_attr(self, eng, st, node, base, attr):
        if isinstance(base, Abstract) and base.tag == "rec":
            if attr == "x":
                return X(base.k)
            if attr == "y":
                return Y(base.k)
            raise Unsupported(f"record field {attr}")
        return NotImplemented

    def on_subscript(self, eng, st, node, base, index):
        if isinstance(base, Abstract) and base.tag == "frame_of":
            cols = [x for x in index.items] if isinstance(index, PyList) else None
            eng.oblige(st, "result_columns_x_y_operation", z3.BoolVal(cols == ["x", "y", "operation"]), "wiring", node)
            return Abstract("result", seq=base.seq)
        return NotImplemented

    def havoc_abstract(self, eng, st, name, v):
        if v.tag == "rec":
            return rec(fresh(name))
        raise Unsupported(f"havoc {name}")

    def on_branch(self, eng, st, test_node, cond):
        env = st.env
        if all(isinstance(env.get(v), Abstract) and env[v].tag == "rec" for v in ("r0", "r1", "r2")) and isinstance(test_node, ast.Compare):
            r0, r1, r2 = env["r0"].k, env["r1"].k, env["r2"].k
            from ..pyvc.core import State
            empty = State()
            # one-directional folds, each with its own quantifier-free nonlinear proof obligation (definition revealed)
            eng.oblige(empty, "fold_drop_implies_below", Implies(cond, Bdef(r0, r2, r1)), "fold", test_node)
            eng.oblige(empty, "fold_keep_implies_strictly_above", Implies(Not(cond), Not(Bdef(r0, r2, r1))), "fold", test_node)
            return ([B(r0, r2, r1)], [Not(B(r0, r2, r1))])
        return None

    # ---- loops
    @staticmethod
    def _prepare(st):
        sel = st.env.get("selected")
        if isinstance(sel, PyList):
            if sel.items:
                raise Unsupported("selected is expected to start empty")
            st.env["selected"] = SymSeq(K(IntSort(), IntVal(0)), IntVal(0), wrap=rec, unwrap=lambda v: v.k)

    def inv_outer(self, st):
        L, k = st.env["selected"], st.env["$k0"]
        m = L.n
        return [("k_range", And(0 <= k, k <= N))] + chain_facts(L, k) + \
               [("last_consumed_on_top", Implies(k >= 1, And(m >= 1, L.raw(m - 1) == k - 1)))]

    def inv_inner(self, st):
        L, k = st.env["selected"], st.env["$k0"]
        m = L.n
        r2 = st.env["r2"].k
        top = L.raw(m - 1)
        return [("k_range", And(0 <= k, k < N)), ("r2_is_current_row", r2 == k)] + chain_facts(L, k) + [
            ("nonempty_after_first", Implies(k >= 1, m >= 1)),
            ("top_left_of_r2", Implies(m >= 1, And(top < k, X(top) <= X(k)))),
            ("virtual_edge_covers", ForAll([i], Implies(And(0 <= i, i < k, m >= 1, span(top, k, i)), B(top, k, i)), patterns=[X(i)]))]

    def loops(self):
        return {0: LoopSpec(self.inv_outer, prepare=self._prepare), 1: LoopSpec(self.inv_inner)}

    def post(self, eng, st, status, value):
        if status != "return" or not (isinstance(value, Abstract) and value.tag == "result"):
            return [("returns_frame_of_selected_rows", z3.BoolVal(False))]
        L = value.seq
        sel, m = L.raw, L.n
        return [("nonempty", m >= 1), ("keeps_first_row", sel(0) == 0), ("keeps_last_row", sel(m - 1) == N - 1),
                ("subsequence_in_order", ForAll([j, j2], Implies(And(0 <= j, j < j2, j2 < m), sel(j) < sel(j2)))),
                ("strictly_concave", ForAll([j], Implies(And(0 <= j, j + 2 < m), Not(B(sel(j), sel(j + 2), sel(j + 1)))))),
                ("abscissae_increase_from_1", ForAll([j], Implies(And(1 <= j, j + 1 < m), X(sel(j)) < X(sel(j + 1))))),
                ("coverage", ForAll([i, j], Implies(And(0 <= i, i < N, 0 <= j, j + 1 < m, span(sel(j), sel(j + 1), i)), B(sel(j), sel(j + 1), i))))]


# ------------------------------------------------------------------------------------------------ native replay search
def native_post_ok(points, result_rows):
    """the postcondition of Hull evaluated natively on concrete points [(x,y)] (sorted) and the indices kept"""
    from fractions import Fraction as Fr
    P = [(Fr(x), Fr(y)) for x, y in points]
    S = list(result_rows)
    n, m = len(P), len(S)

    def below(a, b, p):
        return (P[b][0] - P[a][0]) * (P[p][1] - P[a][1]) <= (P[b][1] - P[a][1]) * (P[p][0] - P[a][0])
    if m < 1 or S[0] != 0 or S[-1] != n - 1 or any(S[t] >= S[t + 1] for t in range(m - 1)):
        return "keeps first/last row, subsequence"
    for t in range(m - 2):
        if below(S[t], S[t + 2], S[t + 1]):
            return "strictly concave"
    for t in range(1, m - 1):
        if not P[S[t]][0] < P[S[t + 1]][0]:
            return "abscissae increase from index 1"
    for t in range(m - 1):
        for p in range(n):
            if P[S[t]][0] <= P[p][0] <= P[S[t + 1]][0] and not below(S[t], S[t + 1], p):
                return "coverage"
    return None


def native_search(max_points=5, grid=3):
    """bounded search for a concrete input on which the real function violates the contract (used only to replay a failed obligation)"""
    import itertools
    import pandas as pd
    from fairlearn.postprocessing._tradeoff_curve_utilities import _filter_points_to_get_convex_hull as f
    pts = [(x, y) for x in range(grid) for y in range(grid)]
    for n in range(1, max_points + 1):
        for combo in itertools.combinations_with_replacement(pts, n):
            df = pd.DataFrame({"x": [float(p[0]) for p in combo], "y": [float(p[1]) for p in combo], "operation": list(range(n))})
            out = f(df)
            why = native_post_ok(combo, list(out["operation"]))
            if why:
                return {"points": [list(p) for p in combo], "kept_rows": [int(v) for v in out["operation"]], "violated": why}
    return None


def _hull_replay(self, ob, r):
    found = native_search()
    if found:
        return {"confirmed": True, "key": "C04:hull:" + found["violated"].split(",")[0].replace(" ", "_"),
                "what": f"_filter_points_to_get_convex_hull on points {found['points']} keeps rows {found['kept_rows']}: violates '{found['violated']}'",
                "replay": found}
    return {"confirmed": False}


Hull.replay = _hull_replay
