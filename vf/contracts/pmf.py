"""Contract of InterpolatedThresholder._pmf_predict (C10, C04), point-wise for a generic query row gi.

interpolation_dict is a dictionary with any number K of distinct group keys; entry k carries p0,p1 (and optionally p_ignore, prediction_constant)
and two threshold operations whose value on a row depends only on that row's score (contract of ThresholdOperation.__call__, proved separately).
The rows' (score, group) come from the shared validator (contract proved separately: label-free, same length).
Ghost: MATCH(i) = the position of group(i) among the keys, or -1 when the group was not seen at fit time.

Postcondition (property C10/C04): for every row i
   P1(i) = 0                                                           if group(i) has no entry
   P1(i) = mix                                                         with mix = p0*[op0(score_i)] + p1*[op1(score_i)]  (entry of group(i))
   P1(i) = p_ignore*prediction_constant + (1-p_ignore)*mix              when the entry has p_ignore
   P0(i) = 1 - P1(i);  under well-formed entries (p0,p1 >= 0, p0+p1 = 1, p_ignore and prediction_constant in [0,1]):  0 <= P1(i) <= 1.
Hence the probabilities depend only on (score, group).
"""
import z3
from z3 import And, BoolSort, BoolVal, ForAll, Function, If, Implies, Int, IntSort, Not, Or, RealSort, RealVal

from ..pyvc.core import Abstract, IterSpec, LoopSpec, Obj, PyList, Unsupported, is_z3
from .ndmodel import GI, Nd, NdContract, in_range, is_nd

IT = "fairlearn/postprocessing/_interpolated_thresholder.py"
n, K = Int("n_rows"), Int("n_groups_fitted")
SCORE = Function("score", IntSort(), RealSort())
GRP = Function("group_of_row", IntSort(), IntSort())
KEY = Function("dict_key", IntSort(), IntSort())
MATCH = Function("match_index", IntSort(), IntSort())
P0, P1, PIG, PC = (Function(nm, IntSort(), RealSort()) for nm in ("p0", "p1", "p_ignore", "prediction_constant"))
HASP = Function("has_p_ignore", IntSort(), BoolSort())
OP = [Function("op0", IntSort(), RealSort(), BoolSort()), Function("op1", IntSort(), RealSort(), BoolSort())]
k_, i_ = Int("k"), Int("i")


def b2r(b):
    return If(b, RealVal(1), RealVal(0))


def mix(m, s):
    return P0(m) * b2r(OP[0](m, s)) + P1(m) * b2r(OP[1](m, s))


def spec_p1(i):
    m, s = MATCH(i), SCORE(i)
    return If(And(0 <= m, m < K), If(HASP(m), PIG(m) * PC(m) + (1 - PIG(m)) * mix(m, s), mix(m, s)), RealVal(0))


class PmfPredict(NdContract):
    source, function = IT, "InterpolatedThresholder._pmf_predict"
    prune = False

    def params(self, eng, st):
        st.assume(n >= 1, K >= 0,
                  # MATCH is the inverse of the (distinct) keys
                  ForAll([i_, k_], Implies(And(0 <= i_, i_ < n, 0 <= k_, k_ < K), (KEY(k_) == GRP(i_)) == (k_ == MATCH(i_))),
                         patterns=[z3.MultiPattern(KEY(k_), GRP(i_))]),
                  ForAll([i_], Implies(And(0 <= i_, i_ < n), And(-1 <= MATCH(i_), MATCH(i_) < K)), patterns=[MATCH(i_)]),
                  # well-formed entries (data-structure invariant of interpolation_dict, established by ThresholdOptimizer.fit: C04)
                  ForAll([k_], Implies(And(0 <= k_, k_ < K), And(P0(k_) >= 0, P1(k_) >= 0, P0(k_) + P1(k_) == 1, PIG(k_) >= 0, PIG(k_) <= 1,
                                                                   PC(k_) >= 0, PC(k_) <= 1)), patterns=[P0(k_)]))
        st.env.update({"self": Obj("InterpolatedThresholder", {"interpolation_dict": Abstract("idict"), "estimator_": Abstract("est"),
                                                               "estimator": Abstract("constructor_estimator"), "prefit": Abstract("prefit"),
                                                               "_predict_method": "predict", "predict_method": Abstract("constructor_predict_method")}),
                       "X": Abstract("X"), "sensitive_features": Abstract("raw_sf")})

    def on_call(self, eng, st, node, name, recv, args, kwargs):
        if name.endswith("check_is_fitted"):
            return None
        if name == "_get_soft_predictions":
            # the score is the FITTED estimator's (estimator_: with prefit=False a clone trained by fit, not the constructor argument), on the query rows,
            # by the resolved predict method
            f = st.env["self"].fields
            ok = len(args) == 3 and not kwargs and args[0] is f["estimator_"] and args[1] is st.env["X"] and args[2] is f["_predict_method"]
            eng.oblige(st, "scores_are_the_fitted_estimators_on_the_query_rows", BoolVal(bool(ok)), "wiring", node)
            return Abstract("soft")
        if name == "numpy.array" and args and isinstance(args[0], Abstract) and args[0].tag == "soft":
            return Nd("base_predictions", (n,), "ndarray", "ERASED", cell=lambda i: SCORE(i))
        if name == "_validate_and_reformat_input":
            ok = kwargs.get("sensitive_features") is st.env["sensitive_features"] and is_nd(kwargs.get("y")) and kwargs["y"].name == "base_predictions" \
                and args and args[0] is st.env["X"]
            eng.oblige(st, "validator_gets_X_scores_and_the_callers_sensitive_features", BoolVal(bool(ok)), "wiring", node)
            return (Abstract("X"), Nd("base_predictions_vector", (n,), "series", "DEFAULT", cell=lambda i: SCORE(i)),
                    Nd("sensitive_feature_vector", (n,), "series", "DEFAULT", cell=lambda i: GRP(i), is_group=True), None)
        if name == "items" and isinstance(recv, Abstract) and recv.tag == "idict":
            return Abstract("idict_items")
        if name == "$call" and isinstance(recv, Abstract) and recv.tag == "opfun":
            a = args[0]
            if not (is_nd(a) and a.name == "base_predictions_vector"):
                raise Unsupported("threshold operation applied to something else than the score vector")
            return Nd(f"op{recv.which}(scores)", (n,), "series", "DEFAULT", cell=lambda i, r=recv: b2r(OP[r.which](r.k, SCORE(i))))
        if name == "numpy.array" and args and isinstance(args[0], PyList) and len(args[0].items) == 2 and all(is_nd(x) for x in args[0].items):
            return Abstract("stack2", rows=tuple(args[0].items))
        if name == "transpose" and isinstance(recv, Abstract) and recv.tag == "stack2":
            return Abstract("proba", neg=recv.rows[0], pos=recv.rows[1])
        return super().on_call(eng, st, node, name, recv, args, kwargs)

    def on_iter(self, eng, st, node, it):
        if isinstance(it, Abstract) and it.tag == "idict_items":
            return IterSpec(K, lambda k: (Abstract("key", k=k), Abstract("interp", k=k)))
        return NotImplemented

    def on_attr(self, eng, st, node, base, attr):
        if isinstance(base, Abstract) and base.tag == "interp":
            f = {"p0": P0, "p1": P1, "p_ignore": PIG, "prediction_constant": PC}.get(attr)
            if f is not None:
                return f(base.k)
            if attr in ("operation0", "operation1"):
                return Abstract("opfun", which=int(attr[-1]), k=base.k)
            raise Unsupported(f"interpolation.{attr}")
        return super().on_attr(eng, st, node, base, attr)

    def on_compare(self, eng, st, node, op, a, b):
        if op in ("In", "NotIn") and isinstance(b, Abstract) and b.tag == "interp" and a == "p_ignore":
            return HASP(b.k) if op == "In" else Not(HASP(b.k))
        if op == "Eq" and is_nd(a) and getattr(a, "is_group", False) and isinstance(b, Abstract) and b.tag == "key":
            return Nd("group_mask", a.shape, "series", "DEFAULT", cell=lambda i, kk=b.k: GRP(i) == KEY(kk), mask_key=b.k)
        return super().on_compare(eng, st, node, op, a, b)

    def on_subscript(self, eng, st, node, base, index):
        if is_nd(base) and is_nd(index) and hasattr(index, "mask_key"):
            return Abstract("masked", base=base, mask=index)
        return super().on_subscript(eng, st, node, base, index)

    def on_store_subscript(self, eng, st, node, base, index, value):
        if is_nd(base) and is_nd(index) and hasattr(index, "mask_key"):
            ok = isinstance(value, Abstract) and value.tag == "masked" and value.mask.mask_key is index.mask_key
            eng.oblige(st, "masked_assignment_uses_the_same_mask_on_both_sides", BoolVal(bool(ok)), "wiring", node)
            if not ok:
                raise Unsupported("masked assignment shape")
            old, new, msk = base.cell, value.base.cell, index.cell
            from .ndmodel import rebind
            rebind(st, base, self._derive(base, cell=lambda i: If(msk(i), new(i), old(i))))
            return True
        return super().on_store_subscript(eng, st, node, base, index, value)

    def havoc_abstract(self, eng, st, name, v):
        if v.tag == "nd" and name == "positive_probs":
            f = z3.Function(f"positive_probs_at_loop_head", IntSort(), RealSort())
            return Nd("positive_probs", v.shape, v.kind, v.prov, cell=lambda i: f(i))
        return v

    def inv(self, st):
        pp, k = st.env["positive_probs"], st.env["$k0"]
        if not is_nd(pp) or pp.cell is None:
            raise Unsupported("positive_probs lost its point-wise view")
        m = MATCH(GI)
        seen = And(0 <= m, m < k)
        return [("k_range", And(0 <= k, k <= K)),
                ("rows_of_processed_groups_have_their_probability", Implies(in_range((n,), (GI,)), pp.cell(GI) == If(seen, spec_p1(GI), RealVal(0))))]

    def loops(self):
        return {0: LoopSpec(self.inv)}

    def post(self, eng, st, status, value):
        if status != "return" or not (isinstance(value, Abstract) and value.tag == "proba"):
            return [("returns_two_column_probabilities", BoolVal(False))]
        rng = in_range((n,), (GI,))
        pos, neg = value.pos.cell(GI), value.neg.cell(GI)
        return [("positive_probability_is_the_fitted_rule_of_the_rows_group", Implies(rng, pos == spec_p1(GI))),
                ("negative_probability_is_the_complement", Implies(rng, neg == 1 - pos)),
                ("probabilities_in_unit_interval", Implies(rng, And(pos >= 0, pos <= 1)))]
