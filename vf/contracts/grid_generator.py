"""Contract of _GridGenerator.accumulate_integer_grid (C09): the recursion over the coordinates, verified modularly against its own contract.

View: self.entry is an integer array E (any dimension D >= 1), self.accumulator a ghost sequence ACC[0..AN) of entry snapshots (z3 arrays are values, so
`entry.copy()` is a snapshot by construction - that the copies are distinct OBJECTS, and the pairwise distinctness of the generated entries, are
left to the bounded stand-in).  SUMABS(a, i) = sum_{j >= i} |a[j]| is a ghost function with its recursive definition as definitional axioms.

requires 0 <= index <= D, max_val >= 0;   decreases D - index (checked at the recursive call)
ensures  the accumulator only grows; every NEW entry e agrees with the old self.entry below `index`, has sum_{j>=index}|e_j| <= max_val and e_j >= 0 wherever
         neg_allowed[j] is False; self.entry is unchanged below `index`.
At the top call (index = 0, max_val = n_units) this gives ||e||_1 <= n_units for every integer grid entry, hence - after the scaling by grid_limit/n_units and the split
into positive and negative parts (non-negative by construction) - L1 norm <= grid_limit and lambda >= 0 (property C09).
"""
import z3
from z3 import And, ArraySort, BoolSort, BoolVal, ForAll, Function, If, Implies, Int, IntSort, Not, Select, Store

from ..pyvc.core import Abstract, Contract, LoopSpec, Obj, Unsupported, fresh, is_z3

GG = "fairlearn/reductions/_grid_search/_grid_generator.py"
D = Int("dim")
ARR = ArraySort(IntSort(), IntSort())
SUMABS = Function("sum_abs_from", ARR, IntSort(), IntSort())
NEG = Function("neg_allowed", IntSort(), BoolSort())
j_, t_ = Int("j"), Int("t")


def iabs(x):
    return If(x >= 0, x, -x)


class AccumulateIntegerGrid(Contract):
    source, function = GG, "_GridGenerator.accumulate_integer_grid"
    prune = False

    def params(self, eng, st):
        self.index, self.mv, self.F = Int("index"), Int("max_val"), z3.Bool("force_L1_norm")
        self.E0, self.ACC0, self.AN0 = z3.Const("entry0", ARR), z3.Const("acc0", ArraySort(IntSort(), ARR)), Int("acc_len0")
        st.assume(D >= 1, 0 <= self.index, self.index <= D, self.mv >= 0, self.AN0 >= 0)
        nu = Int("n_units")          # the total budget of the top-level call (an attribute some versions keep on the object); the REMAINING budget is max_val
        st.assume(self.mv <= nu)
        st.env.update({"self": Obj("_GridGenerator", {"dim": D, "force_L1_norm": self.F, "neg_allowed": Abstract("neg"), "entry": self.E0, "accumulator": Abstract("acc"),
                                                      "n_units": nu}),
                       "index": self.index, "max_val": self.mv})
        st.ghost.update({"ACC": self.ACC0, "AN": self.AN0})

    def axioms(self):
        from ..pyvc.verify import Lemma
        a = z3.Const("a", ARR)
        i = Int("i")
        return [Lemma("sum_abs_from.def.end", ForAll([a], SUMABS(a, D) == 0, patterns=[SUMABS(a, D)])),
                Lemma("sum_abs_from.def.step", ForAll([a, i], Implies(And(0 <= i, i < D), SUMABS(a, i) == iabs(Select(a, i)) + SUMABS(a, i + 1)), patterns=[SUMABS(a, i)]))]

    def new_parts(self, e, index, mv, base):
        return [("prefix", ForAll([j_], Implies(And(0 <= j_, j_ < index), Select(e, j_) == Select(base, j_)), patterns=[Select(e, j_)])),
                ("budget", SUMABS(e, index) <= mv),
                ("signs", ForAll([j_], Implies(And(index <= j_, j_ < D, Not(NEG(j_))), Select(e, j_) >= 0), patterns=[Select(e, j_)]))]

    def new_ok(self, e, index, mv, base):
        return And(*[g for _, g in self.new_parts(e, index, mv, base)])

    def on_subscript(self, eng, st, node, base, index):
        if isinstance(base, Abstract) and base.tag == "neg":
            return NEG(index)
        return NotImplemented

    def on_store_subscript(self, eng, st, node, base, index, value):
        f = st.env["self"].fields
        if is_z3(base) and base.sort() == ARR and f.get("entry") is base:
            eng.oblige(st, "entry_index_in_range", And(0 <= index, index < D), "bounds", node)
            f["entry"] = Store(base, index, value)
            return True
        return NotImplemented

    def on_call(self, eng, st, node, name, recv, args, kwargs):
        f = st.env["self"].fields
        if name == "copy" and is_z3(recv) and recv.sort() == ARR:
            return recv                       # snapshot (a z3 array is a value)
        if name == "append" and isinstance(recv, Abstract) and recv.tag == "acc":
            g = st.ghost
            g["ACC"], g["AN"] = Store(g["ACC"], g["AN"], args[0]), g["AN"] + 1
            return None
        if name == "accumulate_integer_grid" and isinstance(recv, Obj):
            idx2, mv2 = args
            eng.oblige(st, "recursive_call_precondition", And(0 <= idx2, idx2 <= D, mv2 >= 0), "pre", node)
            eng.oblige(st, "recursion_decreases_dim_minus_index", And(D - idx2 < D - self.index, D - idx2 >= 0), "decreases", node)
            g = st.ghost
            e_call, an_call, acc_call = f["entry"], g["AN"], g["ACC"]
            acc2, an2, e2 = fresh("acc", ArraySort(IntSort(), ARR)), fresh("acc_len"), fresh("entry", ARR)
            st.assume(an2 >= an_call,
                      ForAll([t_], Implies(And(0 <= t_, t_ < an_call), Select(acc2, t_) == Select(acc_call, t_)), patterns=[Select(acc2, t_)]),
                      ForAll([t_], Implies(And(an_call <= t_, t_ < an2), self.new_ok(Select(acc2, t_), idx2, mv2, e_call)), patterns=[Select(acc2, t_)]),
                      ForAll([j_], Implies(And(0 <= j_, j_ < idx2), Select(e2, j_) == Select(e_call, j_)), patterns=[Select(e2, j_)]))
            g["ACC"], g["AN"], f["entry"] = acc2, an2, e2
            return None
        return NotImplemented

    def state_ok(self, st):
        f, g = st.env["self"].fields, st.ghost
        E, ACC, AN = f["entry"], g["ACC"], g["AN"]
        return [("accumulator_only_grows", AN >= self.AN0),
                ("old_entries_kept", ForAll([t_], Implies(And(0 <= t_, t_ < self.AN0), Select(ACC, t_) == Select(self.ACC0, t_)), patterns=[Select(ACC, t_)])),
                *[(f"new_entries_respect_{nm}", ForAll([t_], Implies(And(self.AN0 <= t_, t_ < AN), g), patterns=[Select(ACC, t_)]))
                  for nm, g in self.new_parts(Select(ACC, t_), self.index, self.mv, self.E0)],
                ("entry_prefix_unchanged", ForAll([j_], Implies(And(0 <= j_, j_ < self.index), Select(E, j_) == Select(self.E0, j_)), patterns=[Select(E, j_)]))]

    @staticmethod
    def _ghost_havoc(st):
        st.ghost["ACC"], st.ghost["AN"] = fresh("acc", ArraySort(IntSort(), ARR)), fresh("acc_len")

    def havoc_abstract(self, eng, st, name, v):
        return v

    def inv(self, st):
        return [("index_below_dim", self.index < D), ("loop_counter_non_negative", st.env["$k0"] >= 0)] + self.state_ok(st)

    def loops(self):
        return {0: LoopSpec(self.inv, ghost_havoc=self._ghost_havoc, havoc_types={"self.entry": lambda st: fresh("entry", ARR)})}

    def post(self, eng, st, status, value):
        if status != "return":
            return [("no_exception", BoolVal(False))]
        return self.state_ok(st)


    def replay(self, ob, r):
        """native check on the real generator: every integer grid entry of build_integer_grid(n_units) has L1 norm <= n_units (dimensions 1..4, with and without
        negative coordinates and the forced-L1 mode), entries are pairwise different"""
        import itertools
        import numpy as np
        import pandas as pd
        from fairlearn.reductions._grid_search._grid_generator import _GridGenerator
        for dim, n_units, force in itertools.product((1, 2, 3, 4), (1, 2, 3), (False, True)):
            for neg in itertools.product((False, True), repeat=dim):
                g = _GridGenerator.__new__(_GridGenerator)
                g.dim, g.neg_allowed, g.force_L1_norm = dim, np.array(neg), force
                try:
                    grid = [np.asarray(e) for e in g.build_integer_grid(n_units)]
                except Exception as ex:
                    return {"confirmed": True, "key": "C09:grid:integer-grid-raises", "what": f"build_integer_grid({n_units}) raised {type(ex).__name__}: {ex}"[:200], "replay": {"dim": dim, "neg_allowed": list(neg)}}
                bad = [e.tolist() for e in grid if np.abs(e).sum() > n_units or any(v < 0 and not a for v, a in zip(e, neg))]
                dup = len({tuple(e.tolist()) for e in grid}) != len(grid)
                if bad or dup:
                    return {"confirmed": True, "key": "C09:grid:L1" if bad else "C09:grid:duplicates",
                            "what": f"_GridGenerator.build_integer_grid(n_units={n_units}) in dimension {dim} (neg_allowed={list(neg)}, force_L1_norm={force}) produced "
                                    + (f"the entry {bad[0]} with L1 norm {int(np.abs(np.array(bad[0])).sum())} > {n_units} (or a forbidden negative coordinate)" if bad else "duplicate entries"),
                            "replay": {"dim": dim, "n_units": n_units, "neg_allowed": list(neg), "force_L1_norm": force, "bad_entries": bad[:5]}}
        return {"confirmed": False}
