"""Contract of GridSearch.fit from `for i in grid.columns:` to the end, and of predict / predict_proba (C09).

The grid has any number K >= 1 of columns with distinct labels COL(k).  Point-wise row view for the weights: signed_weights(lambda_k)[r] = WC(k, r),
objective.signed_weights()[r] = WO(r).  Estimators are identified by the iteration that trained them; objective.gamma(f).iloc[0] = OBJV(e) and
constraints.gamma(f).max() = GMAX(e) where e is the estimator that the closure f calls *at the time of the call* (late binding is modelled:
the closure reads the current binding of `current_estimator`).

Per iteration k (property C09): the learner is called with X unchanged, labels 1[w > 0] and weights |w| (classification; the moment's own y for
regression) where w = WC(k,.) (+ WO(.) unless the objective is in the span of the constraints); a constant classifier is used iff all
relabelled values coincide; recorded: predictors_[k] = the estimator trained for column k, lambda_vecs_[COL(k)] = column k,
objectives_[k] / gammas_[COL(k)] = objective / constraint values of THAT estimator.
Selection: best_idx_ is the first index minimising objective_weight*objectives_[j] + constraint_weight*max(gammas_[COL(j)]);
predict / predict_proba call exactly predictors_[best_idx_].
"""
import ast

import z3
from z3 import And, Array, Bool, BoolVal, ForAll, Function, If, Implies, Int, IntSort, IntVal, K as ConstArray, Not, Or, Real, RealSort, Select, Store

from ..pyvc.core import Abstract, Closure, IterSpec, LoopSpec, Obj, PyList, SymSeq, Unsupported, fresh, is_z3, to_real
from .ndmodel import GI, Nd, NdContract, in_range, is_nd

GS = "fairlearn/reductions/_grid_search/grid_search.py"
Kc, n = Int("n_grid_columns"), Int("n_rows")
COL = Function("column_label", IntSort(), IntSort())
WC = Function("constraint_weights", IntSort(), IntSort(), RealSort())
WO = Function("objective_weights", IntSort(), RealSort())
OBJV = Function("objective_of_estimator", IntSort(), RealSort())
GMAX = Function("max_gamma_of_estimator", IntSort(), RealSort())
k_, k2_ = Int("k"), Int("k2")
JJ = Int("jj")


class FitLoop(NdContract):
    source, function = GS, "GridSearch.fit"
    prune = False
    check_pointwise_division = False

    def body(self, fn):
        for idx, s in enumerate(fn.body):
            if isinstance(s, ast.For) and ast.unparse(s.iter) == "grid.columns":
                return fn.body[idx:]
        raise Unsupported("the grid loop `for i in grid.columns` was not found")

    def droppable(self, s):
        src = ast.unparse(s)
        return isinstance(s, (ast.Assign, ast.Expr)) and ("oracle_call_start_time" in src or "oracle_call_execution_time" in src or "oracle_execution_times_" in src) \
            and not any(isinstance(x, ast.Call) and ast.unparse(x.func) not in ("time", "self.oracle_execution_times_.append") for x in ast.walk(s))

    def params(self, eng, st):
        self.in_span, self.is_clf = Bool("objective_in_the_span"), Bool("is_classification_reduction")
        self.ow, self.cw = Real("objective_weight"), Real("constraint_weight")
        st.assume(Kc >= 1, n >= 1,
                  ForAll([k_, k2_], Implies(And(0 <= k_, k_ < k2_, k2_ < Kc), COL(k_) != COL(k2_)), patterns=[z3.MultiPattern(COL(k_), COL(k2_))]))
        self.cons, self.obj, self.X, self.estimator = Abstract("constraints"), Abstract("objective"), Abstract("X"), Abstract("estimator_param")
        st.env.update({"self": Obj("GridSearch", {"predictors_": PyList([]), "objectives_": PyList([]), "lambda_vecs_": Abstract("lv_frame"),
                                                  "gammas_": Abstract("gam_frame"), "oracle_execution_times_": PyList([]), "constraints": self.cons,
                                                  "estimator": self.estimator, "sample_weight_name": "sample_weight", "selection_rule": "tradeoff_optimization",
                                                  "objective_weight": self.ow, "constraint_weight": self.cw}),
                       "grid": Abstract("grid"), "objective": self.obj, "objective_in_the_span": self.in_span,
                       "is_classification_reduction": self.is_clf, "X": self.X, "y": Abstract("y"), "kwargs": Abstract("kw")})
        st.ghost.update({"gam_of": ConstArray(IntSort(), IntVal(-1)), "lv_of": ConstArray(IntSort(), IntVal(-1))})
        self.fits = 0

    # ------------------------------------------------------------------ value model
    def on_attr(self, eng, st, node, base, attr):
        if isinstance(base, Abstract) and base.tag == "grid" and attr == "columns":
            return Abstract("grid_columns")
        if base is self.cons and attr == "_y_as_series":
            return Nd("moment_y", (n,), "series", "DEFAULT", cell=lambda r: Function("moment_y", IntSort(), RealSort())(r), moment_y=True)
        if isinstance(base, Abstract) and base.tag == "gamma_series" and attr == "iloc":
            return Abstract("iloc_of_gamma", est=base.est, of=base.of)
        return super().on_attr(eng, st, node, base, attr)

    def on_iter(self, eng, st, node, it):
        if isinstance(it, Abstract) and it.tag == "grid_columns":
            return IterSpec(Kc, lambda kk: COL(kk))
        return NotImplemented

    def on_subscript(self, eng, st, node, base, index):
        if isinstance(base, Abstract) and base.tag == "grid" and is_z3(index):
            return Abstract("lambda_col", label=index)
        if isinstance(base, Abstract) and base.tag == "grid_columns" and is_z3(index):
            return COL(index)
        if isinstance(base, Abstract) and base.tag == "unique" and index == 0:
            return Abstract("the_single_value")
        if isinstance(base, Abstract) and base.tag == "iloc_of_gamma" and index == 0:
            return OBJV(base.est) if base.of == "objective" else fresh("gamma0", RealSort())
        if isinstance(base, Abstract) and base.tag == "gam_frame" and is_z3(index):
            return Abstract("gamma_series", est=Select(st.ghost["gam_of"], index), of="constraints")
        return super().on_subscript(eng, st, node, base, index)

    def on_store_subscript(self, eng, st, node, base, index, value):
        if isinstance(base, Abstract) and base.tag == "gam_frame":
            ok = isinstance(value, Abstract) and value.tag == "gamma_series" and value.of == "constraints"
            eng.oblige(st, "gammas_column_is_a_constraint_gamma", BoolVal(ok), "wiring", node)
            st.ghost["gam_of"] = Store(st.ghost["gam_of"], index, value.est if ok else IntVal(-2))
            return True
        if isinstance(base, Abstract) and base.tag == "lv_frame":
            ok = isinstance(value, Abstract) and value.tag == "lambda_col"
            st.ghost["lv_of"] = Store(st.ghost["lv_of"], index, value.label if ok else IntVal(-2))
            return True
        return super().on_store_subscript(eng, st, node, base, index, value)

    def _current_estimator(self, clo):
        if not isinstance(clo, Closure) or clo.env is None or "current_estimator" not in clo.env:
            raise Unsupported("predictor function does not close over current_estimator")
        e = clo.env["current_estimator"]        # late binding: the value at the time of the call
        if not (isinstance(e, Abstract) and e.tag == "est"):
            raise Unsupported("current_estimator is not an estimator")
        return e

    def on_call(self, eng, st, node, name, recv, args, kwargs):
        if name == "signed_weights" and recv is self.cons:
            lam = args[0]
            if not (isinstance(lam, Abstract) and lam.tag == "lambda_col"):
                raise Unsupported("signed_weights argument")
            kk = st.env["$k0"]
            eng.oblige(st, "weights_for_the_current_grid_column", lam.label == COL(kk), "wiring", node)
            return Nd("constraint_weights", (n,), "series", "DEFAULT", cell=lambda r, kk=kk: WC(kk, r))
        if name == "signed_weights" and recv is self.obj and not args:
            return Nd("objective_weights", (n,), "series", "DEFAULT", cell=lambda r: WO(r))
        if name == "abs" and is_nd(recv) and getattr(recv, "cell", None):
            c = recv.cell
            return self._derive(recv, name=f"|{recv.name}|", cell=lambda r: If(to_real(c(r)) >= 0, to_real(c(r)), -to_real(c(r))))
        if name == "numpy.unique" and is_nd(args[0]):
            return Abstract("unique", of=args[0], count=fresh("n_unique"))
        if name == "len" and isinstance(args[0], Abstract) and args[0].tag == "unique":
            st.assume(args[0].count >= 1)
            return args[0].count
        if name in ("DummyClassifier", "sklearn.dummy.DummyClassifier", "DummyRegressor", "sklearn.dummy.DummyRegressor"):
            return Abstract("est", kind="constant", trained_for=None, constant=kwargs.get("constant"))
        if name in ("copy.deepcopy", "sklearn.base.clone", "sklearn.clone") and args and args[0] is self.estimator:
            return Abstract("est", kind="copy_of_the_base_estimator", trained_for=None)
        if name == "copy.copy" and args and args[0] is self.estimator:
            return Abstract("est", kind="shallow_copy", trained_for=None)          # shares the nested objects of a composite estimator (Pipeline steps, ...)
        if name == "fit" and isinstance(recv, Abstract) and recv.tag == "est":
            kk = st.env["$k0"]
            eng.oblige(st, "every_grid_point_trains_its_own_independent_copy_of_the_estimator", BoolVal(recv.kind in ("copy_of_the_base_estimator", "constant")), "wiring", node)
            labels, w = (args[1] if len(args) > 1 else None), kwargs.get("sample_weight")
            const = recv.kind == "constant"
            # the constant classifier (single relabelled value) may be fitted without weights: it does not depend on them (all zero when every signed weight vanishes)
            eng.oblige(st, "learner_gets_X_unchanged_and_weights_under_sample_weight_name",
                       BoolVal(bool(args) and args[0] is self.X and ((is_nd(w) and set(kwargs) == {"sample_weight"}) or (const and not kwargs))), "wiring", node)
            if not (is_nd(labels) and labels.cell) or (w is not None and not (is_nd(w) and w.cell)):
                raise Unsupported("labels/weights lost their point-wise view")
            wk = WC(kk, GI) + If(self.in_span, 0, WO(GI))
            rng = in_range((n,), (GI,))
            eng.oblige(st, "classification_labels_are_one_where_the_weight_is_positive",
                       Implies(And(rng, self.is_clf), to_real(labels.cell(GI)) == If(wk > 0, 1, 0)), "reduction", node)
            if w is not None:
                eng.oblige(st, "classification_weights_are_the_absolute_signed_weights", Implies(And(rng, self.is_clf), to_real(w.cell(GI)) == If(wk >= 0, wk, -wk)), "reduction", node)
                eng.oblige(st, "regression_keeps_the_moments_labels_and_signed_weights", Implies(And(rng, Not(self.is_clf)), to_real(w.cell(GI)) == wk), "reduction", node)
            if isinstance(st.env.get("y_reduction_unique"), Abstract):
                cnt = st.env["y_reduction_unique"].count
                eng.oblige(st, "constant_classifier_iff_a_single_relabelled_value", (cnt == 1) == BoolVal(recv.kind == "constant"), "reduction", node)
                eng.oblige(st, "single_value_shortcut_looks_at_the_labels_the_learner_is_trained_on", BoolVal(st.env["y_reduction_unique"].of is labels), "wiring", node)
            st.env["current_estimator"] = Abstract("est", kind=recv.kind, trained_for=kk)
            return None
        if name == "time":
            return fresh("t", RealSort())
        if name == "gamma" and recv in (self.obj, self.cons):
            e = self._current_estimator(args[0])
            if e.trained_for is None:
                eng.oblige(st, "predictor_function_evaluates_a_trained_estimator", BoolVal(False), "wiring", node)
                raise Unsupported("estimator not trained yet")
            return Abstract("gamma_series", est=e.trained_for, of="objective" if recv is self.obj else "constraints")
        if name == "max" and isinstance(recv, Abstract) and recv.tag == "gamma_series":
            return GMAX(recv.est)
        if name == "append" and isinstance(recv, SymSeq) and args and isinstance(args[0], Abstract) and args[0].tag == "est":
            if args[0].trained_for is None:
                raise Unsupported("appending an untrained estimator")
            recv.over.append((recv.n, args[0].trained_for))
            recv.n = recv.n + 1
            return None
        if name == "$listcomp":
            it, (comp,) = recv, args
            if isinstance(it, Abstract) and it.tag == "range" and len(comp.generators) == 1 and not comp.generators[0].ifs:
                eng.assign(comp.generators[0].target, JJ, st)
                saved = st.pc
                st.pc = list(st.pc) + [JJ >= it.lo, JJ < it.hi]
                try:
                    e = to_real(eng.ev(comp.elt, st))
                finally:
                    st.pc = saved
                return SymSeq(z3.Lambda([JJ], e), If(it.hi > it.lo, it.hi - it.lo, 0), tag="losses")
            raise Unsupported("comprehension")
        if name in ("min", "max") and len(args) == 1 and isinstance(args[0], SymSeq):
            s = args[0]
            mv, wit = fresh(name + "_value", RealSort()), fresh(name + "_witness")
            j = Int("jm")
            eng.oblige(st, "extremum_of_a_nonempty_list", s.n >= 1, "bounds", node)
            st.assume(ForAll([j], Implies(And(0 <= j, j < s.n), mv <= s.raw(j) if name == "min" else mv >= s.raw(j))), 0 <= wit, wit < s.n, s.raw(wit) == mv)
            return mv
        if name == "index" and isinstance(recv, SymSeq):
            s, v = recv, to_real(args[0])
            ix = fresh("first_index")
            j = Int("ji")
            st.assume(0 <= ix, ix < s.n, s.raw(ix) == v, ForAll([j], Implies(And(0 <= j, j < ix), s.raw(j) != v)))
            return ix
        return super().on_call(eng, st, node, name, recv, args, kwargs)

    def havoc_abstract(self, eng, st, name, v):
        return v

    # ------------------------------------------------------------------ loop
    @staticmethod
    def _prep(st):
        f = st.env["self"].fields
        for nm, sort in (("predictors_", IntSort()), ("objectives_", RealSort())):
            if isinstance(f.get(nm), PyList):
                if f[nm].items:
                    raise Unsupported(f"{nm} is expected to start empty")
                f[nm] = SymSeq(ConstArray(IntSort(), IntVal(0) if sort == IntSort() else z3.RealVal(0)), IntVal(0), unwrap=(to_real if sort == RealSort() else None))

    @staticmethod
    def _ghost_havoc(st):
        st.ghost["gam_of"] = fresh("gam_of", z3.ArraySort(IntSort(), IntSort()))
        st.ghost["lv_of"] = fresh("lv_of", z3.ArraySort(IntSort(), IntSort()))

    def recorded(self, st, upto):
        f = st.env["self"].fields
        P, O = f["predictors_"], f["objectives_"]
        if not isinstance(P, SymSeq) or not isinstance(O, SymSeq):
            raise Unsupported("predictors_/objectives_ are expected to be lists")
        return [("one_predictor_and_objective_per_processed_column", And(P.n == upto, O.n == upto)),
                ("predictor_j_is_the_estimator_trained_for_column_j", ForAll([k_], Implies(And(0 <= k_, k_ < P.n), P.raw(k_) == k_), patterns=[Select(P.arr, k_)])),
                ("objective_j_is_the_objective_of_predictor_j", ForAll([k_], Implies(And(0 <= k_, k_ < O.n), O.raw(k_) == OBJV(k_)), patterns=[Select(O.arr, k_)])),
                ("gammas_and_lambda_of_column_j_belong_to_predictor_j",
                 ForAll([k_], Implies(And(0 <= k_, k_ < upto), And(Select(st.ghost["gam_of"], COL(k_)) == k_, Select(st.ghost["lv_of"], COL(k_)) == COL(k_))), patterns=[COL(k_)]))]

    def inv(self, st):
        k = st.env["$k0"]
        return [("k_range", And(0 <= k, k <= Kc))] + self.recorded(st, k)

    def loops(self):
        return {0: LoopSpec(self.inv, prepare=self._prep, ghost_havoc=self._ghost_havoc)}

    # ------------------------------------------------------------------ post
    def post(self, eng, st, status, value):
        if status != "return":
            return [("no_exception", BoolVal(False))]
        f = st.env["self"].fields
        best = f.get("best_idx_")
        if not is_z3(best):
            return [("best_idx_is_set", BoolVal(False))]
        loss = lambda j: self.ow * OBJV(j) + self.cw * GMAX(j)
        j = Int("jp")
        return [("returns_self", BoolVal(value is st.env["self"]))] + self.recorded(st, Kc) + [
            ("best_idx_in_range", And(0 <= best, best < Kc)),
            ("best_idx_minimises_the_tradeoff", ForAll([j], Implies(And(0 <= j, j < Kc), loss(best) <= loss(j)))),
            ("best_idx_is_the_first_minimiser", ForAll([j], Implies(And(0 <= j, j < best), loss(j) > loss(best))))]


class Delegate(NdContract):
    source = GS

    def __init__(self, method):
        self.function, self.method = f"GridSearch.{method}", method

    def params(self, eng, st):
        self.best = Int("best_idx_")
        self.preds = Abstract("predictors")
        self.X = Abstract("X")
        st.env.update({"self": Obj("GridSearch", {"predictors_": self.preds, "best_idx_": self.best}), "X": self.X})
        self.called = None

    def on_call(self, eng, st, node, name, recv, args, kwargs):
        if name.endswith("check_is_fitted"):
            return None
        if name in ("predict", "predict_proba") and isinstance(recv, Abstract) and recv.tag == "predictor_at":
            self.called = (name, recv.idx, args)
            return Abstract("prediction")
        return super().on_call(eng, st, node, name, recv, args, kwargs)

    def on_subscript(self, eng, st, node, base, index):
        if base is self.preds:
            return Abstract("predictor_at", idx=index)
        return super().on_subscript(eng, st, node, base, index)

    def post(self, eng, st, status, value):
        ok = status == "return" and self.called is not None and self.called[0] == self.method and self.called[1] is self.best \
            and len(self.called[2]) == 1 and self.called[2][0] is self.X and isinstance(value, Abstract) and value.tag == "prediction"
        return [(f"{self.method}_delegates_to_the_selected_predictor_with_the_given_X", BoolVal(bool(ok)))]



def _native_case(c):
    from ..bounded import C09 as X
    try:
        return X._check(c)[2]
    except Exception:
        return None


def _fit_native_search(self, ob, r):
    """bounded native search after a refuted / undecided obligation: the real GridSearch.fit with the exact learners of the stand-in (vf/bounded/C09.py)
    on ~300 seeded small cases (forked pool); findings already recorded for the unchanged tree are skipped"""
    import multiprocessing as mp
    import os
    from ..bounded import C09 as X
    cases = X._cases(0, 8, 1, 30)[:320]
    known = {"C09:grid:duplicates:empty-event-group-cell", "C09:fit:raises:constant-real-labels"}
    workers = int(os.environ.get("VF_WORKERS", "0") or 0) or min(16, os.cpu_count() or 4)
    with mp.get_context("fork").Pool(workers) as pool:
        for res in pool.imap(_native_case, cases, chunksize=8):
            if res is not None and res[0] not in known:
                key, what, rp = res
                pool.terminate()
                return {"confirmed": True, "key": key, "what": what, "replay": rp}
    return {"confirmed": False}


FitLoop.replay = _fit_native_search
