"""Contracts of the MetricFrame plumbing (C01) and of _DerivedMetric.__call__ (C03).

AnnotatedCall   AnnotatedMetricFunction.__call__(df): every argument handed to the wrapped metric is a label-free copy
                (np.asarray(list(.))) of a column of the SAME frame df: y_true, y_pred positionally, each mapped parameter by keyword.
                ('with the per-sample parameters sliced the same way')
ConstructAMF    MetricFrame._construct_annotated_metric_function: for every non-None per-sample parameter p the frame column
                name ++ "_" ++ p receives asarray(value) and the metric's keyword p is mapped to that column; None parameters are not passed.
column_name_injectivity  (lemma over that contract, z3 strings): the column key is injective in (metric name, parameter name) and differs
                from 'y_true' / 'y_pred'.  REFUTED by z3 (e.g. ("a","b_c") vs ("a_b","c")): the known finding C01:sample-param-column-name-collision.
ExtractResult   MetricFrame._extract_result: callable metric -> column 0 as Series when control levels are involved (by_group always), .iloc[0]
                for overall without control levels; dict of metrics -> unchanged.
DerivedCall     _DerivedMetric.__call__: keyword routing (sample params / `method` to the transform / everything else bound into the metric)
                and dispatch on the transform.
"""
import z3
from z3 import And, BoolVal, Not, Or, String, StringVal

from ..pyvc.core import Abstract, Contract, Obj, PyDict, PyList, Unsupported, is_z3, lift
from .ndmodel import GI, GJ, Nd, NdContract, in_range, is_nd

AMF = "fairlearn/metrics/_annotated_metric_function.py"
MF = "fairlearn/metrics/_metric_frame.py"
DM = "fairlearn/metrics/_make_derived_metric.py"


class AnnotatedCall(NdContract):
    """columns are arrays with one entry per row: shape (n,) for scalar labels, (n, d) for vector-valued rows (class probabilities, multi-output);
    every argument of the metric must have exactly the rows of its column: same shape (the sample axis is kept also for n = 1) and same cells."""
    source, function = AMF, "AnnotatedMetricFunction.__call__"

    def __init__(self, mapping, rank=1):
        self.mapping, self.rank = dict(mapping), rank
        self.variant = f"[{len(mapping)} keyword parameter(s), rows are {'scalars' if rank == 1 else 'vectors'}]"

    def params(self, eng, st):
        self.df = Abstract("frame", name="df")
        self.func = Abstract("metric")
        self.n, self.d = z3.Int("n_rows_of_the_frame"), z3.Int("row_width")
        st.assume(self.n >= 1, self.d >= 1)
        st.env.update({"self": Obj("AnnotatedMetricFunction", {"postional_argument_names": PyList(["y_true", "y_pred"]), "func": self.func,
                                                               "kw_argument_mapping": PyDict(self.mapping), "name": "m"}), "df": self.df})

    def column(self, name):
        shape = (self.n,) if self.rank == 1 or name not in ("y_true", "y_pred") else (self.n, self.d)
        f = z3.Function(f"cell<{name}>", *([z3.IntSort()] * len(shape)), z3.RealSort())
        return Nd(f"df[{name}]", shape, "series", "USER", cell=lambda *ix: f(*ix), column_of=(self.df, name), cellfn=f)

    def on_subscript(self, eng, st, node, base, index):
        if isinstance(base, Abstract) and base.tag == "frame" and isinstance(index, str):
            return self.column(index)
        return super().on_subscript(eng, st, node, base, index)

    def on_call(self, eng, st, node, name, recv, args, kwargs):
        if name == "list" and args and is_nd(args[0]):
            return self._derive(args[0], kind="list", prov="ERASED")
        if name == "$call" and recv is self.func:
            st.ghost["called"] = (list(args), dict(kwargs))          # per-path ghost state (contract attributes are shared between paths)
            return Abstract("metric_value")
        return super().on_call(eng, st, node, name, recv, args, kwargs)

    def post(self, eng, st, status, value):
        if status != "return" or st.ghost.get("called") is None:
            return [("the_metric_is_called_and_its_value_returned", BoolVal(False))]
        args, kw = st.ghost["called"]

        def rows_of(v, nm):
            """v holds exactly the rows of column nm of the given frame, label free"""
            if not (is_nd(v) and getattr(v, "column_of", None) is not None and v.column_of[0] is self.df and v.column_of[1] == nm and v.prov == "ERASED"):
                return BoolVal(False)
            want = self.column(nm)
            if len(v.shape) != len(want.shape) or getattr(v, "cell", None) is None:
                return BoolVal(False)
            ix = (GI, GJ)[:len(want.shape)]
            return And(*[lift(a) == lift(b) for a, b in zip(v.shape, want.shape)], z3.Implies(in_range(want.shape, ix), v.cell(*ix) == want.cell(*ix)))
        return [("returns_the_metric_value", BoolVal(isinstance(value, Abstract) and value.tag == "metric_value")),
                ("positional_arguments_are_the_rows_of_y_true_y_pred_of_the_given_frame",
                 And(rows_of(args[0], "y_true"), rows_of(args[1], "y_pred")) if len(args) == 2 else BoolVal(False)),
                ("keyword_arguments_are_exactly_the_mapped_columns_of_the_same_frame",
                 And(*[rows_of(kw[k], c) for k, c in self.mapping.items()]) if set(kw) == set(self.mapping) else BoolVal(False))]


class ConstructAMF(Contract):
    source, function = MF, "MetricFrame._construct_annotated_metric_function"

    def __init__(self, params):
        self.p = list(params)          # list of (param name, is None?)
        self.variant = f"[{','.join(n + ('=None' if none else '') for n, none in params)}]"

    def params(self, eng, st):
        self.name = String("metric_name")
        self.values = {n: (None if none else Abstract("value", name=n)) for n, none in self.p}
        self.frame = Abstract("all_data")
        self.writes = []
        st.env.update({"self": Obj("MetricFrame"), "func": Abstract("metric"), "name": self.name, "sample_params": PyDict(self.values), "all_data": self.frame})

    def on_call(self, eng, st, node, name, recv, args, kwargs):
        if name == "numpy.asarray" and args and isinstance(args[0], Abstract) and args[0].tag == "value":
            return Abstract("asarray", of=args[0])
        if name == "AnnotatedMetricFunction":
            return Abstract("amf", kw=dict(kwargs))
        if name == "getattr" and len(args) >= 2 and args[0] is st.env.get("func") and args[1] == "__name__":
            return String("name_of_the_metric_function")          # any string (lambdas: "<lambda>", partial objects: attribute missing -> default)
        if name == "str" and is_z3(args[0]):
            return args[0]
        return NotImplemented

    def on_attr(self, eng, st, node, base, attr):
        if base is st.env.get("func") and attr == "__name__":
            return String("name_of_the_metric_function")
        return NotImplemented

    def on_store_subscript(self, eng, st, node, base, index, value):
        if base is self.frame:
            self.writes.append((index, value))
            return True
        return NotImplemented

    def post(self, eng, st, status, value):
        if status != "return" or not (isinstance(value, Abstract) and value.tag == "amf"):
            return [("returns_an_annotated_metric_function", BoolVal(False))]
        kw = value.kw
        mapping = kw.get("kw_argument_mapping")
        given = [n for n, none in self.p if not none]
        out = [("wraps_the_given_function_under_its_name", BoolVal(kw.get("func") is st.env["func"] and kw.get("name") is self.name)),
               ("positional_arguments_y_true_y_pred", BoolVal(isinstance(kw.get("positional_argument_names"), PyList) and kw["positional_argument_names"].items == ["y_true", "y_pred"])),
               ("only_given_parameters_are_mapped", BoolVal(isinstance(mapping, PyDict) and list(mapping.d.keys()) == given)),
               ("one_column_written_per_given_parameter", BoolVal(len(self.writes) == len(given)))]
        if isinstance(mapping, PyDict) and len(self.writes) == len(given):
            for n, (key, val) in zip(given, self.writes):
                want = z3.Concat(self.name, StringVal("_" + n))
                out.append((f"column_of_{n}_is_name_underscore_param", key == want if is_z3(key) else BoolVal(False)))
                out.append((f"column_of_{n}_holds_the_parameter_values", BoolVal(isinstance(val, Abstract) and val.tag == "asarray" and val.of is self.values[n])))
                out.append((f"keyword_{n}_is_mapped_to_its_column", BoolVal(mapping.d.get(n) is key)))
        return out


class GetAnnotatedFunctions(Contract):
    """MetricFrame._get_annotated_metric_functions: every metric is wrapped together with ITS OWN entry of sample_params (the whole dict for a bare
    callable, {} for a dict entry without parameters), under its own name, writing into the same frame; and the caller's sample_params mapping is left
    exactly as it was (a second MetricFrame built from the same dictionary must see the same per-sample parameters)."""
    source, function = MF, "MetricFrame._get_annotated_metric_functions"

    def __init__(self, kind):
        self.kind = kind          # 'callable' | 'dict' | 'dict_no_params'
        self.variant = f"[{kind}]"

    def params(self, eng, st):
        self.frame = Abstract("all_data")
        self.fa, self.fb = Abstract("metric", name="a"), Abstract("metric", name="b")
        self.pa, self.pb = PyDict({"sample_weight": Abstract("value", name="wa")}), PyDict({"sample_weight": Abstract("value", name="wb")})
        if self.kind == "callable":
            metric, sp = self.fa, PyDict({"sample_weight": Abstract("value", name="wa")})
        elif self.kind == "dict":
            metric, sp = PyDict({"a": self.fa, "b": self.fb}), PyDict({"a": self.pa})          # 'b' has no per-sample parameters
        else:
            metric, sp = PyDict({"a": self.fa, "b": self.fb}), None
        self.metric, self.sp = metric, sp
        self.before = None if sp is None else [(k, v) for k, v in sp.d.items()]
        st.env.update({"self": Obj("MetricFrame"), "metric": metric, "sample_params": sp, "all_data": self.frame})
        st.ghost["callers_sample_params"] = sp
        st.ghost["wrapped"] = ()

    def on_call(self, eng, st, node, name, recv, args, kwargs):
        if name == "_construct_annotated_metric_function":
            st.ghost["wrapped"] = st.ghost["wrapped"] + ((kwargs.get("func"), kwargs.get("name"), kwargs.get("sample_params"), kwargs.get("all_data")),)
            return Obj("AnnotatedMetricFunction", {"name": kwargs.get("name"), "func": kwargs.get("func")})
        if name == "isinstance" and (args[0] is st.env.get("metric") or args[0] is st.env.get("sample_params")) and args[1] == ["dict"]:
            return isinstance(args[0], PyDict)
        return NotImplemented

    def post(self, eng, st, status, value):
        if status != "return" or not isinstance(value, PyDict):
            return [("returns_the_dict_of_annotated_functions", BoolVal(False))]
        w = st.ghost["wrapped"]
        sp = st.ghost["callers_sample_params"]
        out = []
        if self.kind == "callable":
            ok = len(w) == 1 and w[0][0] is st.env["metric"] and w[0][1] is None and isinstance(w[0][2], PyDict) and list(w[0][2].d) == ["sample_weight"] and w[0][3] is st.env["all_data"]
            out.append(("bare_callable_wrapped_once_with_all_sample_params", BoolVal(bool(ok))))
        else:
            m = st.env["metric"]
            names = [x[1] for x in w]
            ok = names == ["a", "b"] and w[0][0] is m.d["a"] and w[1][0] is m.d["b"] and all(x[3] is st.env["all_data"] for x in w)
            out.append(("every_dict_entry_wrapped_under_its_own_name", BoolVal(bool(ok))))
            if ok and self.kind == "dict":
                own = isinstance(w[0][2], PyDict) and list(w[0][2].d) == ["sample_weight"] and getattr(w[0][2].d["sample_weight"], "name", None) == "wa" \
                    and isinstance(w[1][2], PyDict) and not w[1][2].d
                out.append(("every_metric_gets_its_own_sample_params_entry_or_none", BoolVal(bool(own))))
            out.append(("result_keyed_by_the_metric_names", BoolVal(list(value.d) == ["a", "b"])))
        if sp is not None:
            same = [(k, v) for k, v in sp.d.items()]
            out.append(("callers_sample_params_mapping_is_not_modified",
                        BoolVal(len(same) == len(self.before) and all(k1 == k0 and (v1 is v0 or (isinstance(v1, PyDict) and isinstance(v0, PyDict) and list(v1.d) == list(v0.d)))
                                                                      for (k1, v1), (k0, v0) in zip(same, self.before)))))
        return out


class ProcessFeaturesDict(Contract):
    """MetricFrame._process_features for a dict of arrays: one GroupFeature per entry, IN THE CALLER'S ORDER (the levels of by_group follow it, as for the
    DataFrame with the same columns), each holding its own label-free column, numbered by position."""
    source, function = MF, "MetricFrame._process_features"

    def params(self, eng, st):
        self.vals = {"zeta": Abstract("value", name="zeta"), "alpha": Abstract("value", name="alpha"), "Mid": Abstract("value", name="Mid")}          # not in sorted order
        st.env.update({"self": Obj("MetricFrame"), "base_name": "sensitive_feature_", "features": PyDict(self.vals), "sample_array": Abstract("sample")})

    def on_call(self, eng, st, node, name, recv, args, kwargs):
        if name == "isinstance" and isinstance(args[0], PyDict):
            return args[1] == ["dict"]
        if name == "isinstance" and isinstance(args[0], str):
            return args[1] == ["str"]
        if name == "numpy.asarray" and args and isinstance(args[0], Abstract) and args[0].tag == "value":
            return Abstract("asarray", of=args[0])
        if name in ("pandas.DataFrame.from_dict", "pandas.DataFrame") and args and isinstance(args[0], PyDict):
            return Abstract("frame_from_dict", cols=[(k, v) for k, v in args[0].d.items()])
        if name == "len" and isinstance(args[0], PyList):
            return len(args[0].items)
        if name.endswith("check_consistent_length"):
            return None
        if name == "GroupFeature":
            return Abstract("group_feature", base=args[0], col=args[1], idx=args[2], name=args[3] if len(args) > 3 else None)
        return NotImplemented

    def on_attr(self, eng, st, node, base, attr):
        if isinstance(base, Abstract) and base.tag == "frame_from_dict":
            if attr == "columns":
                return PyList([k for k, _ in base.cols])
            if attr == "iloc":
                return Abstract("frame_iloc", of=base)
        return NotImplemented

    def on_subscript(self, eng, st, node, base, index):
        if isinstance(base, Abstract) and base.tag == "frame_iloc" and isinstance(index, tuple) and len(index) == 2 and isinstance(index[1], int):
            k, v = base.of.cols[index[1]]
            return Abstract("column", key=k, arr=v)
        return NotImplemented

    def post(self, eng, st, status, value):
        if status != "return" or not isinstance(value, PyList):
            return [("returns_the_list_of_group_features", BoolVal(False))]
        want = list(self.vals)
        got = [(getattr(g, "col", None), getattr(g, "idx", None)) for g in value.items]
        ok_order = len(got) == len(want) and all(isinstance(c, Abstract) and c.tag == "column" and c.key == w and i == j for j, ((c, i), w) in enumerate(zip(got, want)))
        ok_vals = ok_order and all(isinstance(c.arr, Abstract) and c.arr.tag == "asarray" and c.arr.of.name == c.key for c, _ in got)
        return [("one_feature_per_dict_entry_in_the_callers_order", BoolVal(bool(ok_order))),
                ("each_feature_holds_the_label_free_copy_of_its_own_entry", BoolVal(bool(ok_vals)))]


def column_name_injectivity():
    """-> list of (name, hyps, goal) for the lemma over ConstructAMF's postcondition"""
    n1, p1, n2, p2 = String("name1"), String("param1"), String("name2"), String("param2")
    key = lambda a, b: z3.Concat(a, StringVal("_"), b)
    return [("column_key_injective_in_metric_and_parameter_name", [Or(n1 != n2, p1 != p2)], key(n1, p1) != key(n2, p2)),
            ("column_key_differs_from_y_true_and_y_pred", [], And(key(n1, p1) != StringVal("y_true"), key(n1, p1) != StringVal("y_pred")))]


class ExtractResult(Contract):
    source, function = MF, "MetricFrame._extract_result"

    def __init__(self, callable_, has_control):
        self.callable_, self.has_control = callable_, has_control
        self.variant = f"[callable={callable_},control={has_control}]"

    def params(self, eng, st):
        self.ncl = z3.Bool("no_control_levels")
        self.res = Abstract("result_frame")
        st.env.update({"self": Obj("MetricFrame", {"_user_supplied_callable": self.callable_, "control_levels": PyList(["c"]) if self.has_control else None}),
                       "underlying_result": self.res, "no_control_levels": self.ncl})

    def on_attr(self, eng, st, node, base, attr):
        if base is self.res and attr == "iloc":
            return Abstract("iloc")
        return NotImplemented

    def on_subscript(self, eng, st, node, base, index):
        if isinstance(base, Abstract) and base.tag == "iloc":
            if index == 0:
                return Abstract("first_row")
            if isinstance(index, tuple) and len(index) == 2 and isinstance(index[0], Abstract) and index[0].tag == "slice" and index[1] == 0:
                return Abstract("first_column")
            raise Unsupported("iloc index")
        return NotImplemented

    def post(self, eng, st, status, value):
        if status != "return":
            return [("no_exception", BoolVal(False))]
        tag = getattr(value, "tag", None)
        if not self.callable_:
            return [("dict_of_metrics_is_returned_unchanged", BoolVal(value is self.res))]
        if self.has_control:
            return [("callable_with_control_levels_gives_the_single_column", BoolVal(tag == "first_column"))]
        return [("callable_without_control_gives_column_for_by_group_and_scalar_row_for_overall",
                 z3.If(self.ncl, BoolVal(tag == "first_column"), BoolVal(tag == "first_row")))]


class DerivedCall(Contract):
    source, function = DM, "_DerivedMetric.__call__"

    def __init__(self, transform, extra):
        self.transform, self.extra = transform, list(extra)        # extra: list of keyword names passed by the caller
        self.variant = f"[{transform};{','.join(extra) or '-'}]"

    def params(self, eng, st):
        self.vals = {k: Abstract("kwvalue", name=k) for k in self.extra}
        self.fn = Abstract("metric_fn")
        self.mf = None
        st.env.update({"self": Obj("_DerivedMetric", {"_sample_param_names": PyList(["sample_weight"]), "_metric_fn": self.fn, "_transform": self.transform}),
                       "y_true": Abstract("y_true"), "y_pred": Abstract("y_pred"), "sensitive_features": Abstract("sf"), "other_params": PyDict(self.vals)})
        self.agg = None

    def on_name(self, eng, st, name):
        return NotImplemented

    def on_attr(self, eng, st, node, base, attr):
        if base is self.fn and attr == "__name__":
            return "metric"
        if isinstance(base, Abstract) and base.tag == "partial" and attr == "__name__":
            return "partial"
        return NotImplemented

    def on_store_attr(self, eng, st, node, base, attr, value):
        if isinstance(base, Abstract) and base.tag == "partial" and attr == "__name__":
            return True
        return NotImplemented

    def on_call(self, eng, st, node, name, recv, args, kwargs):
        if name == "functools.partial":
            return Abstract("partial", fn=args[0], bound=dict(kwargs))
        if name == "sorted":
            items = eng._concrete_items(args[0])
            return PyList(sorted(items, key=lambda t: t[0]))
        if name == "str" and isinstance(args[0], (Abstract, PyList)):
            return "v"
        if name == "MetricFrame":
            self.mf = dict(kwargs)
            return Abstract("mf")
        if isinstance(recv, Abstract) and recv.tag == "mf" and name in ("difference", "ratio", "group_min", "group_max"):
            self.agg = (name, dict(kwargs), list(args))
            return Abstract("aggregate", kind=name)
        return NotImplemented

    def post(self, eng, st, status, value):
        valid = self.transform in ("difference", "ratio", "group_min", "group_max")
        if status == "raise":
            return [("raises_only_for_an_unknown_transform", BoolVal(not valid)), ("raises_ValueError", BoolVal(value.typ == "ValueError"))]
        if self.mf is None or self.agg is None:
            return [("builds_a_MetricFrame_and_aggregates_it", BoolVal(False))]
        sp = self.mf.get("sample_params")
        metric = self.mf.get("metrics")
        bound_expected = {k: self.vals[k] for k in self.extra if k not in ("sample_weight", "method")}
        want_sp = {k: self.vals[k] for k in self.extra if k == "sample_weight"}
        want_tp = {k: self.vals[k] for k in self.extra if k == "method"} if self.transform in ("difference", "ratio") else {}
        same = lambda d, e: isinstance(d, dict) and set(d) == set(e) and all(d[k] is e[k] for k in e)
        return [("returns_only_for_a_known_transform", BoolVal(valid)),
                ("data_arguments_forwarded", BoolVal(self.mf.get("y_true") is st.env["y_true"] and self.mf.get("y_pred") is st.env["y_pred"]
                                                     and self.mf.get("sensitive_features") is st.env["sensitive_features"])),
                ("sample_weight_goes_to_sample_params", BoolVal(isinstance(sp, PyDict) and same(sp.d, want_sp))),
                ("other_keywords_are_bound_into_the_metric", BoolVal(isinstance(metric, Abstract) and metric.tag == "partial" and metric.fn is self.fn and same(metric.bound, bound_expected))),
                ("dispatch_on_the_transform", BoolVal(self.agg[0] == self.transform and isinstance(value, Abstract) and value.tag == "aggregate")),
                ("method_goes_to_the_transform_only", BoolVal(same(self.agg[1], want_tp) and not self.agg[2]))]


DRF = "fairlearn/metrics/_disaggregated_result.py"


class ApplyToDataframe(Contract):
    """apply_to_dataframe(data, metric_functions): one entry per metric name, each the metric applied to the SAME frame `data`."""
    source, function = DRF, "apply_to_dataframe"

    def __init__(self, n_metrics):
        self.k = n_metrics
        self.variant = f"[{n_metrics} metric(s)]"

    def params(self, eng, st):
        self.data = Abstract("frame", name="group_rows")
        self.fns = {f"m{i}": Abstract("amf", idx=i) for i in range(self.k)}
        st.env.update({"data": self.data, "metric_functions": PyDict(self.fns), "include_groups": False})

    def on_call(self, eng, st, node, name, recv, args, kwargs):
        if name == "$call" and isinstance(recv, Abstract) and recv.tag == "amf":
            return Abstract("value", of=recv, on=args[0] if args else None)
        if name == "pandas.Series":
            if args and isinstance(args[0], PyDict):
                return Abstract("series_of", d=dict(args[0].d))
            return Abstract("series_of", d={})
        return NotImplemented

    def post(self, eng, st, status, value):
        ok = status == "return" and isinstance(value, Abstract) and value.tag == "series_of" and list(value.d.keys()) == list(self.fns.keys()) and all(
            isinstance(v, Abstract) and v.tag == "value" and v.of is self.fns[k] and v.on is self.data for k, v in value.d.items())
        return [("one_entry_per_metric_each_evaluated_on_the_given_rows", BoolVal(bool(ok)))]


class ApplyFunctions(Contract):
    """DisaggregatedResult._apply_functions relative to the assumed pandas contracts (groupby(keys).apply(f) evaluates f on the rows of every observed key
    combination, keys sorted; reindex(product) adds the unobserved combinations as NaN rows and keeps the others)."""
    source, function = DRF, "DisaggregatedResult._apply_functions"

    def __init__(self, names):
        self.names = names
        self.variant = f"[grouping_names={names}]"

    def params(self, eng, st):
        self.data, self.fns = Abstract("frame", name="data"), Abstract("fns")
        st.env.update({"data": self.data, "annotated_functions": self.fns, "grouping_names": None if self.names is None else PyList(list(self.names))})

    def on_call(self, eng, st, node, name, recv, args, kwargs):
        if name == "apply_to_dataframe":
            return Abstract("whole", data=args[0] if args else None, fns=kwargs.get("metric_functions"))
        if name == "groupby" and recv is self.data:
            return Abstract("grouped", by=args[0] if args else None)
        if name == "apply" and isinstance(recv, Abstract) and recv.tag == "grouped":
            f = args[0] if args else None
            return Abstract("per_group", by=recv.by, f=getattr(getattr(f, "node", None), "name", None), fns=kwargs.get("metric_functions"), include=kwargs.get("include_groups"))
        if name == "numpy.unique" and args and isinstance(args[0], Abstract) and args[0].tag == "col":
            return Abstract("observed_values", col=args[0].name)
        if name == "pandas.MultiIndex.from_product":
            return Abstract("product_index", levels=args[0] if args else None, names=kwargs.get("names"))
        if name == "reindex" and isinstance(recv, Abstract) and recv.tag == "per_group":
            return Abstract("reindexed", of=recv, index=kwargs.get("index"))
        return NotImplemented

    def on_subscript(self, eng, st, node, base, index):
        if base is self.data and isinstance(index, str):
            return Abstract("col", of=base, name=index)
        return NotImplemented

    def post(self, eng, st, status, value):
        if status != "return":
            return [("no_exception", BoolVal(False))]
        names = self.names
        if not names:
            return [("without_grouping_the_metrics_are_evaluated_on_all_rows", BoolVal(isinstance(value, Abstract) and value.tag == "whole" and value.data is self.data and value.fns is self.fns))]
        pg = value.of if (isinstance(value, Abstract) and value.tag == "reindexed") else value
        ok_group = isinstance(pg, Abstract) and pg.tag == "per_group" and isinstance(pg.by, PyList) and pg.by.items == list(names) and pg.f == "apply_to_dataframe" \
            and pg.fns is self.fns and pg.include is False
        out = [("metrics_evaluated_on_the_rows_of_every_observed_combination_of_the_grouping_columns", BoolVal(bool(ok_group)))]
        if len(names) == 1:
            out.append(("single_feature_index_is_the_observed_values", BoolVal(value is pg)))
        else:
            ix = getattr(value, "index", None)
            lv = getattr(ix, "levels", None)
            ok = isinstance(value, Abstract) and value.tag == "reindexed" and isinstance(ix, Abstract) and ix.tag == "product_index" and isinstance(lv, PyList) \
                and [getattr(x, "col", None) for x in lv.items] == list(names) and all(isinstance(x, Abstract) and x.tag == "observed_values" for x in lv.items) \
                and isinstance(ix.names, PyList) and ix.names.items == list(names)
            out.append(("several_features_are_reindexed_to_the_product_of_observed_values_in_level_order", BoolVal(bool(ok))))
        return out


class Create(Contract):
    source, function = DRF, "DisaggregatedResult.create"

    def __init__(self, has_control):
        self.has_control = has_control
        self.variant = f"[control={has_control}]"

    def params(self, eng, st):
        self.a = {"data": Abstract("data"), "annotated_functions": Abstract("fns"), "sensitive_feature_names": PyList(["s1", "s2"]),
                  "control_feature_names": PyList(["c1"]) if self.has_control else None}
        st.env.update(self.a)
        self.calls = []

    def on_attr(self, eng, st, node, base, attr):
        if isinstance(base, Abstract) and base.tag == "class" and attr == "_apply_functions":
            return Abstract("libfunc", name="DisaggregatedResult._apply_functions")
        return NotImplemented

    def on_call(self, eng, st, node, name, recv, args, kwargs):
        if name == "DisaggregatedResult._apply_functions":
            gn = kwargs.get("grouping_names")
            self.calls.append((kwargs.get("data"), kwargs.get("annotated_functions"), None if gn is None else list(gn.items)))
            return Abstract("applied", idx=len(self.calls) - 1)
        if name == "DisaggregatedResult":
            return Abstract("result", overall=args[0], by_group=args[1])
        return NotImplemented

    def post(self, eng, st, status, value):
        ok = status == "return" and isinstance(value, Abstract) and value.tag == "result" and len(self.calls) == 2
        if not ok:
            return [("builds_overall_and_by_group", BoolVal(False))]
        o, b = self.calls[value.overall.idx], self.calls[value.by_group.idx]
        cf = ["c1"] if self.has_control else None
        same = lambda c: c[0] is self.a["data"] and c[1] is self.a["annotated_functions"]
        return [("overall_is_grouped_by_the_control_features_only", BoolVal(same(o) and o[2] == cf)),
                ("by_group_is_grouped_by_control_then_sensitive_features", BoolVal(same(b) and b[2] == (cf or []) + ["s1", "s2"]))]


class DuplicateFeatureNames(Contract):
    """The feature-name uniqueness check of MetricFrame.__init__ (from `nameset = set()` to the end of the `for name in namelist` loop), C20:
    the constructor proceeds only when all sensitive and control feature names are pairwise different, and raises ValueError otherwise."""
    source, function = MF, "MetricFrame.__init__"

    def __init__(self, n_sf, n_cf):
        self.n_sf, self.n_cf = n_sf, n_cf
        self.variant = f"[{n_sf} sensitive, {n_cf} control]"

    def body(self, fn):
        import ast
        start = next((i for i, s in enumerate(fn.body) if isinstance(s, ast.Assign) and ast.unparse(s) == "nameset = set()"), None)
        if start is None:
            raise Unsupported("name check not found")
        end = next(i for i in range(start, len(fn.body)) if isinstance(fn.body[i], ast.For) and ast.unparse(fn.body[i].iter) == "namelist")
        return fn.body[start:end + 1]

    def params(self, eng, st):
        self.names = [String(f"sf{i}") for i in range(self.n_sf)] + [String(f"cf{i}") for i in range(self.n_cf)]
        st.env["self"] = Obj("MetricFrame", {"_sf_names": PyList(self.names[:self.n_sf]), "_cf_names": PyList(self.names[self.n_sf:]) if self.n_cf else None})

    def on_call(self, eng, st, node, name, recv, args, kwargs):
        if name == "str":
            return args[0] if is_z3(args[0]) else NotImplemented
        return NotImplemented

    def post(self, eng, st, status, value):
        distinct = And(*[a != b for i, a in enumerate(self.names) for b in self.names[i + 1:]]) if len(self.names) > 1 else BoolVal(True)
        if status == "raise":
            return [("raises_only_for_a_repeated_feature_name", Not(distinct)), ("raises_ValueError", BoolVal(value.typ == "ValueError"))]
        return [("proceeds_only_with_pairwise_different_feature_names", distinct)]
