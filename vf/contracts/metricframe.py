"""Contracts of the MetricFrame plumbing (C01) and of _DerivedMetric.__call__ (C03).

AnnotatedCall   AnnotatedMetricFunction.__call__(df): every argument handed to the wrapped metric is a label-free copy
                (np.asarray(list(.))) of a column of the SAME frame df: y_true, y_pred positionally, each mapped parameter by keyword.
                ('with the per-sample parameters sliced the same way')
ConstructAMF    MetricFrame._construct_annotated_metric_function: for every non-None per-sample parameter p the frame column
                name ++ "_" ++ p receives asarray(value) and the metric's keyword p is mapped to that column; None parameters are not passed.
column_name_injectivity  (lemma over that contract, z3 strings): the column key is injective in (metric name, parameter name) and differs
                from 'y_true' / 'y_pred'.  REFUTED by z3 (e.g. ("a","b_c") vs ("a_b","c")): the known finding C01:sample-param-column-name-collision.
ExtractResult   MetricFrame._extract_result: callable metric -> column 0 as Series when control levels are involved (by_group always), .iloc[0]
                for overall without control levels; dict of metrics -> unchanged.
DerivedCall     _DerivedMetric.__call__: keyword routing (sample params / `method` to the transform / everything else bound into the metric)
                and dispatch on the transform.
"""
import z3
from z3 import And, BoolVal, Not, Or, String, StringVal

from ..pyvc.core import Abstract, Contract, Obj, PyDict, PyList, Unsupported, is_z3

AMF = "fairlearn/metrics/_annotated_metric_function.py"
MF = "fairlearn/metrics/_metric_frame.py"
DM = "fairlearn/metrics/_make_derived_metric.py"


class AnnotatedCall(Contract):
    source, function = AMF, "AnnotatedMetricFunction.__call__"

    def __init__(self, mapping):
        self.mapping = dict(mapping)
        self.variant = f"[{len(mapping)} keyword parameter(s)]"

    def params(self, eng, st):
        self.df = Abstract("frame", name="df")
        self.func = Abstract("metric")
        st.env.update({"self": Obj("AnnotatedMetricFunction", {"postional_argument_names": PyList(["y_true", "y_pred"]), "func": self.func,
                                                               "kw_argument_mapping": PyDict(self.mapping), "name": "m"}), "df": self.df})
        self.called = None

    def on_subscript(self, eng, st, node, base, index):
        if isinstance(base, Abstract) and base.tag == "frame" and isinstance(index, str):
            return Abstract("col", of=base, name=index)
        return NotImplemented

    def on_call(self, eng, st, node, name, recv, args, kwargs):
        if name == "list" and args and isinstance(args[0], Abstract) and args[0].tag == "col":
            return Abstract("listed", col=args[0])
        if name in ("numpy.asarray", "numpy.array") and args and isinstance(args[0], Abstract) and args[0].tag == "listed":
            return Abstract("arr", col=args[0].col)
        if name == "$call" and recv is self.func:
            self.called = (list(args), dict(kwargs))
            return Abstract("metric_value")
        return NotImplemented

    def post(self, eng, st, status, value):
        if status != "return" or self.called is None:
            return [("the_metric_is_called_and_its_value_returned", BoolVal(False))]
        args, kw = self.called

        def is_col(v, nm):
            return isinstance(v, Abstract) and v.tag == "arr" and v.col.of is self.df and v.col.name == nm
        return [("returns_the_metric_value", BoolVal(isinstance(value, Abstract) and value.tag == "metric_value")),
                ("positional_arguments_are_y_true_y_pred_of_the_given_frame", BoolVal(len(args) == 2 and is_col(args[0], "y_true") and is_col(args[1], "y_pred"))),
                ("keyword_arguments_are_exactly_the_mapped_columns_of_the_same_frame",
                 BoolVal(set(kw) == set(self.mapping) and all(is_col(kw[k], c) for k, c in self.mapping.items())))]


class ConstructAMF(Contract):
    source, function = MF, "MetricFrame._construct_annotated_metric_function"

    def __init__(self, params):
        self.p = list(params)          # list of (param name, is None?)
        self.variant = f"[{','.join(n + ('=None' if none else '') for n, none in params)}]"

    def params(self, eng, st):
        self.name = String("metric_name")
        self.values = {n: (None if none else Abstract("value", name=n)) for n, none in self.p}
        self.frame = Abstract("all_data")
        self.writes = []
        st.env.update({"self": Obj("MetricFrame"), "func": Abstract("metric"), "name": self.name, "sample_params": PyDict(self.values), "all_data": self.frame})

    def on_call(self, eng, st, node, name, recv, args, kwargs):
        if name == "numpy.asarray" and args and isinstance(args[0], Abstract) and args[0].tag == "value":
            return Abstract("asarray", of=args[0])
        if name == "AnnotatedMetricFunction":
            return Abstract("amf", kw=dict(kwargs))
        if name == "str" and is_z3(args[0]):
            return args[0]
        return NotImplemented

    def on_store_subscript(self, eng, st, node, base, index, value):
        if base is self.frame:
            self.writes.append((index, value))
            return True
        return NotImplemented

    def post(self, eng, st, status, value):
        if status != "return" or not (isinstance(value, Abstract) and value.tag == "amf"):
            return [("returns_an_annotated_metric_function", BoolVal(False))]
        kw = value.kw
        mapping = kw.get("kw_argument_mapping")
        given = [n for n, none in self.p if not none]
        out = [("wraps_the_given_function_under_its_name", BoolVal(kw.get("func") is st.env["func"] and kw.get("name") is self.name)),
               ("positional_arguments_y_true_y_pred", BoolVal(isinstance(kw.get("positional_argument_names"), PyList) and kw["positional_argument_names"].items == ["y_true", "y_pred"])),
               ("only_given_parameters_are_mapped", BoolVal(isinstance(mapping, PyDict) and list(mapping.d.keys()) == given)),
               ("one_column_written_per_given_parameter", BoolVal(len(self.writes) == len(given)))]
        if isinstance(mapping, PyDict) and len(self.writes) == len(given):
            for n, (key, val) in zip(given, self.writes):
                want = z3.Concat(self.name, StringVal("_" + n))
                out.append((f"column_of_{n}_is_name_underscore_param", key == want if is_z3(key) else BoolVal(False)))
                out.append((f"column_of_{n}_holds_the_parameter_values", BoolVal(isinstance(val, Abstract) and val.tag == "asarray" and val.of is self.values[n])))
                out.append((f"keyword_{n}_is_mapped_to_its_column", BoolVal(mapping.d.get(n) is key)))
        return out


def column_name_injectivity():
    """-> list of (name, hyps, goal) for the lemma over ConstructAMF's postcondition"""
    n1, p1, n2, p2 = String("name1"), String("param1"), String("name2"), String("param2")
    key = lambda a, b: z3.Concat(a, StringVal("_"), b)
    return [("column_key_injective_in_metric_and_parameter_name", [Or(n1 != n2, p1 != p2)], key(n1, p1) != key(n2, p2)),
            ("column_key_differs_from_y_true_and_y_pred", [], And(key(n1, p1) != StringVal("y_true"), key(n1, p1) != StringVal("y_pred")))]


class ExtractResult(Contract):
    source, function = MF, "MetricFrame._extract_result"

    def __init__(self, callable_, has_control):
        self.callable_, self.has_control = callable_, has_control
        self.variant = f"[callable={callable_},control={has_control}]"

    def params(self, eng, st):
        self.ncl = z3.Bool("no_control_levels")
        self.res = Abstract("result_frame")
        st.env.update({"self": Obj("MetricFrame", {"_user_supplied_callable": self.callable_, "control_levels": PyList(["c"]) if self.has_control else None}),
                       "underlying_result": self.res, "no_control_levels": self.ncl})

    def on_attr(self, eng, st, node, base, attr):
        if base is self.res and attr == "iloc":
            return Abstract("iloc")
        return NotImplemented

    def on_subscript(self, eng, st, node, base, index):
        if isinstance(base, Abstract) and base.tag == "iloc":
            if index == 0:
                return Abstract("first_row")
            if isinstance(index, tuple) and len(index) == 2 and isinstance(index[0], Abstract) and index[0].tag == "slice" and index[1] == 0:
                return Abstract("first_column")
            raise Unsupported("iloc index")
        return NotImplemented

    def post(self, eng, st, status, value):
        if status != "return":
            return [("no_exception", BoolVal(False))]
        tag = getattr(value, "tag", None)
        if not self.callable_:
            return [("dict_of_metrics_is_returned_unchanged", BoolVal(value is self.res))]
        if self.has_control:
            return [("callable_with_control_levels_gives_the_single_column", BoolVal(tag == "first_column"))]
        return [("callable_without_control_gives_column_for_by_group_and_scalar_row_for_overall",
                 z3.If(self.ncl, BoolVal(tag == "first_column"), BoolVal(tag == "first_row")))]


class DerivedCall(Contract):
    source, function = DM, "_DerivedMetric.__call__"

    def __init__(self, transform, extra):
        self.transform, self.extra = transform, list(extra)        # extra: list of keyword names passed by the caller
        self.variant = f"[{transform};{','.join(extra) or '-'}]"

    def params(self, eng, st):
        self.vals = {k: Abstract("kwvalue", name=k) for k in self.extra}
        self.fn = Abstract("metric_fn")
        self.mf = None
        st.env.update({"self": Obj("_DerivedMetric", {"_sample_param_names": PyList(["sample_weight"]), "_metric_fn": self.fn, "_transform": self.transform}),
                       "y_true": Abstract("y_true"), "y_pred": Abstract("y_pred"), "sensitive_features": Abstract("sf"), "other_params": PyDict(self.vals)})
        self.agg = None

    def on_name(self, eng, st, name):
        return NotImplemented

    def on_attr(self, eng, st, node, base, attr):
        if base is self.fn and attr == "__name__":
            return "metric"
        if isinstance(base, Abstract) and base.tag == "partial" and attr == "__name__":
            return "partial"
        return NotImplemented

    def on_store_attr(self, eng, st, node, base, attr, value):
        if isinstance(base, Abstract) and base.tag == "partial" and attr == "__name__":
            return True
        return NotImplemented

    def on_call(self, eng, st, node, name, recv, args, kwargs):
        if name == "functools.partial":
            return Abstract("partial", fn=args[0], bound=dict(kwargs))
        if name == "sorted":
            items = eng._concrete_items(args[0])
            return PyList(sorted(items, key=lambda t: t[0]))
        if name == "str" and isinstance(args[0], (Abstract, PyList)):
            return "v"
        if name == "MetricFrame":
            self.mf = dict(kwargs)
            return Abstract("mf")
        if isinstance(recv, Abstract) and recv.tag == "mf" and name in ("difference", "ratio", "group_min", "group_max"):
            self.agg = (name, dict(kwargs), list(args))
            return Abstract("aggregate", kind=name)
        return NotImplemented

    def post(self, eng, st, status, value):
        valid = self.transform in ("difference", "ratio", "group_min", "group_max")
        if status == "raise":
            return [("raises_only_for_an_unknown_transform", BoolVal(not valid)), ("raises_ValueError", BoolVal(value.typ == "ValueError"))]
        if self.mf is None or self.agg is None:
            return [("builds_a_MetricFrame_and_aggregates_it", BoolVal(False))]
        sp = self.mf.get("sample_params")
        metric = self.mf.get("metrics")
        bound_expected = {k: self.vals[k] for k in self.extra if k not in ("sample_weight", "method")}
        want_sp = {k: self.vals[k] for k in self.extra if k == "sample_weight"}
        want_tp = {k: self.vals[k] for k in self.extra if k == "method"} if self.transform in ("difference", "ratio") else {}
        same = lambda d, e: isinstance(d, dict) and set(d) == set(e) and all(d[k] is e[k] for k in e)
        return [("returns_only_for_a_known_transform", BoolVal(valid)),
                ("data_arguments_forwarded", BoolVal(self.mf.get("y_true") is st.env["y_true"] and self.mf.get("y_pred") is st.env["y_pred"]
                                                     and self.mf.get("sensitive_features") is st.env["sensitive_features"])),
                ("sample_weight_goes_to_sample_params", BoolVal(isinstance(sp, PyDict) and same(sp.d, want_sp))),
                ("other_keywords_are_bound_into_the_metric", BoolVal(isinstance(metric, Abstract) and metric.tag == "partial" and metric.fn is self.fn and same(metric.bound, bound_expected))),
                ("dispatch_on_the_transform", BoolVal(self.agg[0] == self.transform and isinstance(value, Abstract) and value.tag == "aggregate")),
                ("method_goes_to_the_transform_only", BoolVal(same(self.agg[1], want_tp) and not self.agg[2]))]
