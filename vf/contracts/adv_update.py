"""Contracts of the projected-gradient update block of the adversarial engines (C16), label S: all real values, bounded tensor shapes.

Verified text: torch - the `for i, p in enumerate(self.predictor_model.parameters())` loop of PytorchEngine.train_step;
tensorflow - TensorflowEngine.train_step from `dW_LP = tape.gradient(...)` to the end (`del tape` dropped).  The forward/backward passes
(autograd) and the optimiser steps are outside the VC (assumed, A2).  Tensors are matrices of symbolic reals of a concrete shape r x c.

Framework-operation contracts (assumed): norm(T) = nn with nn >= 0 and nn^2 = sum of squares (Frobenius); sum/reduce_sum = sum of all cells;
`*`/multiply element-wise on equal shapes; tensor/scalar, scalar*tensor, tensor-tensor element-wise; torch.inner(U,V) for 2-d operands = matrix of
row inner products; finfo(...).tiny = a constant `tiny` >= 0.

Postcondition (property C16) per predictor tensor W with A = dLA/dW, P = dLP/dW, G = the gradient handed to the optimiser:
   (P - G - alpha*A)[i,j] * (nn + tiny)^2 == <A,P>_F * A[i,j]            (exact, for every tiny > 0)
   and for tiny = 0, A != 0:   <G + alpha*A, A>_F == 0                      (orthogonality; the projection uses the Frobenius product)
tensorflow additionally: the adversary optimiser receives exactly tape.gradient(LA, adversary variables) (plain gradient of its own loss).
"""
import ast

import z3
from z3 import And, BoolVal, Real, RealVal

from ..pyvc.core import Abstract, Contract, Obj, PyList, Unsupported, fresh, is_z3, to_real


def Mat(name, r, c, cells=None):
    cells = cells or [[Real(f"{name}_{i}_{j}") for j in range(c)] for i in range(r)]
    return Abstract("mat", name=name, r=r, c=c, cells=cells)


def is_mat(v):
    return isinstance(v, Abstract) and v.tag == "mat"


def mmap(f, a, name="t"):
    return Mat(name, a.r, a.c, [[f(a.cells[i][j], i, j) for j in range(a.c)] for i in range(a.r)])


def msum(a):
    out = RealVal(0)
    for row in a.cells:
        for x in row:
            out = out + x
    return out


def frob(a, b):
    return msum(mmap(lambda x, i, j: x * b.cells[i][j], a))


class UpdateBlock(Contract):
    prune = False

    def __init__(self, engine, shapes, tiny_zero):
        self.engine, self.shapes, self.tiny_zero = engine, shapes, tiny_zero
        self.source = "fairlearn/adversarial/_pytorch_engine.py" if engine == "torch" else "fairlearn/adversarial/_tensorflow_engine.py"
        self.function = "PytorchEngine.train_step" if engine == "torch" else "TensorflowEngine.train_step"
        self.variant = f"[{'x'.join(str(s) for s in shapes[0])}{'+' + 'x'.join(str(s) for s in shapes[1]) if len(shapes) > 1 else ''},tiny={'0' if tiny_zero else '>0'}]"

    def body(self, fn):
        if self.engine == "torch":
            for s in fn.body:
                if isinstance(s, ast.For) and any(isinstance(t, ast.Attribute) and t.attr == "grad" for x in ast.walk(s) if isinstance(x, ast.Assign) for t in x.targets):
                    return [s]
            raise Unsupported("update loop not found")
        for idx, s in enumerate(fn.body):
            if isinstance(s, ast.Assign) and ast.unparse(s.targets[0]) == "dW_LP":
                return [x for x in fn.body[idx:] if not isinstance(x, ast.Delete)]
        raise Unsupported("start of the update block not found")

    def params(self, eng, st):
        self.alpha, self.tiny = Real("alpha"), Real("tiny")
        st.assume(self.alpha >= 0, self.tiny == 0 if self.tiny_zero else self.tiny > 0)
        self.A = [Mat(f"A{k}", *shp) for k, shp in enumerate(self.shapes)]
        self.P = [Mat(f"P{k}", *shp) for k, shp in enumerate(self.shapes)]
        self.nn = {}
        if self.tiny_zero:
            for a in self.A:
                st.assume(z3.Or(*[x != 0 for row in a.cells for x in row]))      # non-zero adversary gradient
        self.params_ = [Obj("param", {"grad": None, "idx": k}) for k in range(len(self.shapes))]
        base = Obj("base", {"alpha": self.alpha, "pass_y_": False})
        if self.engine == "torch":
            # the engine object may carry values cached when it was built (an earlier alpha): only base.alpha is the estimator's current parameter
            st.env.update({"self": Obj("PytorchEngine", {"base": base, "predictor_model": Abstract("pmodel"), "alpha": Real("alpha_cached_when_the_engine_was_built")}),
                           "dW_LA": PyList(self.A), "dW_LP": PyList(self.P)})
        else:
            st.env.update({"self": Obj("TensorflowEngine", {"base": base, "alpha": Real("alpha_cached_when_the_engine_was_built"),
                                                            "predictor_model": Obj("model", {"trainable_variables": Abstract("pvars")}),
                                                            "adversary_model": Obj("model", {"trainable_variables": Abstract("avars")}),
                                                            "predictor_optimizer": Abstract("popt"), "adversary_optimizer": Abstract("aopt")}),
                           "tape": Abstract("tape"), "LP": Abstract("loss", name="LP"), "LA": Abstract("loss", name="LA")})
        self.applied = {}

    def on_name(self, eng, st, name):
        if name in ("torch", "tensorflow"):          # imported dynamically in the engine's __init__ (`global torch; import torch`)
            return Abstract("module", name=name, alias=name)
        return NotImplemented

    def on_call(self, eng, st, node, name, recv, args, kwargs):
        if name == "parameters" and isinstance(recv, Abstract) and recv.tag == "pmodel":
            return PyList(self.params_)
        if name in ("torch.norm", "tensorflow.norm") and is_mat(args[0]):
            a = args[0]
            nn = fresh("norm", z3.RealSort())
            st.assume(nn >= 0, nn * nn == msum(mmap(lambda x, i, j: x * x, a)))
            self.nn[id(a)] = nn
            return nn
        if name in ("torch.linalg.norm", "torch.linalg.matrix_norm", "tensorflow.linalg.norm") and is_mat(args[0]):
            a = args[0]
            order = args[1] if len(args) > 1 else kwargs.get("ord", kwargs.get("p"))
            fro2 = msum(mmap(lambda x, i, j: x * x, a))
            nn = fresh("norm", z3.RealSort())
            if order in (None, "fro") or (order == 2 and min(a.r, a.c) == 1 and name != "torch.linalg.matrix_norm"):
                st.assume(nn >= 0, nn * nn == fro2)           # Frobenius norm; the 2-norm of a vector / single-row matrix equals it
            elif order == 2:
                # spectral norm of a matrix with several rows and columns: only sigma_max^2 <= ||.||_F^2 <= min(r,c) * sigma_max^2 is assumed
                st.assume(nn >= 0, nn * nn <= fro2, fro2 <= min(a.r, a.c) * nn * nn)
            else:
                raise Unsupported(f"norm of order {order!r}")
            self.nn[id(a)] = nn
            return nn
        if name in ("torch.finfo", "numpy.finfo"):
            eps = Real("machine_epsilon")
            st.assume(eps > 0)
            return Obj("finfo", {"tiny": self.tiny, "eps": eps, "smallest_normal": self.tiny})
        if name in ("torch.sum", "tensorflow.reduce_sum") and is_mat(args[0]):
            return msum(args[0])
        if name == "tensorflow.multiply" and is_mat(args[0]) and is_mat(args[1]):
            return self._elementwise(eng, st, node, args[0], args[1], lambda x, y: x * y)
        if name == "torch.inner" and is_mat(args[0]) and is_mat(args[1]):
            u, v = args
            if u.c != v.c:
                raise Unsupported("inner of different widths")
            return Mat("inner", u.r, v.r, [[sum((u.cells[a][k] * v.cells[b][k] for k in range(u.c)), RealVal(0)) for b in range(v.r)] for a in range(u.r)])
        if name == "gradient" and isinstance(recv, Abstract) and recv.tag == "tape":
            loss, wrt = args
            if loss.name == "LP" and wrt.tag == "pvars":
                return PyList(self.P)
            if loss.name == "LA" and wrt.tag == "pvars":
                return PyList(self.A)
            if loss.name == "LA" and wrt.tag == "avars":
                return Abstract("dU_LA")
            raise Unsupported("tape.gradient of another pair")
        if name in ("numpy", "item") and isinstance(recv, Abstract) and recv.tag == "loss":
            return recv
        if name == "zip":
            return Abstract("zip", items=tuple(args))
        if name == "apply_gradients" and isinstance(recv, Abstract) and recv.tag in ("popt", "aopt"):
            self.applied[recv.tag] = args[0]
            return None
        return NotImplemented

    def _elementwise(self, eng, st, node, a, b, f):
        eng.oblige(st, "elementwise_operands_have_equal_shape", BoolVal((a.r, a.c) == (b.r, b.c)), "shape", node)
        if (a.r, a.c) != (b.r, b.c):
            raise Unsupported("shape mismatch")
        return mmap(lambda x, i, j: f(x, b.cells[i][j]), a)

    def on_binop(self, eng, st, node, op, a, b):
        if is_mat(a) and is_mat(b):
            f = {"Mult": lambda x, y: x * y, "Sub": lambda x, y: x - y, "Add": lambda x, y: x + y}.get(op)
            if f is None:
                raise Unsupported(f"tensor {op} tensor")
            return self._elementwise(eng, st, node, a, b, f)
        if is_mat(a) and not is_mat(b):
            s = to_real(b)
            if op == "Div":
                eng.oblige(st, "no_division_by_zero", s != 0, "arith", node)
                return mmap(lambda x, i, j: x / s, a)
            if op == "Mult":
                return mmap(lambda x, i, j: x * s, a)
            raise Unsupported(f"tensor {op} scalar")
        if is_mat(b) and not is_mat(a) and op == "Mult":
            s = to_real(a)
            return mmap(lambda x, i, j: s * x, b)
        return NotImplemented

    def post(self, eng, st, status, value):
        out = []
        if self.engine == "torch":
            grads = [p.fields.get("grad") for p in self.params_]
        else:
            z = self.applied.get("popt")
            ok = isinstance(z, Abstract) and z.tag == "zip" and len(z.items) == 2 and isinstance(z.items[0], PyList) and \
                isinstance(z.items[1], Abstract) and z.items[1].tag == "pvars"
            out.append(("predictor_optimizer_gets_updated_gradients_with_predictor_variables", BoolVal(ok)))
            za = self.applied.get("aopt")
            oka = isinstance(za, Abstract) and za.tag == "zip" and len(za.items) == 2 and isinstance(za.items[0], Abstract) and \
                za.items[0].tag == "dU_LA" and isinstance(za.items[1], Abstract) and za.items[1].tag == "avars"
            out.append(("adversary_follows_plain_gradient_of_its_own_loss", BoolVal(oka)))
            grads = list(z.items[0].items) if ok else [None] * len(self.shapes)
        for k, (A, P, G) in enumerate(zip(self.A, self.P, grads)):
            if not is_mat(G) or (G.r, G.c) != (A.r, A.c):
                out.append((f"tensor{k}_gradient_has_the_tensor_shape", BoolVal(False)))
                continue
            nn = self.nn.get(id(A))
            if nn is None:
                out.append((f"tensor{k}_uses_the_norm_of_its_own_adversary_gradient", BoolVal(False)))
                continue
            ap = frob(A, P)
            d = (nn + self.tiny) * (nn + self.tiny)
            if self.tiny_zero:
                orth = msum(mmap(lambda g, i, j: (g + self.alpha * A.cells[i][j]) * A.cells[i][j], G))
                out.append((f"tensor{k}_update_plus_alpha_dLA_is_orthogonal_to_dLA", orth == 0))
            else:
                cellwise = And(*[(P.cells[i][j] - G.cells[i][j] - self.alpha * A.cells[i][j]) * d == ap * A.cells[i][j]
                                 for i in range(A.r) for j in range(A.c)])
                out.append((f"tensor{k}_update_is_dLP_minus_projection_minus_alpha_dLA", cellwise))
        return out

    def replay(self, ob, r):
        if self.engine != "torch":
            return None
        try:
            import torch
            from fairlearn.adversarial import _pytorch_engine as pe
        except Exception:
            return None
        import inspect
        import numpy as np
        shp = self.shapes[0]
        rng = np.random.default_rng(0)
        from ..pyvc.core import Source
        s = Source.load(self.source)
        loop = self.body(s.func(self.function))[0]
        code = compile(ast.Module(body=[loop], type_ignores=[]), "<update-loop>", "exec")

        class Pm:
            def __init__(self):
                self.p = [type("Prm", (), {"grad": None})()]

            def parameters(self):
                return self.p
        # run only the update loop of the real source on concrete float32 tensors (the engine's dtype); adversary gradients of ordinary and of
        # small magnitude (a regulariser larger than the smallest normal number switches the projection off for small gradients)
        bad, orth, A, P, scale = False, 0.0, None, None, 1.0
        A0, P0 = rng.normal(size=shp), rng.normal(size=shp)
        for scale in (1.0, 1e-3, 1e-6):
            A = torch.tensor(A0 * scale, dtype=torch.float32)
            P = torch.tensor(P0, dtype=torch.float32)
            me = type("E", (), {})()
            me.predictor_model = Pm()
            me.base = type("B", (), {"alpha": 0.7})()
            env = {"torch": torch, "self": me, "dW_LA": [A], "dW_LP": [P]}
            exec(code, env)
            G = me.predictor_model.p[0].grad
            orth = float(((G.double() + 0.7 * A.double()) * A.double()).sum())
            bad = abs(orth) > 1e-4 * float(P.double().norm()) * float(A.double().norm())
            if bad:
                break
        return {"confirmed": bool(bad), "key": "C16:torch.train_step:frobenius_projection",
                "what": f"torch update block on a {shp} float32 tensor with |dLA| ~ {scale:g}: <g + alpha*dLA, dLA>_F = {orth:.3g} (must be 0 up to rounding)",
                "replay": {"shape": list(shp), "A": A.tolist(), "P": P.tolist(), "alpha": 0.7, "orthogonality_residual": orth}}
