"""Shape / provenance model of numpy and pandas values used by several contracts (assumed dependency contracts, A2).

An array-like value is `Nd(name, shape, kind, prov)`:
  shape : tuple of dims (python ints or z3 Ints); the RANK is concrete (contracts enumerate ranks as variants)
  kind  : 'list' | 'ndarray' | 'series' | 'frame'
  prov  : index provenance  'ERASED' (no labels: list/ndarray/scalar), 'DEFAULT' (pandas object created inside fairlearn from a label-free
          value: RangeIndex), 'USER' (pandas object that still carries the caller's labels)          [DESIGN 3.9]
Each numpy/pandas call that a function under contract makes needs an entry here; a call without one makes the function undecided.
The transfer functions are the *assumed* library contracts, each exercised against the real library by the bounded stand-ins:
  np.asarray / check_array / .values / list() erase labels and keep the shape; squeeze drops unit axes; reshape(1) needs size 1;
  dot((n,),(n,)) is 0-d, dot((n,),()) is (n,); x.sum() is 0-d; a/b broadcasts a 0-d operand; pd.Series(label-free) has a default index;
  check_consistent_length raises ValueError iff first dimensions differ; check_array returns an array with >= 1 row (and >= 1 column when 2-d).
"""
import z3
from z3 import And, BoolVal, If, Int, IntVal, Not, Or

from ..pyvc.core import Abstract, Contract, Exc, PyList, PyRaise, Unsupported, fresh, is_z3, lift


def Nd(name, shape, kind="ndarray", prov="ERASED", **extra):
    return Abstract("nd", name=name, shape=tuple(shape), kind=kind, prov=prov, **extra)


def is_nd(v):
    return isinstance(v, Abstract) and v.tag == "nd"


def to_real_(v):
    from ..pyvc.core import to_real
    return to_real(v)


def _arith(op, x, y):
    x, y = lift(x), lift(y)
    if z3.is_bool(x):
        x = If(x, IntVal(1), IntVal(0))
    if z3.is_bool(y):
        y = If(y, IntVal(1), IntVal(0))
    if op == "Div" or z3.is_real(x) != z3.is_real(y):
        x, y = to_real_(x), to_real_(y)
    return {"Add": lambda: x + y, "Sub": lambda: x - y, "Mult": lambda: x * y, "Div": lambda: x / y}[op]()


GI, GJ = Int("gi"), Int("gj")          # generic indices of point-wise obligations


def in_range(shape, ix):
    return And(*[And(0 <= i, i < lift(d)) for i, d in zip(ix, shape)]) if shape else BoolVal(True)


def _cell_binop(op, a, b, shape):
    ca, cb = getattr(a, "cell", None), getattr(b, "cell", None)
    if ca is None or cb is None:
        return None
    ra, rb = len(a.shape), len(b.shape)

    def cell(*ix):
        xa = ca(*ix[len(ix) - ra:]) if ra else ca()
        xb = cb(*ix[len(ix) - rb:]) if rb else cb()
        return _arith(op, xa, xb)
    return cell


def rebind(st, old, new):
    """in-place mutation of an array value = every name of the state bound to it now sees the updated value (values are shared between
    forked states, so they are never mutated; aliases held inside other containers are not followed - none occur in the verified code)"""
    hit = False
    for k, v in list(st.env.items()):
        if v is old:
            st.env[k] = new
            hit = True
    if not hit:
        raise Unsupported("in-place update of an array that no local name is bound to")


def size_of(shape):
    out = IntVal(1)
    for d in shape:
        out = out * lift(d)
    return z3.simplify(out) if shape else IntVal(1)


def same_dim(a, b):
    if not is_z3(a) and not is_z3(b):
        return a == b
    return lift(a) == lift(b)


class NdContract(Contract):
    """mixin with the numpy/pandas hooks; subclasses call super().on_call(...) etc. for what they do not handle themselves."""

    # ---- helpers
    def _derive(self, v, shape=None, kind=None, prov=None, name=None, **extra):
        d = {k: val for k, val in v.__dict__.items() if k not in ("tag", "name", "shape", "kind", "prov")}
        d.update(extra)
        if shape is not None and "cell" not in extra:
            d["cell"] = None          # indexing changes with the shape; point-wise view is dropped unless re-supplied
        return Nd(name or v.name, v.shape if shape is None else shape, kind or v.kind, prov or v.prov, **d)

    def _squeeze(self, eng, st, v):
        dims, kept = [], []
        for pos, d in enumerate(v.shape):
            unit = same_dim(d, 1)
            if isinstance(unit, bool):
                keep = not unit
            else:
                keep = not eng.decide(unit, st)
            if keep:
                dims.append(d)
                kept.append(pos)
        cell = None
        old = getattr(v, "cell", None)
        if old is not None:
            rank = len(v.shape)

            def cell(*ix, old=old, kept=tuple(kept), rank=rank):
                full = [IntVal(0)] * rank
                for p_, i_ in zip(kept, ix):
                    full[p_] = i_
                return old(*full)
        if v.kind in ("series", "frame") and len(dims) >= 1:
            # pandas squeeze keeps the labels of the remaining axis (a one-column frame becomes a Series with the same row index)
            return self._derive(v, shape=tuple(dims), kind="series" if len(dims) == 1 else v.kind, prov=v.prov, cell=cell)
        return self._derive(v, shape=tuple(dims), kind="ndarray", prov="ERASED", cell=cell)

    # ---- hooks
    def on_call(self, eng, st, node, name, recv, args, kwargs):
        a0 = args[0] if args else None
        if name in ("numpy.asarray", "numpy.array", "numpy.asanyarray") and is_nd(a0):
            return self._derive(a0, kind="ndarray", prov="ERASED")
        if name in ("numpy.squeeze",) and is_nd(a0):
            return self._squeeze(eng, st, a0)
        if name == "squeeze" and is_nd(recv):
            return self._squeeze(eng, st, recv)
        if name == "numpy.atleast_1d" and is_nd(a0) and len(args) == 1:
            return a0 if a0.shape else self._derive(a0, shape=(1,), kind="ndarray", prov="ERASED", cell=(lambda i, c=a0.cell: c()) if getattr(a0, "cell", None) else None)
        if name == "astype" and is_nd(recv) and args:
            # a cast is NOT the identity on the values (astype(int) truncates, astype(bool) collapses): the result is a different array
            tgt = args[0] if isinstance(args[0], str) else getattr(args[0], "name", None) or repr(args[0])
            if tgt in ("float", "float64", "numpy.float64", "np.float64", "builtin float") or (isinstance(args[0], Abstract) and getattr(args[0], "name", "") == "float"):
                return self._derive(recv, name=f"{recv.name}.astype(float)")          # widening to float64 keeps every value (reals, A1)
            return self._derive(recv, name=f"{recv.name}.astype({tgt})", cell=None, cast_of=recv)
        if name == "reshape" and is_nd(recv):
            tgt = args[0] if len(args) == 1 else tuple(args)
            if tgt == -1:
                return self._derive(recv, shape=(size_of(recv.shape),), kind="ndarray", prov="ERASED")
            if tgt == 1 or tgt == (1,):
                eng.oblige(st, "reshape_1_of_a_single_element", size_of(recv.shape) == 1, "shape", node)
                return self._derive(recv, shape=(1,), kind="ndarray", prov="ERASED")
            raise Unsupported(f"reshape({tgt})")
        if name == "numpy.sign" and is_nd(a0) and getattr(a0, "cell", None) is not None:
            c = a0.cell
            return self._derive(a0, name=f"sign({a0.name})", cell=lambda *ix: If(to_real_(c(*ix)) > 0, z3.RealVal(1), If(to_real_(c(*ix)) < 0, z3.RealVal(-1), z3.RealVal(0))))
        if name in ("numpy.abs", "numpy.absolute") and is_nd(a0) and getattr(a0, "cell", None) is not None:
            c = a0.cell
            return self._derive(a0, name=f"abs({a0.name})", cell=lambda *ix: If(to_real_(c(*ix)) >= 0, to_real_(c(*ix)), -to_real_(c(*ix))))
        if name == "numpy.ones" and a0 is not None and not is_nd(a0):
            return Nd("ones", (a0,), "ndarray", "ERASED", all_ones=True)
        if name == "numpy.zeros" and a0 is not None and not is_nd(a0):
            return Nd("zeros", (a0,), "ndarray", "ERASED")
        if name == "numpy.dot" and is_nd(a0) and is_nd(args[1]):
            a, b = a0, args[1]
            ra, rb = len(a.shape), len(b.shape)
            if ra == 1 and rb == 1:
                eng.oblige(st, "dot_operands_have_equal_length", same_dim(a.shape[0], b.shape[0]), "shape", node)
                return Nd(f"dot({a.name},{b.name})", (), "ndarray", "ERASED")
            if rb == 0:
                return Nd(f"dot({a.name},{b.name})", a.shape, "ndarray", "ERASED")
            if ra == 0:
                return Nd(f"dot({a.name},{b.name})", b.shape, "ndarray", "ERASED")
            if ra == 2 and rb == 2:
                eng.oblige(st, "dot_inner_dimensions_agree", same_dim(a.shape[1], b.shape[0]), "shape", node)
                f2 = z3.Function(f"dot<{a.name}|{b.name}>", z3.IntSort(), z3.IntSort(), z3.RealSort())
                return Nd(f"dot({a.name},{b.name})", (a.shape[0], b.shape[1]), "ndarray", "ERASED", dot=(a, b), cell=lambda i, j: f2(i, j))
            raise Unsupported("dot of higher-rank operands")
        if name == "numpy.where" and len(args) == 3 and all(is_nd(x) and getattr(x, "cell", None) is not None for x in args):
            c, x, y = args
            return Nd("where", c.shape, "ndarray", "ERASED", cell=lambda i: z3.If(c.cell(i), x.cell(i), y.cell(i)))
        if name == "dot" and is_nd(recv) and args and is_nd(args[0]):
            return self.on_call(eng, st, node, "numpy.dot", None, [recv, args[0]], {})
        if name == "numpy.atleast_2d" and is_nd(a0) and len(a0.shape) == 2:
            return a0
        if name in ("sum", "mean") and is_nd(recv):
            ax = kwargs.get("axis", args[0] if args else None)
            base = getattr(recv, "base_name", recv.name)
            if ax is None:
                f0 = z3.Function(f"{name}_all<{base}>", z3.RealSort())
                return Nd(f"{name}({recv.name})", (), "ndarray", "ERASED", reduce=(name, None, recv), cell=lambda: f0())
            if ax == 0 and len(recv.shape) == 2:
                f1 = z3.Function(f"{name}_col<{base}>", z3.IntSort(), z3.RealSort())
                return Nd(f"{name}({recv.name},axis=0)", (recv.shape[1],), "ndarray", "ERASED", reduce=(name, 0, recv), cell=lambda j: f1(j))
            raise Unsupported(f"{name}(axis={ax})")
        if name == "len" and is_nd(a0):
            if not a0.shape:
                raise PyRaise(Exc("TypeError", ("len() of unsized object",)))
            return a0.shape[0]
        if name == "sklearn.utils.validation.check_consistent_length" or name.endswith("check_consistent_length"):
            nds = [a for a in args if a is not None]
            if all(is_nd(a) and a.shape for a in nds):
                for a in nds[1:]:
                    same = same_dim(nds[0].shape[0], a.shape[0])
                    ok = same if isinstance(same, bool) else eng.decide(same, st)
                    if not ok:
                        raise PyRaise(Exc("ValueError", ("inconsistent numbers of samples",)))
                return None
        if name.endswith("check_array") and is_nd(a0):
            out = self._derive(a0, kind="ndarray", prov="ERASED")
            st.assume(*[lift(d) >= 1 for d in out.shape])          # ensure_min_samples=1 / ensure_min_features=1 on normal return
            if kwargs.get("ensure_2d", True) and len(out.shape) != 2:
                raise PyRaise(Exc("ValueError", ("Expected 2D array",)))
            return out
        if name == "pandas.Series" and not args and "data" not in kwargs:
            return Nd("empty_series", (0,), "series", "DEFAULT")
        if name in ("pandas.Series",) and is_nd(a0):
            shp = a0.shape if len(a0.shape) == 1 else (size_of(a0.shape),)
            if len(a0.shape) > 1:
                raise PyRaise(Exc("ValueError", ("Data must be 1-dimensional",)))
            prov = "DEFAULT" if a0.prov in ("ERASED", "DEFAULT") and kwargs.get("index") is None else "USER"
            return self._derive(a0, shape=shp, kind="series", prov=prov)
        if name in ("pandas.DataFrame",) and is_nd(a0):
            prov = "DEFAULT" if a0.prov in ("ERASED", "DEFAULT") and "index" not in kwargs and "columns" not in kwargs else "USER"
            return self._derive(a0, kind="frame", prov=prov)
        if name == "numpy.unique" and is_nd(a0):
            return Abstract("unique", of=a0)
        if name in ("set", "frozenset") and isinstance(a0, Abstract) and a0.tag == "unique":
            return Abstract("valueset", of=a0.of)
        if name in ("issubset",) and isinstance(recv, Abstract) and recv.tag == "valueset":
            items = eng._concrete_items(args[0])
            if items is not None and sorted(items) == [0, 1]:
                return z3.Bool(f"all_values_binary({recv.of.name})")
            raise Unsupported("issubset of another set")
        if name == "str" and is_nd(a0):
            return z3.String(f"str({a0.name})")
        if name == "isinstance" and is_nd(a0):
            want = args[1]
            table = {"numpy.ndarray": a0.kind == "ndarray", "np.ndarray": a0.kind == "ndarray", "pd.DataFrame": a0.kind == "frame",
                     "pandas.DataFrame": a0.kind == "frame", "pd.Series": a0.kind == "series", "pandas.Series": a0.kind == "series",
                     "list": a0.kind == "list"}
            if all(w in table for w in want):
                return any(table[w] for w in want)
            raise Unsupported(f"isinstance(nd, {want})")
        return NotImplemented

    def on_attr(self, eng, st, node, base, attr):
        if is_nd(base):
            if attr == "shape":
                return tuple(base.shape)
            if attr == "ndim":
                return len(base.shape)
            if attr == "size":
                return size_of(base.shape)
            if attr == "values" and base.kind in ("series", "frame"):
                return self._derive(base, kind="ndarray", prov="ERASED")
            if attr == "T" and len(base.shape) <= 1:
                return base
            if attr == "T" and len(base.shape) == 2:
                return self._derive(base, shape=(base.shape[1], base.shape[0]))
        return NotImplemented

    def on_subscript(self, eng, st, node, base, index):
        if is_nd(base) and len(base.shape) == 2 and isinstance(index, tuple) and len(index) == 2 and isinstance(index[0], Abstract) \
                and index[0].tag == "slice" and index[0].lo is None and index[0].hi is None and isinstance(index[1], int):
            c, col = getattr(base, "cell", None), index[1]
            return Nd(f"{base.name}[:,{col}]", (base.shape[0],), "ndarray", "ERASED", cell=(lambda i: c(i, IntVal(col))) if c else None)
        if is_nd(base) and len(base.shape) == 1 and getattr(base, "cell", None) is not None:
            if isinstance(index, Abstract) and index.tag == "slice" and index.hi is None and index.step is None and isinstance(index.lo, int) and index.lo >= 0:
                k0 = index.lo
                return Nd(f"{base.name}[{k0}:]", (z3.If(lift(base.shape[0]) >= k0, lift(base.shape[0]) - k0, 0),), "ndarray", "ERASED",
                          cell=lambda i, c=base.cell: c(i + k0), view_of=(base, k0))
            if is_nd(index) and len(index.shape) == 1 and getattr(index, "cell", None) is not None:
                eng.oblige(st, "index_array_in_bounds_pointwise",
                           z3.Implies(in_range(index.shape, (GI,)), And(0 <= index.cell(GI), index.cell(GI) < lift(base.shape[0]))), "bounds", node)
                return Nd(f"{base.name}[{index.name}]", index.shape, "ndarray", "ERASED", cell=lambda i, c=base.cell, d=index.cell: c(d(i)), take=(base, index))
        return NotImplemented

    def on_store_subscript(self, eng, st, node, base, index, value):
        if is_nd(base) and len(base.shape) == 1 and getattr(base, "cell", None) is not None and isinstance(index, Abstract) and index.tag == "slice" \
                and index.hi is None and index.step is None and isinstance(index.lo, int) and is_nd(value) and getattr(value, "cell", None) is not None:
            k0, old, new = index.lo, base.cell, value.cell
            rebind(st, base, self._derive(base, cell=lambda i: z3.If(i >= k0, new(i - k0), old(i))))      # in-place slice assignment
            return True
        return NotImplemented

    def on_compare(self, eng, st, node, op, a, b):
        if is_nd(a) and is_nd(b) and op in ("Eq", "NotEq", "Lt", "LtE", "Gt", "GtE") and getattr(a, "cell", None) and getattr(b, "cell", None) \
                and len(a.shape) == len(b.shape) == 1:
            f = {"Eq": lambda x, y: x == y, "NotEq": lambda x, y: x != y, "Lt": lambda x, y: x < y, "LtE": lambda x, y: x <= y,
                 "Gt": lambda x, y: x > y, "GtE": lambda x, y: x >= y}[op]
            return Nd(f"({a.name}{op}{b.name})", a.shape, "ndarray", "ERASED", cell=lambda i: f(a.cell(i), b.cell(i)))
        if is_nd(a) and not is_nd(b) and not isinstance(b, Abstract) and op in ("Eq", "NotEq", "Gt", "Lt", "GtE", "LtE") and not (b is None):
            ca = getattr(a, "cell", None)
            cell = None
            if ca is not None:
                f = {"Eq": lambda x, y: x == y, "NotEq": lambda x, y: x != y, "Lt": lambda x, y: x < y, "LtE": lambda x, y: x <= y,
                     "Gt": lambda x, y: x > y, "GtE": lambda x, y: x >= y}[op]

                def cell(*ix):
                    x, y = lift(ca(*ix)), lift(b)
                    if z3.is_real(x) != z3.is_real(y):
                        x, y = to_real_(x), to_real_(y)
                    return f(x, y)
            return self._derive(a, name=f"({a.name}{op}scalar)", kind="ndarray", prov="ERASED", cell=cell)
        return NotImplemented

    def on_binop(self, eng, st, node, op, a, b):
        if op in ("Add", "Sub", "Mult", "Div") and (is_nd(a) or is_nd(b)):
            if is_nd(a) and is_nd(b):
                if a.prov == "USER" or b.prov == "USER":
                    eng.oblige(st, "no_label_alignment_of_caller_indices", BoolVal(a.kind not in ("series", "frame") and b.kind not in ("series", "frame")), "provenance", node)
                if len(a.shape) == 0:
                    shape = b.shape
                elif len(b.shape) == 0:
                    shape = a.shape
                elif len(a.shape) == len(b.shape):
                    for x, y in zip(a.shape, b.shape):
                        eng.oblige(st, "broadcast_equal_dims", Or(same_dim(x, y) if is_z3(same_dim(x, y)) else BoolVal(same_dim(x, y)),
                                                                  lift(x) == 1, lift(y) == 1), "shape", node)
                    shape = a.shape
                elif len(a.shape) == 1 and len(b.shape) == 2 and b.shape[1] == 1 and a.cell and b.cell:
                    # numpy broadcasting of a vector (m,) with a column (r,1): an (r, m) matrix, NOT an element-wise product of two vectors
                    return Nd(f"({a.name}{op}{b.name})", (b.shape[0], a.shape[0]), "ndarray", "ERASED", binop=(op, a, b),
                              cell=lambda i, j: _arith(op, a.cell(j), b.cell(i, IntVal(0))))
                elif len(a.shape) == 2 and len(b.shape) == 1 and a.shape[1] == 1 and a.cell and b.cell:
                    return Nd(f"({a.name}{op}{b.name})", (a.shape[0], b.shape[0]), "ndarray", "ERASED", binop=(op, a, b),
                              cell=lambda i, j: _arith(op, a.cell(i, IntVal(0)), b.cell(j)))
                elif len(a.shape) == 2 and len(b.shape) == 1:
                    eng.oblige(st, "broadcast_row_vector", same_dim(a.shape[1], b.shape[0]), "shape", node)
                    shape = a.shape
                else:
                    raise Unsupported("broadcast of these ranks")
                cell = _cell_binop(op, a, b, shape)
                if op == "Div" and getattr(b, "cell", None) is not None and getattr(self, "check_pointwise_division", True):
                    ix = (GI, GJ)[:len(b.shape)]
                    eng.oblige(st, "no_division_by_zero_pointwise", z3.Implies(in_range(b.shape, ix), to_real_(b.cell(*ix)) != 0), "arith", node)
                pandas_kinds = [x.kind for x in (a, b) if x.kind in ("series", "frame")]
                kind = pandas_kinds[0] if pandas_kinds else "ndarray"
                prov = "ERASED" if not pandas_kinds else ("USER" if "USER" in (a.prov, b.prov) else "DEFAULT")
                return Nd(f"({a.name}{op}{b.name})", shape, kind, prov, binop=(op, a, b), cell=cell)
            v = a if is_nd(a) else b
            other = b if is_nd(a) else a
            vc = getattr(v, "cell", None)
            cell = None
            if op == "Div" and is_nd(a) and not isinstance(other, Abstract):
                eng.oblige(st, "no_division_by_zero", to_real_(other) != 0, "arith", node)
            if vc is not None and not isinstance(other, Abstract):
                o = other
                cell = (lambda *ix: _arith(op, vc(*ix), o)) if is_nd(a) else (lambda *ix: _arith(op, o, vc(*ix)))
            return self._derive(v, name=f"({v.name}{op}scalar)", kind="ndarray", prov="ERASED", cell=cell)
        return NotImplemented

    def on_truth(self, eng, st, v):
        return NotImplemented
