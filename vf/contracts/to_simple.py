"""Contract of ThresholdOptimizer._threshold_optimization_for_simple_constraints (C04 equalisation, C05 argmax), any number M of groups.

Callee contracts used (each proved separately from the real source): _tradeoff_curve = hull of the threshold rules of the group;
_interpolate_curve(hull, 'x','y','operation', grid): row i has x = grid[i], y = YC(k,i), p0/p1/operation0/operation1 the two-vertex mixture at grid[i].
Ghost: the dictionaries _tradeoff_curve and interpolation_dict are maps from the group value GV(k) (distinct) to the group number k.

Postcondition:
  (C04) one grid index i_best is used for every group: interpolation_dict[GV(k)] = (p0,op0,p1,op1) of row i_best of group k's own curve, so every group's
        expected constrained metric is grid[i_best] (by the contract of _interpolate_curve: x column = grid);
  (C05) i_best is the first maximiser over the grid of  sum_k (len(group_k)/n) * y_k(i)  (the group-frequency-weighted objective);
  each group's curve is built with the caller's flip / x_metric_ / y_metric_ and the shared grid linspace(0, 1, grid_size + 1).
"""
import ast

import z3
from z3 import And, BoolVal, ForAll, Function, If, Implies, Int, IntSort, IntVal, K as ConstArray, Not, RealSort, Select, Store

from ..pyvc.core import Abstract, IterSpec, LoopSpec, Obj, PyDict, Unsupported, fresh, is_z3, to_real
from .ndmodel import GI, Nd, NdContract, in_range, is_nd

TO = "fairlearn/postprocessing/_threshold_optimizer.py"
M, G, n = Int("n_groups"), Int("n_grid"), Int("n_rows")
GV = Function("group_value", IntSort(), IntSort())
LEN = Function("group_size", IntSort(), IntSort())
YC = Function("curve_y", IntSort(), IntSort(), RealSort())
SUMY = Function("weighted_sum_of_curves", IntSort(), IntSort(), RealSort())      # (number of groups added, grid index)
k_, k2_, i_ = Int("k"), Int("k2"), Int("i")
FIELDS = ("p0", "operation0", "p1", "operation1")
ROW = {f: Function(f"curve_{f}", IntSort(), IntSort(), RealSort() if f.startswith("p") else IntSort()) for f in FIELDS}


def weight(k):
    return z3.ToReal(LEN(k)) / z3.ToReal(n)


class SimpleConstraints(NdContract):
    source, function = TO, "ThresholdOptimizer._threshold_optimization_for_simple_constraints"
    prune = False
    check_pointwise_division = False

    def droppable(self, s):
        return isinstance(s, ast.Expr) and isinstance(s.value, ast.Call) and ast.unparse(s.value.func).startswith("logger.")

    def params(self, eng, st):
        self.gs = Int("grid_size")
        st.assume(M >= 1, n >= 1, self.gs >= 1, G == self.gs + 1,
                  ForAll([k_, k2_], Implies(And(0 <= k_, k_ < k2_, k2_ < M), GV(k_) != GV(k2_)), patterns=[z3.MultiPattern(GV(k_), GV(k2_))]),
                  ForAll([i_], SUMY(0, i_) == 0, patterns=[SUMY(0, i_)]))
        self.sf, self.labels, self.scores = Abstract("sf"), Abstract("labels"), Abstract("scores")
        self.flip, self.xm, self.ym, self.est = Abstract("flip"), Abstract("x_metric_"), Abstract("y_metric_"), Abstract("estimator_")
        st.env.update({"self": Obj("ThresholdOptimizer", {"grid_size": self.gs, "flip": self.flip, "x_metric_": self.xm, "y_metric_": self.ym,
                                                          "estimator_": self.est, "_predict_method": Abstract("pm"),
                                                          # state of an earlier fit (possibly with another grid_size): must be rebuilt, not reused
                                                          "_x_grid": Nd("x_grid_of_an_earlier_fit", (Int("earlier_grid_points"),), "ndarray", "ERASED",
                                                                        cell=lambda i: Function("earlier_x_grid", IntSort(), RealSort())(i)),
                                                          "_tradeoff_curve": Abstract("curves_of_an_earlier_fit")}),
                       "sensitive_features": self.sf, "labels": self.labels, "scores": self.scores})
        st.ghost.update({"curve_of": ConstArray(IntSort(), IntVal(-1)), "entry_of": ConstArray(IntSort(), IntVal(-1)), "entry_row": ConstArray(IntSort(), IntVal(-1))})

    # ------------------------------------------------------------------ value model
    def on_call(self, eng, st, node, name, recv, args, kwargs):
        if name == "len" and args[0] is self.labels:
            return n
        if name == "len" and isinstance(args[0], Abstract) and args[0].tag == "group":
            return LEN(args[0].k)
        if name == "numpy.linspace":
            ok = len(args) == 3 and args[0] == 0 and args[1] == 1 and is_z3(args[2]) and z3.simplify(args[2] - (self.gs + 1)).eq(IntVal(0))
            eng.oblige(st, "grid_is_linspace_0_1_with_grid_size_plus_one_points", BoolVal(bool(ok)), "wiring", node)
            XG = Function("x_grid", IntSort(), RealSort())
            return Nd("x_grid", (G,), "ndarray", "ERASED", cell=lambda i: XG(i), is_grid=True)
        if name == "_reformat_and_group_data":
            eng.oblige(st, "groups_of_the_given_rows", BoolVal(len(args) == 3 and args[0] is self.sf and args[1] is self.labels and args[2] is self.scores), "wiring", node)
            return Abstract("grouped")
        if name == "_tradeoff_curve":
            g = args[0] if args else None
            ok = isinstance(g, Abstract) and g.tag == "group" and kwargs.get("flip") is self.flip and kwargs.get("x_metric") is self.xm and kwargs.get("y_metric") is self.ym
            eng.oblige(st, "hull_of_the_group_with_the_callers_flip_and_metrics", BoolVal(bool(ok)), "wiring", node)
            if not ok:
                raise Unsupported("_tradeoff_curve arguments")
            return Abstract("hull", k=g.k)
        if name == "_interpolate_curve":
            ok = len(args) == 5 and isinstance(args[0], Abstract) and args[0].tag == "hull" and args[1:4] == ["x", "y", "operation"] and is_nd(args[4]) and getattr(args[4], "is_grid", False)
            eng.oblige(st, "curve_is_the_hull_interpolated_at_the_shared_grid", BoolVal(bool(ok)), "wiring", node)
            if not ok:
                raise Unsupported("_interpolate_curve arguments")
            return Abstract("curve", k=args[0].k)
        if name == "pandas.DataFrame":
            return Abstract("frame")
        if name == "idxmax" and is_nd(recv) and recv.cell:
            ib, j = fresh("i_best"), Int("jx")
            c = recv.cell
            st.assume(0 <= ib, ib < G, ForAll([j], Implies(And(0 <= j, j < G), c(j) <= c(ib))), ForAll([j], Implies(And(0 <= j, j < ib), c(j) < c(ib))))
            return ib
        if name == "keys" and isinstance(recv, Abstract) and recv.tag == "curvemap":
            return Abstract("curvemap_keys")
        if name in ("Bunch", "sklearn.utils.Bunch"):
            return Abstract("bunch", fields=dict(kwargs))
        if name == "InterpolatedThresholder":
            return Abstract("IT", args=list(args), kw=dict(kwargs))
        if name == "fit" and isinstance(recv, Abstract) and recv.tag == "IT":
            return recv
        return super().on_call(eng, st, node, name, recv, args, kwargs)

    def on_iter(self, eng, st, node, it):
        if isinstance(it, Abstract) and it.tag == "grouped":
            return IterSpec(M, lambda kk: (GV(kk), Abstract("group", k=kk)))
        if isinstance(it, Abstract) and it.tag == "curvemap_keys":
            return IterSpec(M, lambda kk: GV(kk))          # dict keys in insertion order: the groups in the order they were added
        return NotImplemented

    def on_attr(self, eng, st, node, base, attr):
        if isinstance(base, Abstract) and base.tag == "curve" and attr == "iloc":
            return Abstract("curve_iloc", k=base.k)
        if isinstance(base, Abstract) and base.tag == "curve_row" and attr in ROW:
            return ROW[attr](base.k, base.i)
        return super().on_attr(eng, st, node, base, attr)

    def on_subscript(self, eng, st, node, base, index):
        if isinstance(base, Abstract) and base.tag == "curvemap" and is_z3(index):
            return Abstract("curve", k=Select(st.ghost["curve_of"], index))
        if isinstance(base, Abstract) and base.tag == "curve" and index == "y":
            return Nd("curve[y]", (G,), "series", "DEFAULT", cell=lambda i, kk=base.k: YC(kk, i))
        if isinstance(base, Abstract) and base.tag == "curve_iloc" and is_z3(index):
            return Abstract("curve_row", k=base.k, i=index)
        if is_nd(base) and getattr(base, "is_grid", False) and is_z3(index) and not is_nd(index):
            return base.cell(index)
        if is_nd(base) and is_z3(index) and not is_nd(index) and base.cell:
            return base.cell(index)
        return super().on_subscript(eng, st, node, base, index)

    def on_store_subscript(self, eng, st, node, base, index, value):
        if isinstance(base, Abstract) and base.tag == "curvemap":
            if not (isinstance(value, Abstract) and value.tag == "curve"):
                raise Unsupported("curve map value")
            st.ghost["curve_of"] = Store(st.ghost["curve_of"], index, value.k)
            return True
        if isinstance(base, Abstract) and base.tag == "idict":
            f = getattr(value, "fields", None)
            rows = None
            if isinstance(value, Abstract) and value.tag == "bunch" and set(f) == set(FIELDS):
                # all four fields must be the same-named fields of ONE row (group k, grid index i) of a curve
                cands = [(f[x].arg(0), f[x].arg(1)) for x in FIELDS if is_z3(f[x]) and f[x].num_args() == 2 and f[x].decl().eq(ROW[x])]
                if len(cands) == 4 and all(c[0].eq(cands[0][0]) and c[1].eq(cands[0][1]) for c in cands):
                    rows = cands[0]
            eng.oblige(st, "entry_holds_p0_op0_p1_op1_of_one_curve_row", BoolVal(rows is not None), "wiring", node)
            if rows is None:
                raise Unsupported("interpolation_dict entry")
            st.ghost["entry_of"] = Store(st.ghost["entry_of"], index, rows[0])
            st.ghost["entry_row"] = Store(st.ghost["entry_row"], index, rows[1])
            return True
        return super().on_store_subscript(eng, st, node, base, index, value)

    def on_store_attr(self, eng, st, node, base, attr, value):
        if isinstance(base, Obj) and attr == "_tradeoff_curve" and isinstance(value, PyDict) and not value.d:
            base.fields[attr] = Abstract("curvemap")
            return True
        return NotImplemented

    def havoc_abstract(self, eng, st, name, v):
        if is_nd(v) and name == "overall_tradeoff_curve":
            f = Function("overall_at_loop_head", IntSort(), RealSort())
            return Nd("overall_tradeoff_curve", v.shape, v.kind, v.prov, cell=lambda i: f(i))
        return v

    # ------------------------------------------------------------------ loops
    @staticmethod
    def _ghost_havoc0(st):
        st.ghost["curve_of"] = fresh("curve_of", z3.ArraySort(IntSort(), IntSort()))

    @staticmethod
    def _ghost_havoc1(st):
        st.ghost["entry_of"] = fresh("entry_of", z3.ArraySort(IntSort(), IntSort()))
        st.ghost["entry_row"] = fresh("entry_row", z3.ArraySort(IntSort(), IntSort()))

    def inv0(self, st):
        k = st.env["$k0"]
        ov = st.env["overall_tradeoff_curve"]
        if not (is_nd(ov) and ov.cell):
            raise Unsupported("overall_tradeoff_curve lost its point-wise view")
        return [("k_range", And(0 <= k, k <= M)),
                ("overall_is_the_frequency_weighted_sum_of_the_groups_added_so_far",
                 ForAll([i_], Implies(And(0 <= i_, i_ < G), to_real(ov.cell(i_)) == SUMY(k, i_)), patterns=[SUMY(k, i_)])),
                ("curve_of_group_j_is_registered_under_its_value", ForAll([k_], Implies(And(0 <= k_, k_ < k), Select(st.ghost["curve_of"], GV(k_)) == k_), patterns=[GV(k_)]))]

    def inv1(self, st):
        k = st.env["$k1"]
        ib = st.env["i_best"]
        return [("k_range", And(0 <= k, k <= M)),
                ("curves_still_registered", ForAll([k_], Implies(And(0 <= k_, k_ < M), Select(st.ghost["curve_of"], GV(k_)) == k_), patterns=[GV(k_)])),
                ("entries_so_far_are_row_i_best_of_their_own_curve",
                 ForAll([k_], Implies(And(0 <= k_, k_ < k), And(Select(st.ghost["entry_of"], GV(k_)) == k_, Select(st.ghost["entry_row"], GV(k_)) == ib)), patterns=[GV(k_)]))]

    def _prep1(self, st):
        if isinstance(st.env.get("interpolation_dict"), PyDict) and not st.env["interpolation_dict"].d:
            st.env["interpolation_dict"] = Abstract("idict")

    def loops(self):
        return {0: LoopSpec(self.inv0, ghost_havoc=self._ghost_havoc0), 1: LoopSpec(self.inv1, prepare=self._prep1, ghost_havoc=self._ghost_havoc1)}

    def axioms(self):
        from ..pyvc.verify import Lemma
        return [Lemma("weighted_sum_of_curves.def.succ", ForAll([k_, i_], SUMY(k_ + 1, i_) == SUMY(k_, i_) + weight(k_) * YC(k_, i_), patterns=[SUMY(k_ + 1, i_)]))]

    # ------------------------------------------------------------------ post
    def post(self, eng, st, status, value):
        if status != "return" or not (isinstance(value, Abstract) and value.tag == "IT"):
            return [("returns_a_fitted_interpolated_thresholder", BoolVal(False))]
        ib = st.env.get("i_best")
        if not is_z3(ib):
            return [("i_best_is_computed", BoolVal(False))]
        j = Int("jp")
        a = value.args
        return [("thresholder_gets_the_estimator_and_the_dictionary", BoolVal(len(a) >= 2 and a[0] is self.est and isinstance(a[1], Abstract) and a[1].tag == "idict" and value.kw.get("prefit") is True)),
                ("fitted_rule_scores_rows_with_the_predict_method_used_for_the_thresholds", BoolVal(value.kw.get("predict_method") is st.env["self"].fields["_predict_method"])),
                ("i_best_in_grid", And(0 <= ib, ib < G)),
                ("i_best_maximises_the_frequency_weighted_objective", ForAll([j], Implies(And(0 <= j, j < G), SUMY(M, j) <= SUMY(M, ib)))),
                ("i_best_is_the_first_maximiser", ForAll([j], Implies(And(0 <= j, j < ib), SUMY(M, j) < SUMY(M, ib)))),
                ("every_group_gets_row_i_best_of_its_own_curve",
                 ForAll([k_], Implies(And(0 <= k_, k_ < M), And(Select(st.ghost["entry_of"], GV(k_)) == k_, Select(st.ghost["entry_row"], GV(k_)) == ib))))]
