"""Contract of the gradient flow of PytorchEngine.train_step (C16): which gradient every optimiser steps on.

The whole method body is executed; tensors are opaque, only the autograd bookkeeping is modelled (assumed torch contract): a parameter's `.grad`
buffer ACCUMULATES - `optimizer.zero_grad()` empties the buffers of that optimiser's parameters, `loss.backward()` adds d loss/d p to the buffer of
every parameter the loss depends on (LP: predictor only; LA: adversary and, through the predictor's output, predictor).  On entry both buffers hold
whatever the previous step left ("stale").  The arithmetic of the update loop is proved separately (UpdateBlock); here its result is the opaque
content "projected" written to `p.grad`.

Postcondition: dW_LP is a copy of exactly dLP/dW and dW_LA of exactly dLA/dW (no leftovers, taken from the predictor's parameters); the predictor
optimiser steps on what the update loop wrote; the adversary optimiser steps on exactly the plain gradient dLA/dU of its own loss of THIS step; LP is the
predictor loss of the predictor's output on X against Y; LA the adversary loss of the adversary's output on that predictor output (concatenated
with Y iff the constraint passes y: equalized odds) against A; both networks are in training mode.
"""
from z3 import BoolVal

from ..pyvc.core import Abstract, Contract, Obj, PyList


def T(tag, **kw):
    return Abstract(tag, **kw)


class TorchGradFlow(Contract):
    source, function = "fairlearn/adversarial/_pytorch_engine.py", "PytorchEngine.train_step"

    def __init__(self, pass_y):
        self.pass_y = pass_y
        self.variant = f"[pass_y_={pass_y}]"

    def params(self, eng, st):
        self.X, self.Y, self.A = T("data", name="X"), T("data", name="Y"), T("data", name="A")
        fields = {k: T(k) for k in ("predictor_model", "adversary_model", "predictor_optimizer", "adversary_optimizer", "predictor_loss", "adversary_loss")}
        fields["base"] = Obj("base", {"pass_y_": self.pass_y, "alpha": T("alpha")})
        st.env.update({"self": Obj("PytorchEngine", fields), "X": self.X, "Y": self.Y, "A": self.A})
        st.ghost.update({"pgrad": ("stale",), "agrad": ("stale",), "mode": (), "pstep": None, "astep": None})

    def on_name(self, eng, st, name):
        if name == "torch":
            return Abstract("module", name="torch", alias="torch")
        return NotImplemented

    def on_call(self, eng, st, node, name, recv, args, kwargs):
        tag = recv.tag if isinstance(recv, Abstract) else None
        if name == "train" and tag in ("predictor_model", "adversary_model"):
            st.ghost["mode"] = st.ghost["mode"] + (tag,)
            return None
        if name == "zero_grad" and tag in ("predictor_optimizer", "adversary_optimizer"):
            st.ghost["pgrad" if tag == "predictor_optimizer" else "agrad"] = ()
            return None
        if name == "step" and tag in ("predictor_optimizer", "adversary_optimizer"):
            st.ghost["pstep" if tag == "predictor_optimizer" else "astep"] = st.ghost["pgrad" if tag == "predictor_optimizer" else "agrad"]
            return None
        if name == "$call" and tag == "predictor_model":
            return T("predictor_output", of=args[0] if len(args) == 1 else None)
        if name == "$call" and tag == "adversary_model":
            return T("adversary_output", of=args[0] if len(args) == 1 else None)
        if name == "$call" and tag in ("predictor_loss", "adversary_loss"):
            return T("loss", name="LP" if tag == "predictor_loss" else "LA", args=tuple(args))
        if name == "torch.cat":
            parts = eng._concrete_items(args[0])
            return T("cat", parts=tuple(parts) if parts is not None else None, dim=kwargs.get("dim", args[1] if len(args) > 1 else 0))
        if name == "backward" and tag == "loss":
            if recv.name == "LP":
                st.ghost["pgrad"] = st.ghost["pgrad"] + ("dLP",)
            else:
                st.ghost["pgrad"] = st.ghost["pgrad"] + ("dLA",)
                st.ghost["agrad"] = st.ghost["agrad"] + ("dLA",)
            return None
        if name == "parameters" and tag == "predictor_model":
            return PyList([Obj("predictor_parameter", {})])
        if name == "parameters" and tag == "adversary_model":
            return PyList([Obj("adversary_parameter", {})])
        if name == "detach" and tag == "snapshot":
            return recv
        if name == "torch.clone" and isinstance(args[0], Abstract) and args[0].tag == "snapshot":
            return T("snapshot", contents=args[0].contents, of=args[0].of, cloned=True)
        if name == "item" and tag == "loss":
            return T("loss_value", name=recv.name)
        if name.startswith("torch."):
            return T("tensor")
        return NotImplemented

    def on_attr(self, eng, st, node, base, attr):
        if isinstance(base, Obj) and base.cls in ("predictor_parameter", "adversary_parameter") and attr == "grad":
            return T("snapshot", contents=st.ghost["pgrad" if base.cls == "predictor_parameter" else "agrad"], of=base.cls, cloned=False)
        if isinstance(base, Abstract) and base.tag in ("snapshot", "tensor") and attr in ("dtype", "tiny", "eps"):
            return T("tensor")
        return NotImplemented

    def on_store_attr(self, eng, st, node, base, attr, value):
        if isinstance(base, Obj) and base.cls == "predictor_parameter" and attr == "grad":
            st.ghost["pgrad"] = ("projected",)
            return True
        return NotImplemented

    def on_binop(self, eng, st, node, op, a, b):
        if any(isinstance(v, Abstract) and v.tag in ("snapshot", "tensor", "alpha") for v in (a, b)):
            return T("tensor")
        return NotImplemented

    def post(self, eng, st, status, value):
        if status != "return":
            return [("returns_normally", BoolVal(False))]
        g = st.ghost

        def snaps(nm, want):
            v = st.env.get(nm)
            return isinstance(v, PyList) and len(v.items) == 1 and all(
                isinstance(x, Abstract) and x.tag == "snapshot" and x.cloned and x.of == "predictor_parameter" and x.contents == want for x in v.items)
        lp = value[0] if isinstance(value, tuple) and len(value) == 2 else None
        la = value[1] if isinstance(value, tuple) and len(value) == 2 else None
        LP, LA = st.env.get("LP"), st.env.get("LA")
        lp_ok = isinstance(LP, Abstract) and LP.tag == "loss" and LP.name == "LP" and len(LP.args) == 2 and LP.args[1] is self.Y \
            and isinstance(LP.args[0], Abstract) and LP.args[0].tag == "predictor_output" and LP.args[0].of is self.X
        la_ok = False
        if isinstance(LA, Abstract) and LA.tag == "loss" and LA.name == "LA" and len(LA.args) == 2 and LA.args[1] is self.A \
                and isinstance(LA.args[0], Abstract) and LA.args[0].tag == "adversary_output" and lp_ok:
            seen = LA.args[0].of
            yhat = LP.args[0]
            if self.pass_y:
                la_ok = isinstance(seen, Abstract) and seen.tag == "cat" and seen.parts is not None and len(seen.parts) == 2 \
                    and seen.parts[0] is yhat and seen.parts[1] is self.Y and seen.dim == 1
            else:
                la_ok = seen is yhat
        return [("returns_the_two_loss_values", BoolVal(isinstance(lp, Abstract) and lp.tag == "loss_value" and lp.name == "LP"
                                                        and isinstance(la, Abstract) and la.tag == "loss_value" and la.name == "LA")),
                ("both_networks_in_training_mode", BoolVal(set(g["mode"]) == {"predictor_model", "adversary_model"})),
                ("LP_is_the_predictor_loss_of_the_predictor_output_on_X_against_Y", BoolVal(bool(lp_ok))),
                ("LA_is_the_adversary_loss_on_the_predictor_output_with_y_iff_the_constraint_passes_y_against_A", BoolVal(bool(la_ok))),
                ("dW_LP_is_a_copy_of_exactly_dLP_dW", BoolVal(snaps("dW_LP", ("dLP",)))),
                ("dW_LA_is_a_copy_of_exactly_dLA_dW", BoolVal(snaps("dW_LA", ("dLA",)))),
                ("predictor_optimiser_steps_on_the_projected_gradient", BoolVal(g["pstep"] == ("projected",))),
                ("adversary_follows_the_plain_gradient_of_its_own_loss_of_this_step", BoolVal(g["astep"] == ("dLA",)))]


class Evaluate(Contract):
    """BackendEngine.evaluate of both engines (C19: prediction does not alter fitted state and repeats its answer; C17: predict = f(raw output)).
    `fit` leaves the networks in TRAINING mode; a forward pass in training mode makes Dropout random and lets BatchNorm update its running statistics.
    Postcondition: exactly one forward pass of the predictor on the given X, in evaluation mode (torch: model.eval() before it, inside torch.no_grad();
    tensorflow: training=False), and its output is what is returned (as numpy)."""

    def __init__(self, engine, cuda=False):
        self.engine, self.cuda = engine, cuda
        self.source = "fairlearn/adversarial/_pytorch_engine.py" if engine == "torch" else "fairlearn/adversarial/_tensorflow_engine.py"
        self.function = "PytorchEngine.evaluate" if engine == "torch" else "TensorflowEngine.evaluate"
        self.variant = f"[cuda={cuda}]" if engine == "torch" else ""

    def params(self, eng, st):
        self.X = T("data", name="X", chain=())
        st.env.update({"self": Obj("Engine", {"predictor_model": T("predictor_model"), "cuda": self.cuda, "device": T("device")}), "X": self.X})
        st.ghost.update({"mode": "train", "no_grad": False, "forward": ()})

    def on_name(self, eng, st, name):
        if name in ("torch", "tensorflow"):
            return Abstract("module", name=name, alias=name)
        return NotImplemented

    def on_call(self, eng, st, node, name, recv, args, kwargs):
        tag = recv.tag if isinstance(recv, Abstract) else None
        if name == "eval" and tag == "predictor_model":
            st.ghost["mode"] = "eval"
            return None
        if name == "train" and tag == "predictor_model":
            st.ghost["mode"] = "train"
            return None
        if name == "torch.from_numpy" and args and isinstance(args[0], Abstract) and args[0].tag == "data":
            return args[0]
        if name in ("float", "to", "detach", "cpu") and tag in ("data", "output"):
            return recv
        if name == "numpy" and tag == "output":
            return T("numpy_output", of=recv)
        if name == "torch.no_grad":
            return T("no_grad")
        if name == "$enter" and tag == "no_grad":
            st.ghost["no_grad"] = True
            return recv
        if name == "$exit" and tag == "no_grad":
            st.ghost["no_grad"] = False
            return None
        if name == "$call" and tag == "predictor_model":
            mode = st.ghost["mode"]
            if "training" in kwargs:
                mode = "train" if kwargs["training"] is not False else "eval"
            elif self.engine == "tf":
                mode = "default"
            st.ghost["forward"] = st.ghost["forward"] + ((mode, st.ghost["no_grad"] or self.engine == "tf", args[0] if len(args) == 1 else None),)
            return T("output", k=len(st.ghost["forward"]) - 1)
        return NotImplemented

    def post(self, eng, st, status, value):
        if status != "return":
            return [("returns_normally", BoolVal(False))]
        fw = st.ghost["forward"]
        one = len(fw) == 1
        return [("exactly_one_forward_pass_on_the_given_X", BoolVal(one and fw[0][2] is self.X)),
                ("forward_pass_runs_in_evaluation_mode", BoolVal(one and fw[0][0] == "eval")),
                ("forward_pass_does_not_track_gradients", BoolVal(one and bool(fw[0][1]))),
                ("returns_the_output_of_that_pass", BoolVal(one and isinstance(value, Abstract) and value.tag == "numpy_output" and value.of.k == 0))]


class Shuffle(Contract):
    """shuffle(X, Y, A) of the engines: the three returned tensors are the SAME row permutation of X, Y and A (rows stay paired), shapes kept.
    torch: one permutation `idx` indexes all three; base engine (numpy / tensorflow): one sklearn.utils.shuffle call over the three arrays."""

    def __init__(self, engine):
        self.engine = engine
        self.source = "fairlearn/adversarial/_pytorch_engine.py" if engine == "torch" else "fairlearn/adversarial/_backend_engine.py"
        self.function = "PytorchEngine.shuffle" if engine == "torch" else "BackendEngine.shuffle"

    def params(self, eng, st):
        self.t = {k: T("rows", name=k, perm=None) for k in ("X", "Y", "A")}
        st.env.update(self.t)
        st.env["self"] = Obj("Engine", {"base": Obj("base", {"random_state_": T("rs")})})

    def on_name(self, eng, st, name):
        if name == "torch":
            return Abstract("module", name="torch", alias="torch")
        return NotImplemented

    def on_call(self, eng, st, node, name, recv, args, kwargs):
        if name == "torch.randperm":
            ok = isinstance(args[0], Abstract) and args[0].tag == "n_rows_of" and args[0].of == "X"
            eng.oblige(st, "permutation_of_the_row_count", BoolVal(bool(ok)), "wiring", node)
            return T("perm")
        if name in ("size",) and isinstance(recv, Abstract) and recv.tag == "rows":
            return T("size_of", of=recv.name, perm=recv.perm)
        if name == "view" and isinstance(recv, Abstract) and recv.tag == "rows" and args and isinstance(args[0], Abstract) and args[0].tag == "size_of" and args[0].of == recv.name:
            return recv          # same shape as before
        if name in ("shuffle", "sklearn.utils.shuffle") and len(args) == 3 and all(isinstance(a, Abstract) and a.tag == "rows" for a in args):
            p = T("perm")
            return tuple(T("rows", name=a.name, perm=p) for a in args)
        return NotImplemented

    def on_attr(self, eng, st, node, base, attr):
        if isinstance(base, Abstract) and base.tag == "rows" and attr == "shape":
            return (T("n_rows_of", of=base.name), T("width_of", of=base.name))
        return NotImplemented

    def on_subscript(self, eng, st, node, base, index):
        if isinstance(base, Abstract) and base.tag == "rows" and isinstance(index, Abstract) and index.tag == "perm":
            return T("rows", name=base.name, perm=index)
        return NotImplemented

    def post(self, eng, st, status, value):
        ok = status == "return" and isinstance(value, tuple) and len(value) == 3 and all(isinstance(v, Abstract) and v.tag == "rows" for v in value)
        if not ok:
            return [("returns_three_row_sets", BoolVal(False))]
        return [("returns_X_Y_A_in_this_order", BoolVal([v.name for v in value] == ["X", "Y", "A"])),
                ("all_three_are_permuted", BoolVal(all(v.perm is not None for v in value))),
                ("the_same_permutation_is_applied_to_X_Y_and_A", BoolVal(value[0].perm is not None and value[0].perm is value[1].perm and value[1].perm is value[2].perm))]
